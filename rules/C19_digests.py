"""C19 — CRC-16, CRC-32, the 8/16-bit checksums and MD5 replayed on concrete bytes against independent references (C19.R21).  Imported by rules/C19.py.

tbxlint/minterp.py interprets util::CalcCrc16 / CalcCrc32 (with the constant tables of crc.cpp as read-only regions), util::CalcCheckSum8 / CalcCheckSum16 and crypto::MD5
(constructor, update, finish, Transform, Encode, Decode — the round macros are in the syntax tree as the expressions they expand to) on messages of many lengths.  The
references: CRC-32 is zlib's (binascii.crc32), CRC-16/CCITT-FALSE is computed bit by bit from the polynomial x^16+x^12+x^5+1 here, the checksums are the complement of
the end-around-carry sum of the bytes (big-endian 16-bit words, an odd last byte padded on the right), MD5 is hashlib's.  For MD5 every message is also fed in two and in
many updates: the digest must not depend on the split."""
import binascii
import hashlib
from tbxlint.facts import AnalysisBroken
from tbxlint import minterp
from tbxlint.minterp import P

U = 'tbox::util::'
M = 'tbox::crypto::MD5'


def crc16_ref(data, seed=0xffff):
    crc = seed
    for b in data:
        crc ^= b << 8
        for _ in range(8):
            crc = ((crc << 1) ^ 0x1021) & 0xffff if crc & 0x8000 else (crc << 1) & 0xffff
    return crc


def crc32_ref(data, seed):
    """the reflected CRC-32 register run from `seed`, complemented at the end (seed 0xffffffff gives the standard CRC-32)"""
    crc = seed
    for b in data:
        crc ^= b
        for _ in range(8):
            crc = (crc >> 1) ^ 0xedb88320 if crc & 1 else crc >> 1
    return crc ^ 0xffffffff


def sum8_ref(data):
    acc = 0
    for b in data:
        acc += b
        acc = (acc & 0xff) + (acc >> 8)
    while acc >> 8:
        acc = (acc & 0xff) + (acc >> 8)
    return (~acc) & 0xff


def sum16_ref(data):
    acc = 0
    d = list(data) + ([0] if len(data) % 2 else [])
    for i in range(0, len(d), 2):
        acc += (d[i] << 8) | d[i + 1]
    while acc >> 16:
        acc = (acc & 0xffff) + (acc >> 16)
    return (~acc) & 0xffff


def message(n, salt):
    return [((i * 131 + salt * 29 + (i * i) // 7) ^ (salt << 3)) & 0xff for i in range(n)]


def r21(ctx, prog, thorough=None):
    thorough = ctx.tier == 'thorough' if thorough is None else thorough
    lens = [0, 1, 2, 3, 4, 7, 8, 15, 16, 17, 31, 55, 56, 57, 63, 64, 65, 119, 120, 121, 127, 128, 129, 200] if thorough else [0, 1, 2, 3, 8, 17, 55, 56, 63, 64, 65, 120, 129]
    ctx.rule('C19.R21', 'A10 CRC-16, CRC-32, the 8- and 16-bit checksums and MD5 by abstract replay on concrete bytes: CalcCrc16 / CalcCrc32 (default and two other seeds), CalcCheckSum8 / '
             'CalcCheckSum16 and MD5 (constructor, update, finish, Transform, Encode, Decode) are interpreted on messages of %d lengths (0 to %d; all-zero, all-0xff and two patterned '
             'contents; for the checksums also contents that make every carry happen); each result equals an independent reference — zlib\'s CRC-32, CRC-16/CCITT-FALSE computed bit '
             'by bit from the polynomial, the complement of the end-around-carry sum, hashlib\'s MD5 — and the MD5 digest is the same when the message is fed whole, in two parts '
             'at every boundary class and byte by byte; no fault (table or buffer index out of range) on the way' % (len(lens), lens[-1]), floor=4)
    need = [U + 'CalcCrc16', U + 'CalcCrc32', U + 'CalcCheckSum8', U + 'CalcCheckSum16', M + '::update', M + '::finish']
    if not all(any(g.name == n_ for g in prog.funcs.values()) for n_ in need):
        from tbxlint.facts import extract
        prog = extract(['util/crc.cpp', 'util/checksum.cpp', 'crypto/md5.cpp'])
    mem = {}
    for name, gs in prog.globals.items():
        for g in gs:
            if (g.get('file') or '').endswith(('util/crc.cpp', 'crypto/md5.cpp')) and g.get('vals') is not None:
                mem['g:' + g['n']] = [int(x) if isinstance(x, str) and x.lstrip('-').isdigit() else x for x in g['vals']]         # values beyond 2^63 are emitted as text
    if not any(len(v) == 256 for v in mem.values()):
        raise AnalysisBroken('the CRC tables of util/crc.cpp were not read')
    if hashlib.md5(b'abc').hexdigest() != '900150983cd24fb0d6963f7d28e17f72' or binascii.crc32(b'123456789') != 0xcbf43926 or crc16_ref(b'123456789') != 0x29b1:
        raise AnalysisBroken('a reference of the checker does not reproduce its published check value')
    serial = [0]

    def fresh():
        it = minterp.Interp(prog, dict(mem), hooks={'memcpy': minterp.h_memcpy, 'memset': minterp.h_memset}, inline=('*',), max_steps=20000000)
        return it

    def region(it, vals):
        serial[0] += 1
        it.mem['buf#%d' % serial[0]] = list(vals) if vals else [0]          # a zero-length message still has an address
        return P('buf#%d' % serial[0], 0)

    # ---- CRCs and checksums -----------------------------------------------------------------------------------------------------
    contents = lambda n: [[0] * n, [255] * n, message(n, 1), message(n, 5)]
    for fn, ref, seeds, what in ((U + 'CalcCrc16', lambda d, s: crc16_ref(d, s), (0xffff, 0, 0x1d0f), 'CRC-16/CCITT'), (U + 'CalcCrc32', lambda d, s: crc32_ref(d, s), (0xffffffff, 0, 0x12345678), 'CRC-32'),
                              (U + 'CalcCheckSum8', lambda d, s: sum8_ref(d), (None,), 'the 8-bit checksum'), (U + 'CalcCheckSum16', lambda d, s: sum16_ref(d), (None,), 'the 16-bit checksum')):
        g = prog.fn1(fn)
        bad = None
        n_ = 0
        it = fresh()
        for ln in lens:
            for data in contents(ln):
                for seed in seeds:
                    args = [region(it, data), ln] + ([seed] if seed is not None else [])
                    it.faults = []
                    got = it.call(g, args)
                    n_ += 1
                    want = ref(data, seed)
                    if fn.endswith('Crc32') and seed == 0xffffffff and want != binascii.crc32(bytes(data)):
                        raise AnalysisBroken('the bitwise CRC-32 of the checker disagrees with zlib')
                    why = str(it.faults[0]) if it.faults else (None if got == want else 'gives %s where %s is %#x' % ('%#x' % got if isinstance(got, int) else got, what, want))
                    if why and bad is None:
                        bad = (ln, data, seed, why)
        ctx.ob('C19.R21', '%s|values' % fn.split('::')[-1], bad is None, '%d results' % n_ if bad is None else
               '%d byte(s) %s%s: %s' % (bad[0], ' '.join('%02x' % x for x in bad[1][:12]) + (' ..' if bad[0] > 12 else ''), '' if bad[2] is None else ', seed %#x' % bad[2], bad[3]), where=g.loc(g.body))

    # ---- MD5 ------------------------------------------------------------------------------------------------------------------------
    upd, fin = prog.fn1(M + '::update'), prog.fn1(M + '::finish')
    ctor = [g for g in prog.methods_of(M) if g.d.get('ctor') and not g.params and g.body is not None]
    if len(ctor) != 1:
        raise AnalysisBroken('MD5: default constructor not found')
    bad = None
    n_ = 0
    it = fresh()
    for ln in lens:
        for data in ([message(ln, 3)] if not thorough else [message(ln, 3), [0] * ln, [255] * ln]):
            want = hashlib.md5(bytes(data)).hexdigest()
            splits = [(ln,)]
            for a in sorted({0, 1, ln // 2, 55, 56, 63, 64, 65, ln - 1, ln}):
                if 0 <= a <= ln and (a, ln - a) not in splits:
                    splits.append((a, ln - a))
            if 2 <= ln <= 130:
                splits.append(tuple([1] * ln))
            if not thorough:
                splits = splits[:1] + splits[1::2] + ([splits[-1]] if 2 <= ln <= 70 else [])
            for parts in splits:
                obj = it.new_record(M)
                it._keep.append(obj)
                it.faults = []
                it.run_ctor(ctor[0], ctor[0].stmts[0], obj, M, ctor[0], [])
                msg = region(it, data)
                off = 0
                for a in parts:
                    it.call(upd, [P(msg.r, off), a], this=obj)
                    off += a
                out = region(it, ['uninit'] * 16)
                it.call(fin, [out], this=obj)
                n_ += 1
                got = list(it.mem[out.r])
                hexs = ''.join('%02x' % x if isinstance(x, int) else '??' for x in got)
                why = str(it.faults[0]) if it.faults else (None if hexs == want else 'digest %s, MD5 is %s' % (hexs, want))
                if why and bad is None:
                    bad = (ln, parts, why)
    ctx.ob('C19.R21', 'MD5|values', bad is None, '%d digests' % n_ if bad is None else
           'message of %d byte(s) fed as %s: %s' % (bad[0], '+'.join(str(x) for x in bad[1][:8]) + ('+..' if len(bad[1]) > 8 else ''), bad[2]), where=upd.loc(upd.body))


# ---- Base64 (caller-buffer forms) and scalable integers: round trips on values (C19.R22) ----------------------------------------------------

B = 'tbox::util::base64::'
ALPHA = 'ABCDEFGHIJKLMNOPQRSTUVWXYZabcdefghijklmnopqrstuvwxyz0123456789+/'


def b64_ref(data):
    out = []
    for i in range(0, len(data), 3):
        chunk = data[i:i + 3]
        v = int.from_bytes(bytes(chunk) + b'\0' * (3 - len(chunk)), 'big')
        s = [ALPHA[(v >> 18) & 63], ALPHA[(v >> 12) & 63], ALPHA[(v >> 6) & 63], ALPHA[v & 63]]
        if len(chunk) < 3:
            s[3] = '='
        if len(chunk) < 2:
            s[2] = '='
        out += s
    return ''.join(out)


def r22(ctx, prog):
    thorough = ctx.tier == 'thorough'
    lens = list(range(1, 26)) + [47, 48, 49] if thorough else [1, 2, 3, 4, 5, 6, 7, 11, 12, 13, 48, 49]
    ctx.rule('C19.R22', 'A10 Base64 (caller-buffer forms) and scalable integers by abstract replay on concrete values: Encode into a buffer of exactly the advertised size equals RFC 4648 '
             'written independently (and Python\'s base64), into a buffer one short it refuses and writes nothing; DecodeLength of the text is the length of the data and Decode '
             'gives the data back, into a buffer one short it refuses and writes nothing; truncated text, text with a character outside the alphabet at every position, with a '
             'byte >= 0x80, with padding in the middle end in a clean refusal or a short count, never in a fault; the overload that decodes into a std::vector appends (what the vector held stays in front); DumpScalableInteger / ParseScalableInteger round-trip the '
             'boundary values of every size class (their neighbours, interior values whose 7-bit groups all differ, 2^63, 2^64-1) with the advertised byte count, sizes never decrease with the value, distinct values '
             'give distinct encodings, a buffer one short is refused untouched, a truncated encoding is refused, trailing bytes are not consumed; %d data lengths' % len(lens), floor=2)
    need = [B + 'Encode', B + 'Decode', B + 'DecodeLength', 'tbox::util::DumpScalableInteger', 'tbox::util::ParseScalableInteger']
    if not all(any(g.name == n_ for g in prog.funcs.values()) for n_ in need):
        from tbxlint.facts import extract
        prog = extract(['util/base64.cpp', 'util/scalable_integer.cpp'])
    import base64 as pyb64
    mem = {}
    for name, gs in prog.globals.items():
        for g in gs:
            if (g.get('file') or '').endswith(('util/base64.cpp', 'util/scalable_integer.cpp')) and g.get('vals') is not None:
                mem['g:' + g['n']] = [int(x) if isinstance(x, str) and x.lstrip('-').isdigit() else x for x in g['vals']]         # values beyond 2^63 are emitted as text
    it = minterp.Interp(prog, dict(mem), hooks={'memcpy': minterp.h_memcpy, 'memset': minterp.h_memset}, inline=('*',), max_steps=20000000)
    serial = [0]

    def region(vals):
        serial[0] += 1
        it.mem['buf#%d' % serial[0]] = list(vals)
        return P('buf#%d' % serial[0], 0)

    def pick(name, nparams, first_ct):
        c = [g for g in prog.funcs.values() if g.name == name and g.body is not None and len(g.params) == nparams and first_ct in (g.params[0].get('ct') or g.params[0].get('t') or '')]
        if len(c) != 1:
            raise AnalysisBroken('%s/%d: %d candidate(s)' % (name, nparams, len(c)))
        return c[0]
    enc, dec, dlen = pick(B + 'Encode', 4, 'void'), pick(B + 'Decode', 4, 'char'), pick(B + 'DecodeLength', 2, 'char')
    bad = None
    n_ = 0

    def note(what):
        nonlocal bad
        if bad is None:
            bad = what

    def call(g, args):
        it.faults = []
        r = it.call(g, args)
        return r, (str(it.faults[0]) if it.faults else None)
    GUARD = 0xA5
    for ln in lens:
        for data in ([0] * ln, [255] * ln, message(ln, 2), message(ln, 9)):
            want = b64_ref(data)
            if want != pyb64.b64encode(bytes(data)).decode():
                raise AnalysisBroken('the Base64 reference of the checker disagrees with Python')
            tag = '%d byte(s) %s' % (ln, ' '.join('%02x' % x for x in data[:8]))
            # encode, exact size (a guard cell behind the advertised size must stay untouched)
            out = region(['uninit'] * len(want) + [GUARD])
            r, flt = call(enc, [region(data), ln, out, len(want)])
            n_ += 1
            got = it.mem[out.r]
            if flt:
                note('%s: Encode: %s' % (tag, flt))
            elif r != len(want) or ''.join(chr(x) if isinstance(x, int) else '?' for x in got[:len(want)]) != want or got[-1] != GUARD:
                note('%s: Encode into %d cells answers %s and writes "%s", RFC 4648 gives "%s"' % (tag, len(want), r, ''.join(chr(x) if isinstance(x, int) and 32 <= x < 127 else '?' for x in got[:len(want)]), want))
            # encode, one short
            out = region([GUARD] * len(want))
            r, flt = call(enc, [region(data), ln, out, len(want) - 1])
            if flt:
                note('%s: Encode into a buffer one short: %s' % (tag, flt))
            elif r != 0 or any(x != GUARD for x in it.mem[out.r]):
                note('%s: Encode into a buffer one short of the advertised size answers %s%s' % (tag, r, ' and writes' if any(x != GUARD for x in it.mem[out.r]) else ''))
            text = [ord(c) for c in want]
            r, flt = call(dlen, [region(text), len(text)])
            if flt or r != ln:
                note('%s: DecodeLength("%s") %s' % (tag, want, flt or 'answers %s' % r))
            out = region(['uninit'] * ln + [GUARD])
            r, flt = call(dec, [region(text), len(text), out, ln])
            n_ += 1
            if flt:
                note('%s: Decode: %s' % (tag, flt))
            elif r != ln or list(it.mem[out.r][:ln]) != list(data) or it.mem[out.r][-1] != GUARD:
                note('%s: Decode("%s") answers %s and does not give the data back' % (tag, want, r))
            out = region([GUARD] * ln)
            r, flt = call(dec, [region(text), len(text), out, ln - 1])
            if flt:
                note('%s: Decode into a buffer one short: %s' % (tag, flt))
            elif r != 0 or any(x != GUARD for x in it.mem[out.r]):
                note('%s: Decode into a buffer one short answers %s%s' % (tag, r, ' and writes' if any(x != GUARD for x in it.mem[out.r]) else ''))
            # damaged text: never a fault, never more than the capacity, and a character outside the alphabet is refused
            if data is not None and ln in (1, 2, 3, 4, 12, 13):
                variants = [(text[:k], 'truncated to %d' % k, None) for k in range(len(text))]
                for pos in range(len(text)):
                    for ch in (ord('*'), 0x80, 0xff, 0, ord('=')):
                        if text[pos] != ch:
                            variants.append((text[:pos] + [ch] + text[pos + 1:], 'byte %#x at %d' % (ch, pos), ch if ch != ord('=') else None))
                for tv, what, alien in variants:
                    out = region(['uninit'] * ln + [GUARD])
                    r, flt = call(dec, [region(tv if tv else [0]), len(tv), out, ln])
                    n_ += 1
                    if flt:
                        note('%s: Decode of the text %s: %s' % (tag, what, flt))
                    elif not isinstance(r, int) or r > ln or it.mem[out.r][-1] != GUARD:
                        note('%s: Decode of the text %s answers %s for a capacity of %d' % (tag, what, r, ln))
                    elif alien is not None and r != 0 and ord('=') not in tv[:tv.index(alien)]:
                        note('%s: Decode accepts the text %s (answers %s)' % (tag, what, r))
    # the overload that appends to a std::vector: the vector keeps what it held (a second text decoded into the same vector comes after the first)
    vdec = [g for g in prog.funcs.values() if g.name == B + 'Decode' and g.body is not None and len(g.params) == 2 and 'vector' in (g.params[1].get('ct') or '')]
    if len(vdec) != 1:
        raise AnalysisBroken('base64::Decode(const std::string&, std::vector<uint8_t>&): %d candidate(s)' % len(vdec))
    hooks2 = dict(minterp.VECTOR_HOOKS)
    def h_resize(it_, f, st, a):
        v = it_.cur_obj
        if not isinstance(v, list) or not isinstance(a[0], int):
            raise AnalysisBroken('resize() of something the replay does not hold as a vector (%s)' % f.loc(st['i']))
        if a[0] < len(v):
            del v[a[0]:]
        else:
            v.extend([a[1] if len(a) > 1 else 0] * (a[0] - len(v)))
        return None

    def h_data(it_, f, st, a):
        v = it_.cur_obj
        if not isinstance(v, list):
            raise AnalysisBroken('data() of something the replay does not hold as a vector (%s)' % f.loc(st['i']))
        serial[0] += 1
        it_.mem['vec#%d' % serial[0]] = v           # the storage of the vector itself: stores through the pointer are stores into the vector
        return P('vec#%d' % serial[0], 0)
    hooks2.update({'memcpy': minterp.h_memcpy, 'memset': minterp.h_memset, 'resize': h_resize, 'data': h_data})
    it2 = minterp.Interp(prog, dict(mem), hooks=hooks2, inline=('*',), max_steps=20000000)
    it2.string_mode = True
    it2.globals['std::basic_string<char>::npos'] = minterp.NPOS
    for ln in (1, 2, 3, 4, 7):
        for held in ([], [9, 8, 7], list(range(200, 216))):
            data = message(ln, 4)
            vec = list(held)
            it2.faults = []
            cell = {'__cls__': None, '__open__': True, 'v': vec}
            it2._keep.append(cell)
            try:
                r = it2.call(vdec[0], [minterp.S(b64_ref(data)), vec])
            except AnalysisBroken as ex:
                raise AnalysisBroken('base64::Decode into a vector: %s' % ex)
            n_ += 1
            if it2.faults:
                note('Decode("%s") into a vector holding %d byte(s): %s' % (b64_ref(data), len(held), it2.faults[0]))
            elif r != ln or vec != held + data:
                note('Decode("%s") into a vector holding %s answers %s and leaves %s where %s is expected (what the vector held, then the data)' % (b64_ref(data), held[:4], r, vec[:8], (held + data)[:8]))
    f = enc
    ctx.ob('C19.R22', 'base64|round-trip', bad is None, '%d codec calls' % n_ if bad is None else bad, where=f.loc(f.body))

    # ---- scalable integers ----
    dump, parse = prog.fn1('tbox::util::DumpScalableInteger'), prog.fn1('tbox::util::ParseScalableInteger')
    bad = None
    vals = set([0, 1, (1 << 63), (1 << 64) - 1, (1 << 32), (1 << 56)])
    lo = 0
    for n in range(1, 10):
        hi = lo + (1 << (7 * n)) - 1        # the size classes by the stated construction: each further byte adds 7 bits and starts where the previous class ended
        for v in (lo - 1, lo, lo + 1, hi - 1, hi, hi + 1, (lo + hi) // 2):
            if 0 <= v < (1 << 64):
                vals.add(v)
        for pat in (0x2AAAAAAAAAAAAAAA, 0x0123456789ABCDEF, 0x1F2E3D4C5B6A7988, 0x5555555555555555, 0x00FF00FF00FF00FF, 0x1111111111111111 * 7):
            v = lo + (pat & ((1 << (7 * n)) - 1))           # interior values of the class: every 7-bit group of the payload different from its neighbours
            if 0 <= v < (1 << 64):
                vals.add(v)
        lo = hi + 1
    seen = {}
    last = (None, 0)
    n_ = 0
    for v in sorted(vals):
        tag = 'value %#x' % v
        out = region([GUARD] * 12)
        r, flt = call(dump, [v, out, 11])
        n_ += 1
        if flt or not isinstance(r, int) or not (1 <= r <= 10):
            note('%s: DumpScalableInteger %s' % (tag, flt or 'answers %s' % r))
            continue
        enc_bytes = list(it.mem[out.r][:r])
        if any(x != GUARD for x in it.mem[out.r][r:]):
            note('%s: DumpScalableInteger answers %d and writes beyond that' % (tag, r))
        if r < last[1]:
            note('%s takes %d byte(s), the smaller value %#x took %d' % (tag, r, last[0], last[1]))
        last = (v, r)
        key = tuple(enc_bytes)
        if key in seen:
            note('%s and value %#x have the same encoding' % (tag, seen[key]))
        seen[key] = v
        cell = region(['uninit'])
        r2, flt = call(parse, [region(enc_bytes + [0x55, 0x80]), r + 2, cell])
        if flt or r2 != r or it.mem[cell.r][0] != v:
            note('%s: ParseScalableInteger of its %d-byte encoding %s' % (tag, r, flt or 'answers %s and the value %s' % (r2, it.mem[cell.r][0])))
        out1 = region([GUARD] * 12)
        r1, flt = call(dump, [v, out1, r])
        if flt or r1 != r or list(it.mem[out1.r][:r]) != enc_bytes or any(x != GUARD for x in it.mem[out1.r][r:]):
            note('%s: DumpScalableInteger into exactly the %d byte(s) it needs %s' % (tag, r, flt or 'answers %s' % r1))
        out2 = region([GUARD] * 12)
        r3, flt = call(dump, [v, out2, r - 1])
        if flt or r3 != 0 or any(x != GUARD for x in it.mem[out2.r]):
            note('%s: DumpScalableInteger into %d byte(s) (one short) %s' % (tag, r - 1, flt or 'answers %s%s' % (r3, ' and writes' if any(x != GUARD for x in it.mem[out2.r]) else '')))
        if r > 1:
            cell = region(['uninit'])
            r4, flt = call(parse, [region(enc_bytes[:-1]), r - 1, cell])
            if flt or r4 != 0:
                note('%s: ParseScalableInteger of its encoding without the last byte %s' % (tag, flt or 'answers %s' % r4))
    ctx.ob('C19.R22', 'scalable-integer|round-trip', bad is None, '%d values' % n_ if bad is None else bad, where=dump.loc(dump.body))


def b64_pad_walk(prog, groups=3):
    """every placement of padding in texts of 1..groups quartets, decoded into a buffer of exactly DecodeLength(text) cells with a guard cell behind it: the bound of
    C19.R11 decided by replay when the decoding loop is not written as a switch.  Returns {class of the first pad position: (runs, first problem or None)}."""
    need = [B + 'Decode', B + 'DecodeLength']
    if not all(any(g.name == n_ for g in prog.funcs.values()) for n_ in need):
        from tbxlint.facts import extract
        prog = extract(['util/base64.cpp'])
    mem = {}
    for name, gs in prog.globals.items():
        for g in gs:
            if (g.get('file') or '').endswith('util/base64.cpp') and g.get('vals') is not None:
                mem['g:' + g['n']] = list(g['vals'])
    it = minterp.Interp(prog, dict(mem), hooks={'memcpy': minterp.h_memcpy, 'memset': minterp.h_memset}, inline=('*',), max_steps=50000000)
    pick = lambda name, first_ct: [g for g in prog.funcs.values() if g.name == name and g.body is not None and len(g.params) in (2, 4) and first_ct in (g.params[0].get('ct') or '') and
                                   (len(g.params) == 2 or 'size_t' in (g.params[1].get('t') or '') or 'long' in (g.params[1].get('ct') or ''))]
    dec = [g for g in pick(B + 'Decode', 'char') if len(g.params) == 4]
    dlen = [g for g in pick(B + 'DecodeLength', 'char') if len(g.params) == 2]
    if len(dec) != 1 or len(dlen) != 1:
        raise AnalysisBroken('Base64 Decode/DecodeLength (pointer forms): %d/%d candidate(s)' % (len(dec), len(dlen)))
    dec, dlen = dec[0], dlen[0]
    import itertools
    out = {}
    serial = [0]

    def region(vals):
        serial[0] += 1
        it.mem['pw#%d' % serial[0]] = list(vals)
        return P('pw#%d' % serial[0], 0)
    for k in range(1, groups + 1):
        for pads in itertools.product((0, 1), repeat=4 * k):
            text = [ord('=') if p else ord('Q') for p in pads]
            first = pads.index(1) if 1 in pads else None
            cls = 'no padding' if first is None else ('padding first at position %d of its quartet' % (first % 4)) + ('' if first // 4 == k - 1 else ', before the last quartet')
            it.faults = []
            cap = it.call(dlen, [region(text), len(text)])
            why = None
            if it.faults or not isinstance(cap, int) or cap > 3 * k:
                why = 'DecodeLength answers %s (%s)' % (cap, it.faults[0] if it.faults else 'more than 3 per quartet')
            else:
                buf = region(['uninit'] * cap + [0xA5])
                r = it.call(dec, [region(text), len(text), buf, cap])
                if it.faults:
                    why = str(it.faults[0])
                elif it.mem[buf.r][-1] != 0xA5 or (isinstance(r, int) and r > cap):
                    why = 'writes %s byte(s) into the %d that DecodeLength advertises' % (r, cap)
            n_, w_ = out.get(cls, (0, None))
            out[cls] = (n_ + 1, w_ or (('text "%s": %s' % (''.join(chr(c) for c in text), why)) if why else None))
    return out
