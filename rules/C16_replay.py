"""C16 — hierarchical state machines replayed against the reference semantics (C16.R8).  Imported by rules/C16.py.

tbxlint/minterp.py interprets the syntax trees of flow::StateMachine::Impl (newState, addRoute, addEvent, setSubStateMachine, start, stop, run and the look-ups they use;
std::map / std::vector / iterators / std::find_if with its lambda / std::function values are modelled).  Guards, actions, per-state event handlers and the state-changed
callback are harness callables that append to a trace.  Machines come from a grid of definitions (two and three states, wildcard routes, guards that hold or not,
handlers that pick a target or decline, a terminal state, a sub-machine with its own terminal route, two levels of nesting); every event sequence of up to three events
is run after start(), with stop() at the end, and the trace, the results of run() and the reported current states are compared with a reference interpreter of the
documented semantics.  Calls made from inside an action (run / start / stop on the machine itself) must be refused without effect."""
import itertools
from tbxlint.facts import AnalysisBroken
from tbxlint import minterp
from tbxlint.minterp import P

I = 'tbox::flow::StateMachine::Impl'


class Bench:
    def __init__(self, prog):
        self.prog = prog
        noop = lambda it, f, st, a: None
        hooks = dict(minterp.VECTOR_HOOKS)
        hooks.update({'c_str': lambda it, f, st, a: it.cur_obj, 'move': lambda it, f, st, a: a[0], 'forward': lambda it, f, st, a: a[0], 'abort': self.h_abort})
        self.it = minterp.Interp(prog, {'str:empty': [0]}, hooks=hooks, inline=('*',), max_steps=2000000)
        term = self.it.new_record(I + '::State')
        term.update({'id': 0, 'enter_action': 0, 'exit_action': 0, 'sub_sm': 0, 'default_event': 0})
        self.it._keep.append(term)
        self.it.globals[I + '::_term_state_'] = self.it.ref(term)
        self.trace = []

    def h_abort(self, it, f, st, a):
        it.fault(f, st, 'an assertion of the library fails (abort)')
        raise minterp._Abort()

    def call(self, rec, name, args):
        g = self.it.find_method(I, name, len(args))
        if g is None:
            raise AnalysisBroken('StateMachine::Impl::%s/%d not found' % (name, len(args)))
        return self.it.call(g, list(args), this=rec)

    def event(self, eid):
        e = self.it.new_record('tbox::flow::Event')
        e['id'] = eid
        e['extra'] = 0
        self.it._keep.append(e)
        return self.it.ref(e)

    def eid(self, ev):
        r = self.it.record_of(ev)
        return r.get('id') if r else None


# machine definition:
#   {'name': 'M', 'states': [ids], 'init': id | None, 'routes': [(from, event, to, guard: None|True|False, has_action)],
#    'handlers': [(state, event, returns)], 'subs': {state: definition}, 'enter': set(ids with enter action), 'exit': set(ids)}

def build(b, d):
    it = b.it
    rec = it.new_record(I)
    it._keep.append(rec)
    nm = d['name']
    empty = P('str:empty', 0)
    def seen():
        # what the machine reports about itself to code running inside its actions: (current, next, last) — documented in state_machine.h: the current state is -1 while a
        # transition is under way (in the route action), the next state is valid in the exit and route actions
        return (b.call(rec, 'currentState', []), b.call(rec, 'nextState', []), b.call(rec, 'lastState', []))
    for sid in d['states']:
        en = (lambda ev, sid=sid: b.trace.append(('enter', nm, sid, b.eid(ev), seen()))) if sid in d.get('enter', d['states']) else 0
        ex = (lambda ev, sid=sid: b.trace.append(('exit', nm, sid, b.eid(ev), seen()))) if sid in d.get('exit', d['states']) else 0
        if not b.call(rec, 'newState', [sid, en, ex, empty]):
            raise AnalysisBroken('newState(%d) refused on a fresh machine' % sid)
    if d.get('init') is not None:
        b.call(rec, 'setInitState', [d['init']])
    for ri, (fr, ev, to, guard, act) in enumerate(d['routes']):
        g = 0 if guard is None else (lambda e, ri=ri, guard=guard: (b.trace.append(('guard', nm, ri, b.eid(e))), int(guard))[1])
        a = (lambda e, ri=ri: b.trace.append(('action', nm, ri, b.eid(e), seen()))) if act else 0
        if not b.call(rec, 'addRoute', [fr, ev, to, g, a, empty]):
            raise AnalysisBroken('addRoute(%d,%d,%d) refused' % (fr, ev, to))
    for hi, (sid, ev, ret) in enumerate(d.get('handlers', ())):
        h = lambda e, hi=hi, ret=ret: (b.trace.append(('handler', nm, hi, b.eid(e))), ret)[1]
        if not b.call(rec, 'addEvent', [sid, ev, h]):
            raise AnalysisBroken('addEvent(%d,%d) refused' % (sid, ev))
    rec['state_changed_cb_'] = lambda fr, to, e: b.trace.append(('changed', nm, fr, to, b.eid(e)))
    subs = {}
    for sid, sd in d.get('subs', {}).items():
        sub = build(b, sd)
        wrapper = {'__cls__': 'tbox::flow::StateMachine', '__open__': True, 'impl_': it.ref(sub[0])}
        it._keep.append(wrapper)
        if not b.call(rec, 'setSubStateMachine', [sid, it.ref(wrapper)]):
            raise AnalysisBroken('setSubStateMachine(%d) refused' % sid)
        subs[sid] = sub
    return rec, d, subs


class RefSM:
    """the documented semantics"""
    def __init__(self, d, trace):
        self.d, self.trace = d, trace
        self.cur = None
        self.last = None
        self.running = False
        self.subs = {sid: RefSM(sd, trace) for sid, sd in d.get('subs', {}).items()}

    def init(self):
        return self.d['init'] if self.d.get('init') is not None else self.d['states'][0]

    def enter(self, sid, ev):
        if sid in self.d['states'] and sid in self.d.get('enter', self.d['states']):
            self.trace.append(('enter', self.d['name'], sid, ev, (sid, -1, self.last if self.last is not None else -1)))

    def exit(self, sid, ev, nxt=-1):
        if sid in self.d['states'] and sid in self.d.get('exit', self.d['states']):
            self.trace.append(('exit', self.d['name'], sid, ev, (sid, nxt, self.last if self.last is not None else -1)))

    def start(self):
        if self.running:
            return False
        self.running = True
        self.cur = self.init()
        self.enter(self.cur, 0)
        if self.cur in self.subs:
            self.subs[self.cur].start()
        return True

    def stop(self):
        if not self.running:
            return
        if self.cur in self.subs:
            self.subs[self.cur].stop()
        self.exit(self.cur, 0)
        self.cur = None
        self.running = False

    def terminated(self):
        return self.cur == 0

    def run(self, ev):
        if not self.running:
            return False
        nm = self.d['name']
        if self.cur in self.subs:
            sub = self.subs[self.cur]
            r = sub.run(ev)
            if not sub.terminated():
                return r
            sub.stop()
        target = -1
        via = None
        hs = self.d.get('handlers', ())
        exact = [(hi, h) for hi, h in enumerate(hs) if h[0] == self.cur and h[1] == ev]
        anyh = [(hi, h) for hi, h in enumerate(hs) if h[0] == self.cur and h[1] == 0]
        pick = exact[-1] if exact else (anyh[-1] if anyh else None)     # a later registration for the same event replaces the earlier one
        if pick is not None:
            self.trace.append(('handler', nm, pick[0], ev))
            target = pick[1][2]
        if target == -1:
            for ri, (fr, rev, to, guard, act) in enumerate(self.d['routes']):
                if fr != self.cur or (rev != 0 and rev != ev):
                    continue
                if guard is not None:
                    self.trace.append(('guard', nm, ri, ev))
                    if not guard:
                        continue
                target, via = to, ri
                break
            if via is None:
                return False
        if target != 0 and target not in self.d['states']:
            return False
        last = self.cur
        self.exit(last, ev, target)
        self.last = last
        if via is not None and self.d['routes'][via][4]:
            self.trace.append(('action', nm, via, ev, (-1, target, last)))
        self.cur = target
        self.enter(target, ev)
        self.trace.append(('changed', nm, last, target, ev))
        if target in self.subs:
            self.subs[target].start()
            self.subs[target].run(ev)
        return True


def definitions():
    out = []
    base_routes = [
        [(1, 1, 2, None, True), (2, 2, 1, None, False)],
        [(1, 1, 2, False, True), (1, 1, 3, True, True), (2, 0, 3, None, True), (3, 2, 1, None, False)],
        [(1, 0, 2, True, False), (1, 1, 3, None, True), (2, 1, 0, None, True), (3, 3, 3, None, True)],
        [(1, 2, 2, False, False), (1, 2, 2, False, True), (2, 1, 1, True, True)],
    ]
    for ri, routes in enumerate(base_routes):
        for handlers in ([], [(1, 1, -1)], [(1, 1, 3)], [(2, 0, 1), (1, 2, -1)], [(1, 1, 2), (1, 1, 3)], [(1, 0, 0)]):
            out.append({'name': 'M', 'states': [1, 2, 3], 'init': None, 'routes': routes, 'handlers': handlers})
    out.append({'name': 'M', 'states': [1, 2, 3], 'init': 2, 'routes': base_routes[0], 'handlers': [], 'enter': {1, 3}, 'exit': {2}})
    sub = {'name': 'S', 'states': [1, 2], 'init': None, 'routes': [(1, 1, 2, None, True), (2, 2, 0, None, True), (2, 1, 1, None, False)], 'handlers': []}
    subsub = {'name': 'T', 'states': [5, 6], 'init': None, 'routes': [(5, 1, 6, None, False), (6, 1, 0, None, True)], 'handlers': []}
    for routes in ([(1, 3, 2, None, True), (2, 2, 3, None, True), (2, 3, 1, None, False), (3, 0, 1, None, False)],
                   [(1, 1, 2, None, False), (2, 2, 1, None, True), (2, 1, 3, True, True)]):
        out.append({'name': 'M', 'states': [1, 2, 3], 'init': None, 'routes': routes, 'handlers': [], 'subs': {2: sub}})
        out.append({'name': 'M', 'states': [1, 2, 3], 'init': 2, 'routes': routes, 'handlers': [(2, 3, -1)], 'subs': {2: sub}})
        deep = dict(sub)
        deep['subs'] = {2: subsub}
        out.append({'name': 'M', 'states': [1, 2, 3], 'init': None, 'routes': routes, 'handlers': [], 'subs': {2: deep}})
    # state ids may be negative: only -1 means "no target chosen"
    out.append({'name': 'M', 'states': [1, -2, 3], 'init': None, 'routes': [(1, 1, 3, True, True), (-2, 2, 1, None, True), (3, 0, 1, None, False)], 'handlers': [(1, 1, -2), (3, 2, -5)]})
    # a nested machine whose state 0 is a state of its own (with a route out of it and a handler), not the built-in terminal one: it counts as terminated while it sits there,
    # and is still offered the next event first
    own0 = {'name': 'Z', 'states': [1, 0], 'init': None, 'routes': [(1, 1, 0, None, True), (0, 2, 1, None, True), (0, 1, 0, True, False)], 'handlers': [(0, 3, -1)]}
    own0i = {'name': 'Z', 'states': [0, 1], 'init': 0, 'routes': [(0, 2, 1, None, True), (1, 1, 0, None, False)], 'handlers': []}
    for routes in ([(1, 1, 2, None, True), (2, 3, 1, None, True), (2, 2, 3, None, False), (3, 0, 1, None, False)],):
        out.append({'name': 'M', 'states': [1, 2, 3], 'init': None, 'routes': routes, 'handlers': [], 'subs': {2: own0}})
        out.append({'name': 'M', 'states': [1, 2, 3], 'init': 2, 'routes': routes, 'handlers': [], 'subs': {2: own0i}})
    return out


def snapshot(b, built):
    rec, d, subs = built
    out = [(d['name'], b.call(rec, 'currentState', []), int(bool(rec.get('is_running_'))))]
    for sid in sorted(subs):
        out += snapshot(b, subs[sid])
    return out


def ref_snapshot(r):
    out = [(r.d['name'], r.cur if r.cur is not None else -1, int(r.running))]
    for sid in sorted(r.subs):
        out += ref_snapshot(r.subs[sid])
    return out


def check(prog, d, seq, restart_at=None, reenter=None):
    b = Bench(prog)
    built = build(b, d)
    rt = []
    ref = RefSM(d, rt)
    log, rlog = [], []
    log.append(('start', b.call(built[0], 'start', [])))
    rlog.append(('start', int(ref.start())))
    for i, ev in enumerate(seq):
        if restart_at == i:
            b.call(built[0], 'stop', [])
            ref.stop()
            log.append(('start', b.call(built[0], 'start', [])))
            rlog.append(('start', int(ref.start())))
        log.append(('run', ev, int(bool(b.call(built[0], 'run', [b.event(ev)]))), tuple(snapshot(b, built))))
        rlog.append(('run', ev, int(ref.run(ev)), tuple(ref_snapshot(ref))))
        if b.it.faults:
            return 'event %d: %s' % (ev, b.it.faults[0])
    b.call(built[0], 'stop', [])
    ref.stop()
    log.append(('stopped', tuple(snapshot(b, built))))
    rlog.append(('stopped', tuple(ref_snapshot(ref))))
    if b.it.faults:
        return b.it.faults[0]
    if log != rlog:
        k = next(i for i in range(min(len(log), len(rlog))) if log[i] != rlog[i]) if len(log) == len(rlog) or any(a != c for a, c in zip(log, rlog)) else min(len(log), len(rlog))
        return 'step %d: the machine reports %s where the reference semantics give %s' % (k, log[k] if k < len(log) else '-', rlog[k] if k < len(rlog) else '-')
    if b.trace != rt:
        k = next((i for i in range(min(len(b.trace), len(rt))) if b.trace[i] != rt[i]), min(len(b.trace), len(rt)))
        return 'the trace of guards/actions/notifications differs at position %d: %s where the reference semantics give %s' % (k, b.trace[k] if k < len(b.trace) else 'nothing more',
                                                                                                                        rt[k] if k < len(rt) else 'nothing more')
    # balance: every state entered has been exited exactly once by the time the machine is stopped
    both = {}

    def collect(dd):
        both[dd['name']] = set(dd.get('enter', dd['states'])) & set(dd.get('exit', dd['states']))
        for sd in dd.get('subs', {}).values():
            collect(sd)
    collect(d)
    depth = {}
    for t in b.trace:
        if t[0] in ('enter', 'exit') and t[2] in both.get(t[1], ()):
            key = (t[1], t[2])
            depth[key] = depth.get(key, 0) + (1 if t[0] == 'enter' else -1)
            if depth[key] not in (0, 1):
                return 'state %d of machine %s is %s twice in a row' % (t[2], t[1], 'entered' if t[0] == 'enter' else 'exited')
    return None


def check_reentrancy(prog):
    """run()/start()/stop() called on the machine from inside its own actions are refused and change nothing"""
    b = Bench(prog)
    d = {'name': 'M', 'states': [1, 2], 'init': None, 'routes': [(1, 1, 2, None, True), (2, 1, 1, None, True)], 'handlers': []}
    built = build(b, d)
    rec = built[0]
    seen = []

    active = [0]

    def nasty(ev):
        if active[0] >= 2:
            return              # a machine that does not refuse re-entrant calls would recurse for ever: two levels are enough to see it
        active[0] += 1
        try:
            nasty_body(ev)
        finally:
            active[0] -= 1

    def nasty_body(ev):
        before = (rec.get('is_running_'), b.call(rec, 'currentState', []))
        r1 = b.call(rec, 'run', [b.event(1)])
        r2 = b.call(rec, 'start', [])
        b.call(rec, 'stop', [])
        after = (rec.get('is_running_'), b.call(rec, 'currentState', []))
        seen.append((int(bool(r1)), int(bool(r2)), before == after))
    states = rec['states_']
    for k_ in [k_ for k_ in states if k_ != '__map__']:
        st = b.it.record_of(states[k_])
        st['enter_action'] = nasty
        st['exit_action'] = nasty
    b.call(rec, 'start', [])
    b.call(rec, 'run', [b.event(1)])
    b.call(rec, 'stop', [])
    if b.it.faults:
        return b.it.faults[0]
    if not seen:
        return 'no action ran'
    for r1, r2, same in seen:
        if r1 or r2 or not same:
            return 'a call made on the machine from inside its own action is %s' % ('accepted (run() or start() returned true)' if (r1 or r2) else 'refused but changes the state of the machine')
    if b.call(rec, 'currentState', []) != -1 or rec.get('is_running_'):
        return 'after stop() the machine still reports a current state'
    return None


def r8(ctx, prog):
    defs = definitions()
    ctx.rule('C16.R8', 'A10 state machines replayed against the reference semantics: %d machine definitions (wildcard routes, guards that hold or not, per-state handlers that pick a target or '
             'decline, a later handler replacing an earlier one, terminal state, a sub-machine with its own terminal route, two levels of nesting) are built through newState / addRoute / '
             'addEvent / setSubStateMachine on the syntax trees of StateMachine::Impl; every event sequence of up to three events (with a stop()/start() in the middle for the longer ones) '
             'is run and the trace of guard evaluations, exit / transition / enter actions and state-changed notifications, the results of run() and the current state of every machine '
             'equal those of a reference interpreter; enter and exit are balanced when the machine is stopped; calls made from inside an action are refused without effect' % len(defs), floor=1)
    bad = None
    n = 0
    for d in defs:
        evs = (1, 2, 3)
        for L in (0, 1, 2, 3):
            for seq in itertools.product(evs, repeat=L):
                for restart_at in ((None,) if L < 3 else (None, 1)):
                    n += 1
                    why = check(prog, d, seq, restart_at)
                    if why is not None and bad is None:
                        bad = (d, seq, restart_at, why)
            if bad:
                break
        if bad:
            break
    f = prog.fn1(I + '::run')
    why = check_reentrancy(prog) if bad is None else None
    ok = bad is None and why is None
    ctx.ob('C16.R8', 'StateMachine|replay', ok, '%d runs agree with the reference semantics; re-entrant calls are refused' % n if ok else
           ('re-entrancy: ' + why if bad is None else 'machine with routes %s, handlers %s%s, events %s%s: %s' %
            (bad[0]['routes'], bad[0].get('handlers'), ', sub-machine in state(s) %s' % sorted(bad[0]['subs']) if bad[0].get('subs') else '', list(bad[1]),
             ' (stop/start before event %d)' % (bad[2] + 1) if bad[2] is not None else '', bad[3])), where=f.loc(f.body))


def r9(ctx, prog):
    """the public class is a handle: what the replay establishes for StateMachine::Impl holds for StateMachine only if every public operation hands its own
    arguments to the operation of the same name of impl_ and returns what that returned"""
    from tbxlint import q
    from rules.C06_relay import _param_passthrough
    SM = 'tbox::flow::StateMachine'
    ctx.rule('C16.R9', 'A10 the public class relays: every operation of StateMachine (newState, addRoute, addEvent, setInitState, setSubStateMachine, setStateChangedCallback, start, stop, '
             'run, currentState, lastState, nextState, isRunning, isTerminated) reaches the operation of the same name of its Impl on every path, with its own parameters in order, and '
             'returns what that returned; restart() is stop() then start() and returns the answer of start()', floor=12)
    impl_names = set(g.short.split('::')[-1] for g in prog.methods_of(I))
    n = 0
    for f in prog.methods_of(SM):
        m = f.short.split('::')[-1]
        if f.d.get('ctor') or f.d.get('dtor') or m.startswith('~') or f.body is None or m in ('toJson', 'setName', 'StateMachine') or f.parent_usr:
            continue
        if m == 'restart':
            st = [c for c in f.calls() if c.get('fn') == 'stop' and (f.field_of(c.get('obj')) or '').endswith('impl_')]
            sa = [c for c in f.calls() if c.get('fn') == 'start' and (f.field_of(c.get('obj')) or '').endswith('impl_')]
            ok = bool(st) and bool(sa) and not f.cfg.exists_path(f.cfg.entry_point(), 'exit', avoid=q.pts(f, st)) and not f.cfg.exists_path(f.cfg.entry_point(), 'exit', avoid=q.pts(f, sa)) and \
                all(q.must_precede(f, q.pts(f, st), q.pt(f, a)) for a in sa) and \
                any(q.carries(f, r['val'], [c['i'] for c in sa]) for r in q.returns(f) if r.get('val') is not None)
            n += 1
            ctx.ob('C16.R9', '%s|stop-then-start' % f.name, ok, 'stops, then starts, and returns the answer of start()' if ok else
                   'restart() does not stop the machine and then start it, returning the answer of start(), on every path', where=f.loc(f.body))
            continue
        if m not in impl_names:
            continue
        calls = [c for c in f.calls() if c.get('fn') == m and 'obj' in c and (f.field_of(c['obj']) or '').endswith('impl_')]
        ok = bool(calls) and not f.cfg.exists_path(f.cfg.entry_point(), 'exit', avoid=q.pts(f, calls))
        why = '%s() can return without calling impl_->%s()' % (m, m)
        if ok:
            ok = all(_param_passthrough(f, c) for c in calls)
            why = '%s() does not pass its own parameters on, in order' % m
        if ok and (f.d.get('rt') or f.d.get('ret') or 'void') != 'void':
            rets = [r for r in q.returns(f) if r.get('val') is not None]
            ok = bool(rets) and all(q.carries(f, r['val'], [c['i'] for c in calls]) for r in rets)
            why = '%s() does not return what impl_->%s() returned' % (m, m)
        n += 1
        ctx.ob('C16.R9', '%s|relays' % f.name, ok, 'reaches impl_->%s() with its own parameters and returns its answer' % m if ok else
               why + ': the behaviour established for the implementation is not the behaviour of the public class', where=f.loc(f.body))
