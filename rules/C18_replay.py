"""C18 — the coroutine scheduler and its primitives replayed with real switches (C18.R11).  Imported by rules/C18.py.

tbxlint/minterp.py interprets the syntax trees of coroutine::Scheduler (create, resume, cancel, wait, yield, join, makeRoutineReady, switchToRoutine, schedule, cleanup),
of Routine (constructor, mainEntry), of the routine cabinet and of Channel<int>, Mutex, Semaphore, Condition<int> and Broadcast.  A context is a record; makecontext()
notes the entry function and its argument in it; swapcontext() is the switch itself: every routine is interpreted on a thread of its own and exactly one thread runs at a
time, so a routine that calls wait() stops in the middle of the interpreted operator>> / lock() / acquire() exactly where the real one stops, and goes on from there when
the scheduler switches back.  The loop is a queue of deferred callables (runNext).  Routine bodies are scripts of operations on the primitives; they note what each
operation answered.  Whenever the scheduler has run out of ready routines the state is inspected: who is suspended in which operation, what the primitives hold."""
import itertools
import threading
from tbxlint.facts import AnalysisBroken
from tbxlint import minterp
from tbxlint.minterp import P, It
from rules.C04_replay import _set_insert, _set_erase, _set_find

N = 'tbox::coroutine::'


class _Kill(BaseException):
    pass


def _plain(r):
    return {k: v for k, v in r.items() if not k.startswith('__')} if isinstance(r, dict) else r


def _h_find(it, f, st, a):
    """std::find over a sequence of tokens: two tokens are the same when their fields are"""
    if 'obj' not in st and len(a) == 3 and isinstance(a[0], It) and isinstance(a[0].c, list):
        want = _plain(it.record_of(a[2]) if it.record_of(a[2]) is not None else a[2])
        for i in range(a[0].k, a[1].k):
            x = a[0].c[i]
            if _plain(it.record_of(x) if it.record_of(x) is not None else x) == want:
                return It(a[0].c, i)
        return It(a[0].c, a[1].k)
    return minterp._find(it, f, st, a)


def _q_push(it, f, st, a):
    v = minterp._vec(it, f, st)
    r = it.record_of(a[0])
    v.append(dict(r) if r is not None else a[0])


def _q_pop(it, f, st, a):
    v = minterp._vec(it, f, st)
    if not v:
        it.fault(f, st, 'pop on an empty queue')
        return None
    v.pop(0)


class Co:
    def __init__(self, prog):
        self.prog = prog
        self.deferred = []
        self.main_sem = threading.Semaphore(0)
        self.routines = {}          # id(ctx record) -> {'thread', 'sem', 'done'}
        self.current = None
        self.error = None
        self.kill = False
        self.trace = []             # (routine name, op, answer)
        self.blocked = {}           # routine name -> op it is inside
        self.finished = set()
        self.problem = None
        self.names = {}
        self.tmp = 0
        noop = lambda it, f, st, a: None
        hooks = dict(minterp.VECTOR_HOOKS)
        hooks.update({'malloc': self.h_malloc, '::free': noop, 'getcontext': self.h_getctx, 'makecontext': self.h_make, 'swapcontext': self.h_swap, 'memset': noop,
                      'runNext': self.h_run_next, 'bind': lambda it, f, st, a: ('bind', a[0], list(a[1:])), 'find': _h_find, 'abort': self.h_abort,
                      'set::insert': _set_insert, 'set::erase': _set_erase, 'set::find': _set_find, 'queue::push': _q_push, 'queue::pop': _q_pop, 'pop_front': _q_pop, 'move': lambda it, f, st, a: a[0], 'c_str': lambda it, f, st, a: it.cur_obj})
        self.it = minterp.Interp(prog, {'str:empty': [0]}, hooks=hooks, inline=('*',), max_steps=8000000)
        self.it.noeval = set(getattr(self.it, 'noeval', ())) | {'LogDbg', 'LogWarn', 'LogErr', 'LogNotice', 'LogInfo', 'LogTrace'}
        it = self.it
        self.loop = {'__cls__': 'tbox::event::Loop', '__open__': True}
        it._keep.append(self.loop)
        self.sch = it.new_record(N + 'Scheduler')
        it._keep.append(self.sch)
        ctor = [g for g in prog.by_name.get(N + 'Scheduler::Scheduler', ()) if g.d.get('ctor') and len(g.params) == 1 and g.body is not None]
        if len(ctor) != 1:
            raise AnalysisBroken('Scheduler(Loop*): %d candidate(s)' % len(ctor))
        it.run_ctor(ctor[0], ctor[0].stmts[0], self.sch, N + 'Scheduler', ctor[0], [it.ref(self.loop)])
        self.data = it.record_of(self.sch.get('d_'))
        if self.data is None:
            raise AnalysisBroken('Scheduler::d_ is not a record after construction')
        if not isinstance(self.data.get('main_ctx'), dict):
            self.data['main_ctx'] = {'__cls__': 'ucontext_t', '__open__': True}
        self.main_ctx = self.data['main_ctx']
        if not isinstance(self.data.get('ready_routines'), list):
            self.data['ready_routines'] = []

    # ---- memory, contexts, switches
    def h_abort(self, it, f, st, a):
        it.fault(f, st, 'an assertion of the library fails (abort)')
        raise minterp._Abort()

    def h_malloc(self, it, f, st, a):
        self.tmp += 1
        it.mem['stack#%d' % self.tmp] = [0]
        return P('stack#%d' % self.tmp, 0)

    def ctx_of(self, v):
        r = self.it.record_of(v)
        if r is None:
            raise AnalysisBroken('a context argument is not a record the replay holds')
        return r

    def h_getctx(self, it, f, st, a):
        r = self.ctx_of(a[0])
        if not isinstance(r.get('uc_stack'), dict):
            st_ = {'__cls__': 'stack_t', '__open__': True}
            it._keep.append(st_)
            r['uc_stack'] = st_
        return 0

    def h_make(self, it, f, st, a):
        r = self.ctx_of(a[0])
        r['entry_fn'], r['arg'] = a[1], (a[3] if len(a) > 3 else None)
        return None

    def h_swap(self, it, f, st, a):
        to = self.ctx_of(a[1])
        self.switches = getattr(self, 'switches', 0) + 1
        if self.switches > 3000:
            if not self.kill:
                it.fault(f, st, 'the scheduler keeps switching between contexts (more than 3000 switches for a handful of routines): the clean-up or the ready queue does not come to an end')
            raise minterp._Abort()
        saved = (it.this, getattr(it, '_depth', 0), it.cur_obj)
        if to is self.main_ctx:
            r = self.current
            if r is None:
                it.fault(f, st, 'a switch to the main context is made from the main context')
                raise minterp._Abort()
            self.main_sem.release()
            r['sem'].acquire()
            if self.kill:
                raise _Kill()
        else:
            if threading.current_thread() is not self.main_thread:
                it.fault(f, st, 'a routine switches directly into another routine')
                raise minterp._Abort()
            r = self.routines.get(id(to))
            if r is None:
                r = self.routines[id(to)] = {'thread': None, 'sem': threading.Semaphore(0), 'done': False, 'ctx': to}
            if r['done']:
                it.fault(f, st, 'the scheduler switches into a routine that has already returned')
                raise minterp._Abort()
            self.current = r
            if r['thread'] is None:
                r['thread'] = threading.Thread(target=self.body, args=(r, f, st), daemon=True)
                r['thread'].start()
            else:
                r['sem'].release()
            self.main_sem.acquire()
            self.current = None
            if self.error is not None:
                e, self.error = self.error, None
                raise e
        it.this, it._depth, it.cur_obj = saved
        return 0

    def body(self, r, f, st):
        it = self.it
        try:
            it._depth = 0
            it.invoke(f, st, r['ctx'].get('entry_fn'), [r['ctx'].get('arg')])
        except _Kill:
            pass
        except minterp._Abort:
            pass
        except BaseException as e:      # noqa: the main thread re-raises it
            self.error = e
        finally:
            r['done'] = True
            self.main_sem.release()     # uc_link: a routine that returns goes on in the main context

    def h_run_next(self, it, f, st, a):
        self.deferred.append(a[0])
        return 1

    # ---- the loop
    def idle(self, limit=200):
        """run the loop until nothing is deferred: the scheduler has run out of ready routines"""
        n = 0
        f0 = self.prog.fn1(N + 'Scheduler::schedule')
        while self.deferred and not self.it.faults:
            n += 1
            if n > limit:
                self.it.faults.append('the scheduler never runs out of ready routines (%d passes)' % limit)
                return
            fn = self.deferred.pop(0)
            self.it.invoke(f0, f0.stmts[0], fn, [])

    def call(self, rec, cls, name, args=(), pick=None):
        cands = [g for g in self.prog.by_name.get(cls + '::' + name, ()) if g.body is not None and len(g.params) == len(args) and (pick is None or pick(g))]
        if len(cands) != 1:
            raise AnalysisBroken('%s::%s/%d: %d candidate(s)' % (cls, name, len(args), len(cands)))
        return self.it.call(cands[0], list(args), this=rec)

    def make(self, cls, args):
        it = self.it
        rec = it.new_record(cls)
        it._keep.append(rec)
        ctor = [g for g in self.prog.by_name.get(cls + '::' + cls.split('::')[-1].split('<')[0], ()) if g.d.get('ctor') and len(g.params) == len(args) and g.body is not None]
        if len(ctor) != 1:
            raise AnalysisBroken('constructor of %s/%d: %d candidate(s)' % (cls, len(args), len(ctor)))
        it.run_ctor(ctor[0], ctor[0].stmts[0], rec, cls, ctor[0], list(args))
        return rec

    def create(self, name, script):
        """Scheduler::create with a body that runs the script"""
        def entry(sch_ref, name=name, script=script):
            try:
                for op in script:
                    ans = self.do(name, op)
                    self.trace.append((name, op, ans))
                    if ans is False and not name.startswith('S'):
                        return          # a blocking call that fails means: cancelled, terminate (routines named S.. are stubborn and go on calling)
            finally:
                if not self.kill:
                    self.finished.add(name)
        tok = self.call(self.sch, N + 'Scheduler', 'create', [entry, 1, P('str:empty', 0), 8192])
        self.names[name] = tok
        return tok

    def do(self, name, op):
        it = self.it
        k = op[0]
        self.blocked[name] = op
        try:
            if k == 'send':
                # with an overload for rvalues next to the one for lvalues, both are exercised (odd values as lvalues, even ones as rvalues)
                n_over = len([g for g in self.prog.by_name.get(N + 'Channel<int>::operator<<', ()) if g.body is not None and len(g.params) == 1])
                pick = None
                if n_over > 1:
                    want_rv = (op[2] % 2 == 0)
                    pick = lambda g: g.params[0]['t'].rstrip().endswith('&&') == want_rv
                self.call(op[1], N + 'Channel<int>', 'operator<<', [op[2]], pick=pick)
                return None
            if k == 'recv':
                self.tmp += 1
                cell = 'out#%d' % self.tmp
                it.mem[cell] = [None]
                ok = self.call(op[1], N + 'Channel<int>', 'operator>>', [('ref', P(cell, 0))])
                return ('got', it.mem[cell][0]) if ok else False
            if k in ('lock', 'acquire', 'bwait', 'cwait'):
                cls = {'lock': 'Mutex', 'acquire': 'Semaphore', 'bwait': 'Broadcast', 'cwait': 'Condition<int>'}[k]
                return bool(self.call(op[1], N + cls, {'lock': 'lock', 'acquire': 'acquire', 'bwait': 'wait', 'cwait': 'wait'}[k], []))
            if k in ('unlock', 'release', 'bpost'):
                cls = {'unlock': 'Mutex', 'release': 'Semaphore', 'bpost': 'Broadcast'}[k]
                self.call(op[1], N + cls, {'unlock': 'unlock', 'release': 'release', 'bpost': 'post'}[k], [])
                return None
            if k == 'cpost':
                self.call(op[1], N + 'Condition<int>', 'post', [op[2]])
                return None
            if k == 'yield':
                self.call(self.sch, N + 'Scheduler', 'yield', [])
                return None
            if k == 'join':
                ok = bool(self.call(self.sch, N + 'Scheduler', 'join', [self.names[op[1]]]))
                if ok and op[1] not in self.finished:
                    self.problem = self.problem or 'join(%s) returns success to %s although %s has not finished' % (op[1], name, op[1])
                return ok
            if k == 'cancel':
                self.call(self.sch, N + 'Scheduler', 'cancel', [self.names[op[1]]])
                return None
            raise AnalysisBroken('unknown script operation %s' % k)
        finally:
            self.blocked.pop(name, None)

    def finish(self):
        """Scheduler::cleanup, then make sure no thread of the model is left behind"""
        try:
            self.call(self.sch, N + 'Scheduler', 'cleanup', [])
        finally:
            self.kill = True
            for r in self.routines.values():
                if not r['done'] and r['thread'] is not None:
                    r['sem'].release()
            for r in self.routines.values():
                if r['thread'] is not None:
                    r['thread'].join(2.0)


# ---- scenarios ----------------------------------------------------------------------------------------------------------------------
# a scenario: primitives {'name': (kind, args...)} and routines [(name, [ops with primitive names])]

def scenarios(full):
    out = []
    perms = lambda names: list(itertools.permutations(names))
    Y = ('yield',)
    # channel: three values, four receptions asked for: one receiver stays suspended until the clean-up
    for p1 in ([('send', 'ch', 1), ('send', 'ch', 2)], [('send', 'ch', 1), Y, ('send', 'ch', 2)]):
        base = {'P1': p1, 'P2': [('send', 'ch', 3)], 'C1': [('recv', 'ch'), ('recv', 'ch')], 'C2': [('recv', 'ch'), ('recv', 'ch')]}
        for order in perms(['P1', 'P2', 'C1', 'C2']):
            out.append(({'ch': ('chan',)}, [(n, base[n]) for n in order]))
        for k in ('C1', 'C2'):
            b2 = dict(base)
            b2['K'] = [Y, ('cancel', k)]
            for order in (perms(['P1', 'P2', 'C1', 'C2', 'K']) if full else [('C1', 'C2', 'K', 'P1', 'P2'), ('C2', 'C1', 'P1', 'K', 'P2'), ('K', 'C1', 'C2', 'P2', 'P1'), ('C1', 'K', 'C2', 'P1', 'P2')]):
                out.append(({'ch': ('chan',)}, [(n, b2[n]) for n in order]))
    # a value sent while the receiver it was meant for is being cancelled must go to the next one
    out.append(({'ch': ('chan',)}, [('C1', [('recv', 'ch')]), ('C2', [('recv', 'ch')]), ('K', [('cancel', 'C1'), ('send', 'ch', 5)])]))
    out.append(({'ch': ('chan',)}, [('C1', [('recv', 'ch')]), ('C2', [('recv', 'ch')]), ('K', [('send', 'ch', 5), ('cancel', 'C1')])]))
    # a stubborn routine goes on calling after its cancellation: every further blocking call fails at once, it is never suspended again
    out.append(({'ch': ('chan',), 'm': ('mutex',), 's': ('sem', 0), 'b': ('bcast',)},
                [('H', [('lock', 'm')]), ('S1', [('recv', 'ch'), ('recv', 'ch'), ('lock', 'm'), ('acquire', 's'), ('bwait', 'b'), ('yield',), ('join', 'H')]), ('K', [('cancel', 'S1')])]))
    out.append(({'ch': ('chan',)}, [('S1', [('recv', 'ch'), ('yield',), ('recv', 'ch')]), ('K', [('yield',), ('cancel', 'S1')])]))
    # mutex
    base = {'W1': [('lock', 'm'), Y, ('unlock', 'm')], 'W2': [('lock', 'm'), Y, ('unlock', 'm')], 'W3': [('lock', 'm'), ('lock', 'm'), ('unlock', 'm')], 'H': [('lock', 'm')]}
    for order in perms(['W1', 'W2', 'W3']):
        out.append(({'m': ('mutex',)}, [(n, base[n]) for n in order]))
        out.append(({'m': ('mutex',)}, [(n, base[n]) for n in order] + [('H', base['H'])]))
        for k in ('W1', 'W2', 'W3'):
            out.append(({'m': ('mutex',)}, [(n, base[n]) for n in order] + [('K', [('cancel', k)])]))
            out.append(({'m': ('mutex',)}, [('K', [Y, ('cancel', k)])] + [(n, base[n]) for n in order]))
    out.append(({'m': ('mutex',)}, [('W1', base['W1']), ('W2', base['W2']), ('W3', base['W3']), ('K', [Y, ('cancel', 'W2'), ('cancel', 'W3')])]))
    # semaphore
    for init in (0, 1, 2):
        base = {'A1': [('acquire', 's')], 'A2': [('acquire', 's'), Y, ('release', 's')], 'A3': [('acquire', 's'), ('acquire', 's')], 'R': [('release', 's'), Y, ('release', 's')]}
        for order in perms(['A1', 'A2', 'A3', 'R']):
            out.append(({'s': ('sem', init)}, [(n, base[n]) for n in order]))
        for k in ('A1', 'A2', 'A3'):
            out.append(({'s': ('sem', init)}, [(n, base[n]) for n in ('A1', 'A2', 'A3')] + [('K', [('cancel', k), ('release', 's')])]))
            out.append(({'s': ('sem', init)}, [(n, base[n]) for n in ('A3', 'A2', 'A1')] + [('K', [('release', 's'), ('cancel', k)])]))
    # broadcast
    base = {'W1': [('bwait', 'b')], 'W2': [('bwait', 'b'), ('bwait', 'b')], 'Po': [('bpost', 'b')], 'L': [Y, Y, ('bwait', 'b')]}
    for order in perms(['W1', 'W2', 'Po', 'L']):
        out.append(({'b': ('bcast',)}, [(n, base[n]) for n in order]))
    out.append(({'b': ('bcast',)}, [('W1', base['W1']), ('W2', base['W2']), ('K', [('cancel', 'W1'), ('bpost', 'b')])]))
    # condition
    for logic in (0, 1):
        base = {'W': [('cadd', 'c', 1), ('cadd', 'c', 2), ('cwait', 'c')], 'P1': [('cpost', 'c', 1)], 'P2': [Y, ('cpost', 'c', 2)], 'P3': [('cpost', 'c', 9)]}
        for order in perms(['W', 'P1', 'P2', 'P3']):
            out.append(({'c': ('cond', logic)}, [(n, base[n]) for n in order]))
        out.append(({'c': ('cond', logic)}, [('W', base['W']), ('K', [('cancel', 'W')]), ('P1', base['P1']), ('P2', base['P2'])]))
        # a condition named twice is one condition
        out.append(({'c': ('cond', logic)}, [('W', [('cadd', 'c', 1), ('cadd', 'c', 2), ('cadd', 'c', 1), ('cwait', 'c')]), ('P1', base['P1']), ('P2', base['P2'])]))
        out.append(({'c': ('cond', logic)}, [('W', [('cadd', 'c', 2), ('cadd', 'c', 2), ('cwait', 'c')]), ('P2', base['P2']), ('P1', base['P1'])]))
    # join
    base = {'T': [Y, Y], 'J': [('join', 'T')], 'J2': [('join', 'T')], 'Q': [('join', 'J')]}
    for order in perms(['T', 'J', 'J2', 'Q']):
        if order.index('T') == 0 or full or order.index('T') < order.index('J'):
            out.append(({}, [(n, base[n]) for n in order]))
    out.append(({}, [('T', [('recv', 'ch')]), ('J', [('join', 'T')]), ('K', [Y, ('cancel', 'J')])]) if False else ({'ch': ('chan',)}, [('T', [('recv', 'ch')]), ('J', [('join', 'T')]), ('K', [Y, ('cancel', 'J')])]))
    out.append(({'ch': ('chan',)}, [('T', [('recv', 'ch')]), ('J', [('join', 'T')]), ('K', [Y, ('cancel', 'T')])]))
    # a second life: what a primitive remembers from before the clean-up (a token of a routine that no longer exists) must not name a routine of the second life
    for first in ([('W', [('bwait', 'b')])], [('W', [('bwait', 'b')]), ('W2', [('bwait', 'b')])]):
        for order in (['J', 'T', 'Po'], ['T', 'J', 'Po'], ['Po', 'J', 'T']):
            second = {'J': [('join', 'T')], 'T': [Y, Y, Y, Y], 'Po': [Y, ('bpost', 'b')]}
            out.append(({'b': ('bcast',)}, first, [(n, second[n]) for n in order]))
    out.append(({'ch': ('chan',), 'm': ('mutex',)}, [('H', [('lock', 'm'), ('recv', 'ch')]), ('W', [('lock', 'm')])],
                [('A', [('lock', 'm'), Y, ('unlock', 'm')]), ('B', [('lock', 'm'), ('unlock', 'm')])]))
    return out


def describe(sc):
    def op(o):
        return o[0] + ('(%s)' % ','.join(str(x) for x in o[1:]) if len(o) > 1 else '')
    prims = ', '.join('%s=%s%s' % (k, v[0], '(%s)' % v[1] if len(v) > 1 else '') for k, v in sc[0].items())
    return '[%s] %s' % (prims, '; '.join('%s: %s' % (n, ' '.join(op(o) for o in s_)) for n, s_ in sc[1])) + \
        (' || after cleanup(): ' + '; '.join('%s: %s' % (n, ' '.join(op(o) for o in s_)) for n, s_ in sc[2]) if len(sc) > 2 else '')


def run_scenario(prog, sc):
    """first problem as text, or None"""
    co = Co(prog)
    co.main_thread = threading.current_thread()
    it = co.it
    prims = {}
    for name, spec in sc[0].items():
        ref = it.ref(co.sch)
        if spec[0] == 'chan':
            prims[name] = co.make(N + 'Channel<int>', [ref])
        elif spec[0] == 'mutex':
            prims[name] = co.make(N + 'Mutex', [ref])
        elif spec[0] == 'sem':
            prims[name] = co.make(N + 'Semaphore', [ref, spec[1]])
        elif spec[0] == 'bcast':
            prims[name] = co.make(N + 'Broadcast', [ref])
        elif spec[0] == 'cond':
            prims[name] = co.make(N + 'Condition<int>', [ref, spec[1]])
            prims[name]['conds_'] = []          # a set is held as a sequence of distinct values; a sequence container is a sequence anyway
    pname = {id(v): k for k, v in prims.items()}
    owed = {}           # routine -> reason it must have been resumed by the next idle point
    cond_ref = {k: set() for k, v in sc[0].items() if v[0] == 'cond'}
    finished = co.finished
    cond_sat = {k: False for k in cond_ref}

    orig_do = co.do

    def do(name, op):
        k = op[0]
        if k == 'cadd':
            co.call(op[1], N + 'Condition<int>', 'add', [op[2]])
            cond_ref[pname[id(op[1])]].add(op[2])
            return None
        if k == 'bpost':
            for r, o in co.blocked.items():
                if o[0] == 'bwait' and o[1] is op[1] and r != name:
                    owed[r] = (o, 'was waiting on the broadcast when it was posted')
        if k == 'cpost':
            cn = pname[id(op[1])]
            logic = sc[0][cn][1]
            s_ = cond_ref[cn]
            if op[2] in s_:
                if logic == 0:
                    s_.discard(op[2])
                    sat = not s_
                else:
                    s_.clear()
                    sat = True
                if sat:
                    cond_sat[cn] = True
                    for r, o in co.blocked.items():
                        if o[0] == 'cwait' and o[1] is op[1]:
                            owed[r] = (o, 'was waiting on the condition when it became satisfied')
        ans = orig_do(name, op)
        owed.pop(name, None)
        if k == 'cwait':
            cn = pname[id(op[1])]
            if ans is True and not cond_sat[cn]:
                co.problem = co.problem or 'wait() on the condition returns success to %s before the condition is satisfied (%s still to be posted)' % (name, sorted(cond_ref[cn]))
            cond_sat[cn] = False
        return ans
    co.do = do
    try:
        tokens = {}
        for name, script in sc[1]:
            script2 = [tuple(prims.get(x, x) if isinstance(x, str) and x in prims else x for x in o) for o in script]

            def entry_done(name=name):
                finished.add(name)
            co.create(name, script2)
        co.idle()
        if it.faults:
            return it.faults[0]
        why = inspect(co, sc, prims, owed, finished)
        if why:
            return why
        if len(sc) > 2:
            # a second life of the same scheduler: clean up, then new routines on the primitives that are still around
            first = [n for n, s_ in sc[1]]
            co.call(co.sch, N + 'Scheduler', 'cleanup', [])
            if it.faults:
                return 'clean-up between two lives: %s' % it.faults[0]
            alive = [n for n in first if n not in finished]
            if alive:
                return 'routine(s) %s have not terminated after the clean-up of the scheduler' % alive
            co.blocked.clear()
            owed.clear()
            for name, script in sc[2]:
                script2 = [tuple(prims.get(x, x) if isinstance(x, str) and x in prims else x for x in o) for o in script]
                co.create(name, script2)
            co.idle()
            if it.faults:
                return 'second life: %s' % it.faults[0]
            why = co.problem or inspect(co, sc, prims, owed, finished)
            if why:
                return 'second life of the scheduler: %s' % why
        cancelled = [o[1] for n, s_ in sc[1] for o in s_ if o[0] == 'cancel' and any(t[0] == n and t[1][0] == 'cancel' and t[1][1] == o[1] for t in co.trace)]
        if co.problem:
            return co.problem
        for r in cancelled:
            if r not in finished:
                return 'routine %s was cancelled and has not terminated when the scheduler runs out of ready routines%s' % (
                    r, ': it is suspended in %s' % co.blocked[r][0] if r in co.blocked else '')
        still = dict(co.blocked)
        co.finish()
        if it.faults:
            return 'clean-up: %s' % it.faults[0]
        for r, o in still.items():
            if not any(t[0] == r and t[1] is o and t[2] is False for t in co.trace) and not any(t[0] == r and t[1][0] == o[0] and t[2] is False for t in co.trace):
                return 'routine %s was suspended in %s when the scheduler was cleaned up and the call did not return with failure' % (r, o[0])
        alive = [r for r in co.routines.values() if not r['done']]
        if alive:
            return '%d routine(s) have not terminated after the clean-up of the scheduler' % len(alive)
        return check_trace(co, sc, prims)
    finally:
        co.kill = True
        for r in co.routines.values():
            if not r['done'] and r['thread'] is not None:
                r['sem'].release()


def token_null(co, tok):
    r = co.it.record_of(tok) if not isinstance(tok, dict) else tok
    return bool(co.call(r, 'tbox::cabinet::Token', 'isNull', []))


def inspect(co, sc, prims, owed, finished):
    """the scheduler has run out of ready routines: nobody may be suspended on something that is available"""
    for r, o in co.blocked.items():
        k = o[0]
        if k == 'recv' and o[1].get('queue_'):
            return 'the scheduler has run out of ready routines and %s is suspended on a channel that holds %d value(s) (lost wake-up)' % (r, len(o[1]['queue_']))
        if k == 'lock' and token_null(co, o[1].get('hold_token_')):
            return 'the scheduler has run out of ready routines and %s is suspended on a mutex that is free (lost wake-up)' % r
        if k == 'acquire' and isinstance(o[1].get('count_'), int) and o[1]['count_'] > 0:
            return 'the scheduler has run out of ready routines and %s is suspended on a semaphore whose count is %d (lost wake-up)' % (r, o[1]['count_'])
        if k == 'join' and o[1] in finished:
            return 'the scheduler has run out of ready routines and %s is still suspended in join(%s), which has finished' % (r, o[1])
        if r in owed and owed[r][0] is o:
            return 'the scheduler has run out of ready routines and %s, which %s, has not been resumed (lost wake-up)' % (r, owed[r][1])
    return None


def check_trace(co, sc, prims):
    for name, spec in sc[0].items():
        p = prims[name]
        if spec[0] == 'chan':
            sent = [t[1][2] for t in co.trace if t[1][0] == 'send' and t[1][1] is p]
            got = [t[2][1] for t in co.trace if t[1][0] == 'recv' and t[1][1] is p and isinstance(t[2], tuple)]
            if got != sent[:len(got)]:
                return 'values %s were sent on the channel and %s were received: not each once, in order' % (sent, got)
            if len(got) < len(sent) and any(t[1][0] == 'recv' and t[1][1] is p and t[2] is False for t in co.trace) is False:
                pass
        if spec[0] == 'mutex':
            holder = None
            for r, o, ans in co.trace:
                if o[0] == 'lock' and o[1] is p and ans is True:
                    if holder not in (None, r):
                        return 'the mutex is granted to %s while %s holds it' % (r, holder)
                    holder = r
                elif o[0] == 'unlock' and o[1] is p and holder == r:
                    holder = None
        if spec[0] == 'sem':
            avail = spec[1]
            for r, o, ans in co.trace:
                if o[0] == 'release' and o[1] is p:
                    avail += 1
                elif o[0] == 'acquire' and o[1] is p and ans is True:
                    avail -= 1
                    if avail < 0:
                        return 'the semaphore grants more acquisitions than its initial count plus the releases so far (to %s)' % r
    return None


def r11(ctx, prog):
    import sys
    full = ctx.tier == 'thorough'
    scs = scenarios(full)
    ctx.rule('C18.R11', 'A10 the scheduler and its primitives replayed with real switches: %d systems of two to five routines (producers and consumers on a channel, contenders for a mutex '
             'with re-entry, acquirers and releasers of a semaphore with initial counts 0..2, waiters and a poster on a broadcast, an all- and an any-condition with matching and '
             'foreign posts, joiners, and a routine that cancels another one before or after the wake-up meant for it), in every creation order, are run on the syntax trees of '
             'Scheduler, Routine, the routine cabinet, Channel, Mutex, Semaphore, Condition and Broadcast; swapcontext() is a real switch between interpreter threads of which '
             'one runs at a time.  Whenever the scheduler has run out of ready routines: nobody is suspended on a channel that holds a value, a free mutex, a semaphore with a '
             'positive count or a finished join target, and everybody who was waiting when a broadcast was posted or a condition became satisfied has been resumed; a cancelled '
             'routine has returned from its blocking call; after cleanup() every suspended call has returned failure and every routine has terminated.  Over the whole run: values '
             'are received once, in the order sent; the mutex has one holder at a time; the semaphore never grants more than its initial count plus the releases' % len(scs), floor=1)
    if not any(g.name == N + 'Semaphore::acquire' for g in prog.funcs.values()):
        from tbxlint.facts import extract, instantiate_unit
        prog = extract(['coroutine/scheduler.cpp'], extra_units=[instantiate_unit()])
    old_stack = threading.stack_size()
    old_rec = sys.getrecursionlimit()
    threading.stack_size(256 * 1024 * 1024)
    sys.setrecursionlimit(max(old_rec, 20000))
    bad = None
    try:
        for sc in scs:
            why = run_scenario(prog, sc)
            if why is not None:
                bad = (sc, why)
                break
    finally:
        threading.stack_size(old_stack)
        sys.setrecursionlimit(old_rec)
    f = prog.fn1(N + 'Scheduler::switchToRoutine')
    ctx.ob('C18.R11', 'coroutine|replay', bad is None, '%d systems: no lost wake-up, no routine left behind, values in order' % len(scs) if bad is None else
           '%s: %s' % (describe(bad[0]), bad[1]), where=f.loc(f.body))
