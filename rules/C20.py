"""C20 — alarms (DESIGN §4 C20)."""
import glob
from tbxlint.facts import extract, AnalysisBroken, MODULES
from tbxlint import locks, q, ival, rd, absint

AL = 'tbox::alarm::Alarm'


def scope_units():
    return [p[len(MODULES) + 1:] for p in sorted(glob.glob(MODULES + '/alarm/*.cpp') + glob.glob(MODULES + '/alarm/3rd-party/*.cpp')) if not p.endswith('_test.cpp')]


def flows_from(f, sid, pred, depth=0, seen=None):
    """does the value of expression sid depend (through local initialisers/assignments) on a sub-expression satisfying pred?"""
    seen = seen if seen is not None else set()
    if depth > 6:
        return False
    for x in f.walk(sid):
        sx = f.stmts[x]
        if pred(f, sx):
            return True
        if sx['k'] == 'DeclRefExpr' and sx.get('dk') == 'Var' and sx.get('d') not in seen:
            seen.add(sx['d'])
            for d in rd.local_defs(f, sx['d']):
                if d['rhs'] is not None and flows_from(f, d['rhs'], pred, depth + 1, seen):
                    return True
    return False


def true_returns(f):
    """[(return stmt, flag decl or None, [(cond, k)] facts that hold when the return yields true)]: constant `return true`, or the return of a
    local flag with one definition (the flag is true exactly when its defining expression is)"""
    out = []
    for r in q.returns(f):
        c = q.return_const(f, r)
        if c == 1:
            out.append((r, None, []))
        elif c is None and r.get('val') is not None:
            x = f.s(f.strip_casts(r['val']))
            if x is not None and x['k'] == 'DeclRefExpr' and x.get('dk') == 'Var':
                defs = rd.local_defs(f, x['d'])
                if len(defs) == 1 and defs[0]['rhs'] is not None:
                    out.append((r, x['d'], [(defs[0]['rhs'], 0)]))
                else:
                    out.append((r, x['d'], []))
            elif x is not None:
                out.append((r, None, [(x['i'], 0)]))
    return out


def search_floor(f, start_expr):
    """the field F the start of the search can be taken from besides the clock value: std::max(now, F) in any argument order, or a local initialised from the clock
    value and set to F under some condition (a clamp `local < F`, or the window `F > now && F - now <= 1` that keeps the floor only for an instant that fired a moment
    early).  Which condition is right is behaviour, decided by the replay C20.R15; this finds the field.  Returns the qualified field name or None."""
    found = []
    def is_max(g, sx):
        if sx['k'] in q.CALL_KINDS and sx.get('callee', '').startswith('std::max') and len(sx.get('args', [])) == 2:
            for a in sx['args']:
                fq = g.field_of(a)
                if fq:
                    found.append(fq)
            return bool(found)
        return False
    if flows_from(f, start_expr, is_max) and found:
        return found[0]
    # conditional forms (looked for through the locals the start value is computed from): some definition or conditional expression takes the field, and the field is one
    # the function compares with something (the explicit time-zone offset also reaches the start value through a conditional, but is never compared)
    compared = set()
    for sx in f.stmts:
        if sx and sx['k'] == 'BinaryOperator' and sx.get('op') in ('<', '>', '<=', '>='):
            for c in sx['ch']:
                if f.field_of(c):
                    compared.add(f.field_of(c))
    seen, work = set(), [start_expr]
    while work:
        e = work.pop()
        for x in f.walk(e):
            sx = f.stmts[x]
            if sx['k'] == 'ConditionalOperator':
                for c in sx['ch'][1:]:
                    if f.field_of(c) in compared:
                        return f.field_of(c)
            if sx['k'] != 'DeclRefExpr' or sx.get('dk') != 'Var' or sx['d'] in seen:
                continue
            seen.add(sx['d'])
            for d in rd.local_defs(f, sx['d']):
                if d['rhs'] is not None and len(seen) < 12:
                    work.append(d['rhs'])
                if d['kind'] == '=' and d['rhs'] is not None and f.field_of(d['rhs']) in compared and d['point'] is not None:
                    if f.cfg.controlling_branches(d['point']):
                        return f.field_of(d['rhs'])
    return None


def r1(ctx, prog):
    ctx.rule('C20.R1', 'A10: the wait is never shortened by overflow: every unit conversion (x1000 / x60 / x3600) feeding the timer interval is computed in a '
                       'type that holds the product for the full range of its operand\'s type', floor=1)
    f = prog.fn1(AL + '::activeTimer')
    ini = [st for st in f.calls() if st.get('fn') == 'initialize' and 'obj' in st and (f.field_of(st['obj']) or '').endswith('sp_timer_ev_')]
    if not ini:
        raise AnalysisBroken('activeTimer: sp_timer_ev_->initialize not found')
    n = 0
    seen = set()

    def visit(sid, depth=0):
        nonlocal n
        if depth > 6:
            return
        for x in f.walk(sid):
            sx = f.stmts[x]
            if sx['k'] == 'BinaryOperator' and sx.get('op') == '*' and x not in seen:
                seen.add(x)
                a, b = sx['ch']
                ia = ival.interval(f, a, f.cfg.point_of(x))
                ib = ival.interval(f, b, f.cfg.point_of(x))
                if ia is None or ib is None:
                    continue
                consts = [v for v in (ia, ib) if v[0] == v[1]]
                if not consts or consts[0][0] not in (1000, 60, 3600, 1000000):
                    continue
                n += 1
                hi = ia[1] * ib[1]
                tr = ival.type_range(ival.ctype(sx))
                ok = tr is not None and hi <= tr[1]
                ctx.ob('C20.R1', '%s|x%d' % (f.name, consts[0][0]), ok,
                       'product up to %d fits %s' % (hi, ival.ctype(sx)) if ok else
                       'product up to %d does not fit %s: the millisecond wait wraps (after 49.7 days for seconds x 1000 in 32 bits) and the alarm fires early' % (hi, ival.ctype(sx)),
                       where=f.loc(x))
            if sx['k'] == 'DeclRefExpr' and sx.get('dk') == 'Var' and ('v', sx['d']) not in seen:
                seen.add(('v', sx['d']))
                for d in rd.local_defs(f, sx['d']):
                    if d['rhs'] is not None:
                        visit(d['rhs'], depth + 1)
    visit(ini[0]['args'][0])
    if n == 0:
        raise AnalysisBroken('activeTimer: no seconds->milliseconds conversion found in the timer interval')


def r2(ctx, prog):
    ctx.rule('C20.R2', 'A4 order + depends-on: the alarm re-arms (storing the new target) before the user callback; the start of the search for the next instant can be '
                       'taken from an instant the alarm keeps (not from the clock alone), so an early wake-up need not compute the instant just served again', floor=3)
    e = prog.fn1(AL + '::onTimeExpired')
    at = q.calls(e, callee=AL + '::activeTimer')
    inv = q.invokes(e, 'cb_')
    ctx.ob('C20.R2', '%s|rearm-before-callback' % e.name, bool(at) and bool(inv) and all(e.cfg.dominates(q.pt(e, at[0]), q.pt(e, i)) for i in inv),
           'activeTimer() dominates the user callback', where=e.loc(e.body))
    f = prog.fn1(AL + '::activeTimer')
    calc = [st for st in f.calls() if st.get('fn') == 'calculateNextLocalTimeSec']
    if not calc:
        raise AnalysisBroken('activeTimer: calculateNextLocalTimeSec call not found')
    ok = search_floor(f, calc[0]['args'][0]) is not None
    # and the other operand of max is the clock value read in this call
    clock = [st for st in f.calls() if 'GetCurrentUtcTime' in st.get('callee', '')]
    ctx.ob('C20.R2', '%s|start-from-max' % f.name, ok and bool(clock), 'the start of the next computation is the clock value or, under a condition on it, an instant kept by the alarm', where=f.loc(calc[0]['i']))
    st_t = [a for a, rhs in q.assigns(f, 'Alarm::target_utc_sec_')]
    en = [st for st in f.calls() if st.get('fn') == 'enable' and 'obj' in st and (f.field_of(st['obj']) or '').endswith('sp_timer_ev_')]
    ctx.ob('C20.R2', '%s|target-stored' % f.name, bool(st_t) and bool(en) and q.must_follow(f, q.pt(f, en[0]), q.pts(f, st_t)),
           'arming the timer is followed by storing the new target on every path', where=f.loc(f.body))


def r3(ctx, prog):
    ctx.rule('C20.R3', 'A4: time-zone symmetry: the offset added before the local computation is the same variable that is subtracted afterwards', floor=1)
    f = prog.fn1(AL + '::activeTimer')
    adds, subs = [], []
    for st in f.stmts:
        if st and st['k'] == 'BinaryOperator' and st.get('op') in ('+', '-'):
            for c in st['ch']:
                x = f.s(f.strip_casts(c))
                if x and x['k'] == 'DeclRefExpr' and 'timezone' in (x.get('n') or ''):
                    (adds if st['op'] == '+' else subs).append((x.get('d'), st))
    ok = len(adds) == 1 and len(subs) == 1 and adds[0][0] == subs[0][0] and f.path(subs[0][1]['ch'][1]) == f.path(adds[0][1]['ch'][1])
    calc = [st for st in f.calls() if st.get('fn') == 'calculateNextLocalTimeSec']
    ok = ok and bool(calc) and f.cfg.dominates(q.pt(f, adds[0][1]), q.pt(f, calc[0])) and f.cfg.dominates(q.pt(f, calc[0]), q.pt(f, subs[0][1]))
    ctx.ob('C20.R3', '%s|tz-symmetry' % f.name, ok, 'utc + offset -> local computation -> local - offset with one offset variable', where=f.loc(f.body))


def r4(ctx, prog):
    ctx.rule('C20.R4', 'A5 (small): state_ == kRunning exactly when the timer is armed: activeTimer arms and sets kRunning together; disable/refresh/expiry '
                       'leave kRunning with the timer disabled', floor=4)
    f = prog.fn1(AL + '::activeTimer')
    en = [st for st in f.calls() if st.get('fn') == 'enable' and 'obj' in st and (f.field_of(st['obj']) or '').endswith('sp_timer_ev_')]
    run = [a for a, rhs in q.assigns(f, 'Alarm::state_') if f.s(f.strip_casts(rhs)).get('n') == 'kRunning']
    ctx.ob('C20.R4', '%s|arm+running' % f.name, len(en) == 1 and len(run) == 1 and q.must_follow(f, q.pt(f, en[0]), q.pts(f, run)) and f.cfg.dominates(q.pt(f, en[0]), q.pt(f, run[0])),
           'timer enable and state_ = kRunning happen together', where=f.loc(f.body))
    # ... and every successful return of activeTimer has programmed the timer with the wait computed in this call (initialize + enable): an instant that "has not
    # changed" still has to be re-measured against the clock as it is now
    inits = [st for st in f.calls() if st.get('fn') == 'initialize' and 'obj' in st and (f.field_of(st['obj']) or '').endswith('sp_timer_ev_')]
    for r, flag, facts_ in true_returns(f):
        rp = q.pt_or_term(f, r)
        okp = bool(inits) and bool(en) and not f.cfg.exists_path(f.cfg.entry_point(), rp, avoid=q.pts(f, inits), src_inclusive=True) and \
            not f.cfg.exists_path(f.cfg.entry_point(), rp, avoid=q.pts(f, en), src_inclusive=True)
        ctx.ob('C20.R4', '%s|armed-on-success@%s' % (f.name, f.loc(r['i']).split(':')[-1]), okp, 'this successful return has re-programmed and enabled the timer' if okp else
               'activeTimer() reports success here without programming the timer in this call: the old interval keeps running although the clock reading it was computed from is '
               'no longer valid (after a clock step the alarm fires that much early or late)', where=f.loc(r['i']))
    for name in ('disable', 'refresh'):
        g = prog.fn1(AL + '::' + name)
        ini = [a for a, rhs in q.assigns(g, 'Alarm::state_') if g.s(g.strip_casts(rhs)).get('n') == 'kInited']
        dis = [st for st in g.calls() if st.get('fn') == 'disable' and 'obj' in st and (g.field_of(st['obj']) or '').endswith('sp_timer_ev_')]
        ok = bool(ini) and bool(dis) and all(q.must_follow(g, q.pt(g, a), q.pts(g, dis)) for a in ini)
        ctx.ob('C20.R4', '%s|leave-running' % g.name, ok, 'leaving kRunning is followed by sp_timer_ev_->disable() on every path', where=g.loc(g.body))
    c = prog.fn1(AL + '::cleanup')
    ctx.ob('C20.R4', '%s|disables' % c.name, bool(q.calls(c, callee=AL + '::disable')), 'cleanup() goes through disable()', where=c.loc(c.body))
    for e in prog.funcs.values():
        if e.short == 'onTimeExpired' and e.file.startswith(MODULES + '/alarm/'):
            ini = [a for a, rhs in q.assigns(e, 'Alarm::state_') if e.s(e.strip_casts(rhs)).get('n') == 'kInited']
            inv = q.invokes(e, 'cb_')
            ctx.ob('C20.R4', '%s|expiry-state' % e.name, bool(ini) and all(e.cfg.dominates(q.pt(e, ini[0]), q.pt(e, i)) for i in inv),
                   'the (one-shot) timer has fired: state_ leaves kRunning before anything else', where=e.loc(e.body))


def r5(ctx, prog):
    ctx.rule('C20.R5', 'A12: every calculateNextLocalTimeSec override writes its out-parameter on every `return true` path and only accepts instants strictly after the given time', floor=4)
    n = 0
    for f in prog.funcs.values():
        if f.short != 'calculateNextLocalTimeSec' or not f.file.startswith(MODULES + '/alarm/') or f.parent_func is not None:
            continue
        n += 1
        out = f.params[1]
        cur = f.params[0]
        ws = [st for st in f.stmts if st and st['k'] in ('BinaryOperator', 'CompoundAssignOperator') and st.get('op') in ('=', '+=') and
              f.s(f.strip_casts(st['ch'][0])).get('d') == out['d']]
        trues = true_returns(f)
        okw = bool(ws) and bool(trues)
        for r, flag, facts in trues:
            rp = q.pt_or_term(f, r)
            if not f.cfg.exists_path(f.cfg.entry_point(), rp, avoid=q.pts(f, ws)):
                continue
            # `return flag`: the write may sit behind `if (flag)` — then it has run whenever the flag is true
            behind = False
            if flag is not None:
                for w in ws:
                    for cond, k, b in f.cfg.controlling_branches(q.pt(f, w)):
                        t = q.simple_test(f, cond)
                        if t and t[0] == flag and (t[1] == 'nz') == (k == 0) and f.cfg.dominates(f.cfg.point_of(cond), rp):
                            behind = True
            okw = okw and behind
        ctx.ob('C20.R5', '%s|writes-out' % f.name, okw, 'out-parameter is assigned on every path to `return true`', where=f.loc(f.body))
        # strictly after: a comparison curr < next (or curr >= next handled by stepping) guards/precedes the true return
        strict = False
        why = ''
        # every `return true` is justified: an edge in force there says curr < candidate, or the test "curr >= candidate" is repaired by advancing the candidate
        # by a positive constant on every path from its true edge to the return
        just = []
        for r, flag, facts_ in true_returns(f):
            rp = q.pt_or_term(f, r)
            ok_r = False
            for cond, k, b in list(q.guards_incl_flags(f, rp)) + [(c_, k_, None) for c_, k_ in facts_]:
                for l, o, rr in q.edge_rels(f, cond, k):
                    if l == cur['n'] and rr == out['n'] and o == '<':
                        ok_r, why = True, 'an edge in force at the return says %s < %s' % (cur['n'], out['n'])
            if not ok_r:
                for blk in f.cfg.blocks.values():
                    if blk.cond is None or len(blk.succ) != 2:
                        continue
                    for k in (0, 1):
                        if any(l == cur['n'] and rr == out['n'] and o == '>=' for l, o, rr in q.edge_rels(f, blk.cond, k)) and blk.succ[k] is not None:
                            advs = [st for st in f.stmts if st and st['k'] == 'CompoundAssignOperator' and st.get('op') == '+=' and f.path(st['ch'][0]) == out['n'] and
                                    ((f.s(st['ch'][1]) or {}).get('cv') or 0) > 0]
                            start = (blk.succ[k], 0)
                            cp_ = f.cfg.point_of(blk.cond)
                            if advs and cp_ is not None and f.cfg.dominates(cp_, rp) and \
                                    not f.cfg.exists_path(start, rp, avoid=q.pts(f, advs), src_inclusive=True):
                                ok_r, why = True, 'where %s >= %s the candidate is advanced by a positive constant before the return' % (cur['n'], out['n'])
            just.append(ok_r)
        strict = bool(just) and all(just)
        if not strict and any('cron_next' in (c.get('callee') or '') for c in f.calls()):
            strict = True
            why = 'delegates to ccronexpr cron_next(), whose contract is "first instant after the given one"'
        ctx.ob('C20.R5', '%s|strictly-after' % f.name, strict, why or 'no comparison between the current time and the candidate instant', where=f.loc(f.body))
    if n < 4:
        raise AnalysisBroken('expected >=4 calculateNextLocalTimeSec overrides, found %d' % n)


def r7(ctx, prog):
    ctx.rule('C20.R7', 'A10 rounding direction ("the delay is never shorter than the distance"): in the timer interval of activeTimer every truncating step (integer division, '
             'duration_cast to a coarser unit) is applied to a subtracted term, never to the positive total — truncating the total makes the wait up to one unit too short; and '
             'A7: the calendar\'s refresh loops over watch_alarms_ reach nothing that erases from watch_alarms_', floor=2)
    f = prog.fn1(AL + '::activeTimer')
    ini = [st for st in f.calls() if st.get('fn') == 'initialize' and 'obj' in st and (f.field_of(st['obj']) or '').endswith('sp_timer_ev_')]
    if not ini:
        raise AnalysisBroken('activeTimer: sp_timer_ev_->initialize not found')
    found = []
    seen = set()

    def walk(e, pol, depth=0):
        x = f.s(f.strip_casts(e))
        if x is None or depth > 10:
            return
        if x['k'] == 'BinaryOperator' and x.get('op') in ('+', '-'):
            walk(x['ch'][0], pol, depth + 1)
            walk(x['ch'][1], pol if x['op'] == '+' else -pol, depth + 1)
        elif x['k'] == 'BinaryOperator' and x.get('op') == '/':
            found.append((x, pol, 'integer division'))
            walk(x['ch'][0], pol, depth + 1)
        elif x['k'] == 'BinaryOperator' and x.get('op') == '*':
            walk(x['ch'][0], pol, depth + 1)
            walk(x['ch'][1], pol, depth + 1)
        elif x['k'] in q.CALL_KINDS and 'duration_cast' in (x.get('callee') or ''):
            found.append((x, pol, 'duration_cast'))
            for a in x.get('args', ()):
                walk(a, pol, depth + 1)
        elif x['k'] in ('CXXConstructExpr', 'CXXTemporaryObjectExpr', 'CXXFunctionalCastExpr', 'MaterializeTemporaryExpr', 'CXXBindTemporaryExpr', 'ExprWithCleanups') or x['k'] in q.CALL_KINDS:
            for c in (x.get('args') or x.get('ch') or ()):
                walk(c, pol, depth + 1)
        elif x['k'] == 'DeclRefExpr' and x.get('dk') == 'Var' and x['d'] not in seen:
            seen.add(x['d'])
            for d in rd.local_defs(f, x['d']):
                if d['rhs'] is not None:
                    walk(d['rhs'], pol, depth + 1)
    walk(ini[0]['args'][0], 1)
    bad = [(x, why) for x, pol, why in found if pol > 0]
    ctx.ob('C20.R7', '%s|rounds-up' % f.name, not bad, 'truncating steps only under a minus sign (%d found): the wait is rounded up' % len(found) if not bad else
           'the wait is truncated by a %s applied to the positive total at %s: the timer can be armed up to one unit short of the wall-clock distance and fire before the instant'
           % (bad[0][1], f.loc(bad[0][0]['i'])), where=f.loc(bad[0][0]['i'] if bad else ini[0]['i']))
    from tbxlint import reent
    n = 0
    for g in prog.funcs.values():
        if not g.name.startswith('tbox::alarm::WorkdayCalendar::') or g.parent_usr:
            continue
        for l in reent.range_loops(g):
            if not (g.field_of(l['range']) or '').endswith('watch_alarms_'):
                continue
            n += 1
            hit = None
            for st in g.calls():
                if st['i'] in set(g.walk(l['body'])):
                    for t in reent.callee_funcs(prog, st):
                        r = reent.mutates_field(prog, t, 'watch_alarms_')
                        if r:
                            hit = '%s() -> %s' % (st.get('fn'), r)
            ctx.ob('C20.R7', '%s|live-iteration' % g.name, hit is None, 'the loop body cannot reach a mutation of watch_alarms_' if hit is None else
                   'the range-for over watch_alarms_ calls %s: an alarm that unsubscribes while the calendar refreshes its subscribers shifts the elements and the next '
                   'alarm is skipped (it keeps the old calendar\'s instant)' % hit, where=g.loc(l['i']))
    if n < 1:
        raise AnalysisBroken('no loop over the subscribed alarms of WorkdayCalendar found')       # (one shared helper or one loop per update function: both are fine)


# (function, days that must be offered strictly after "now"): one full cycle of the configuration's period
SCANS = {'tbox::alarm::WeeklyAlarm::calculateNextLocalTimeSec': (7, 'a week: every weekday of the mask'),
         'tbox::alarm::WorkdayAlarm::calculateNextLocalTimeSec': (366, 'a year of calendar days')}


def r6(ctx, prog):
    ctx.rule('C20.R6', 'A10 (interval abstract interpretation): the day scan offers a full cycle of strictly-future candidate days on every path: '
             'iterations (bound - largest start) minus the first day when it can already have passed >= the period, and the candidate advances one day per iteration', floor=2)
    for name, (need, what) in SCANS.items():
        f = prog.fn1(name)
        it = absint.Interp(f).run()
        cur, out = f.params[0], f.params[1]
        loops = [st for st in f.stmts if st and st['k'] == 'ForStmt' and st.get('cond') is not None]
        if len(loops) != 1:
            raise AnalysisBroken('%s: expected one scan loop, found %d' % (name, len(loops)))
        lp = loops[0]
        cs = f.s(f.strip_casts(lp['cond']))
        if not (cs and cs['k'] == 'BinaryOperator' and cs.get('op') in ('<', '<=')):
            raise AnalysisBroken('%s: scan loop condition is not `i < N`' % name)
        iv_d = f.s(f.strip_casts(cs['ch'][0]))
        bound = it.arith(it.at(lp['cond']) or {}, cs['ch'][1])
        if not (iv_d and iv_d['k'] == 'DeclRefExpr' and bound and bound[0] == bound[1]):
            raise AnalysisBroken('%s: scan loop counter/bound not recognised' % name)
        upper = bound[0] + (1 if cs['op'] == '<=' else 0)
        # value of the counter when the loop is entered: state on the edge into the loop head that is not the back edge
        init = None
        for st in f.stmts:
            if st and st['k'] == 'DeclStmt' and any(d.get('d') == iv_d['d'] for d in st['decls']):
                d = [d for d in st['decls'] if d.get('d') == iv_d['d']][0]
                env = it.at(st['i'])
                init = it.arith(env or {}, d['init']) if d.get('init') is not None else None
        if init is None:
            raise AnalysisBroken('%s: scan loop counter has no initialiser' % name)
        # can the first offered day be rejected because its time already passed?  (the curr < candidate test sits inside the loop)
        body = set(f.walk(lp['body']))
        in_loop_test = any(st and st['i'] in body and st['k'] == 'BinaryOperator' and st.get('op') in ('<', '>', '<=', '>=') and
                           {f.s(f.strip_casts(c)).get('d') for c in st['ch']} == {cur['d'], out['d']} for st in f.stmts)
        offered = upper - init[1] - (1 if in_loop_test and init[0] == 0 else 0)
        ctx.ob('C20.R6', '%s|full-cycle' % name, offered >= need,
               'scan offers >= %d strictly-future days (bound %d, start in [%d, %d]%s); needed %d = %s' % (offered, upper, init[0], init[1], ', first may have passed' if in_loop_test else '', need, what)
               if offered >= need else
               'scan offers only %d strictly-future days on some path (bound %d, start up to %d%s) but the configuration\'s period needs %d (%s): a matching day exists that is never '
               'examined and the alarm reports "no next instant"' % (offered, upper, init[1], ', first may have passed' if in_loop_test else '', need, what), where=f.loc(lp['i']))
        # the candidate moves forward exactly one day per iteration
        steps = [st for st in f.stmts if st and st['i'] in body and st['k'] == 'CompoundAssignOperator' and st.get('op') == '+=' and f.s(f.strip_casts(st['ch'][0])).get('d') == out['d']]
        okstep = len(steps) == 1 and (it.arith({}, steps[0]['ch'][1]) == (86400, 86400)) and f.cfg.postdominates(q.pt(f, steps[0]), f.cfg.point_of(lp['cond'])) is not None
        ctx.ob('C20.R6', '%s|day-step' % name, okstep, 'the candidate advances by 86400 s once per rejected day', where=f.loc(steps[0]['i'] if steps else lp['i']))


def r8(ctx, prog):
    ctx.rule('C20.R8', 'A5 the search floor is a fired instant: the field F that the start of the search for the next instant can be taken from instead of the clock value only ever holds an instant that '
             'has already fired — either F is written (non-zero) only in the expiry handlers, from the armed target, before re-arming; or, where F is written when the '
             'timer is armed, every method that cancels the armed timer without firing (sp_timer_ev_->disable()) also clears F. Otherwise enable() after disable() '
             'searches strictly after an instant that never fired and skips it', floor=2)
    f = prog.fn1(AL + '::activeTimer')
    calc = [st for st in f.calls() if st.get('fn') == 'calculateNextLocalTimeSec']
    if not calc:
        raise AnalysisBroken('activeTimer: calculateNextLocalTimeSec call not found')
    F = search_floor(f, calc[0]['args'][0])
    if F is None:
        raise AnalysisBroken('activeTimer: the start of the search is never taken from a field of the alarm')
    short = F.split('::')[-1]
    fam = [AL] + prog.derived_classes(AL)
    methods = [g for c in fam for g in prog.methods_of(c)]
    handlers = [g for g in methods if g.short == 'onTimeExpired']
    armed = {a['i'] for a, rhs in q.assigns(f, 'Alarm::' + short)}
    nonzero, zero = [], []
    for g in methods:
        for a, rhs in q.assigns(g, 'Alarm::' + short):
            (zero if (g.s(rhs) or {}).get('cv') == 0 else nonzero).append((g, a, rhs))
    if not nonzero:
        raise AnalysisBroken('no assignment of an instant to %s found' % short)
    outside = [(g, a) for g, a, rhs in nonzero if g not in handlers]
    if not outside:
        # F is written at fire time only: each handler records the armed target before it re-arms / calls the user
        armed_fields = set()
        for st in f.stmts:
            if st and st['k'] == 'BinaryOperator' and st.get('op') == '=' and f.field_of(st['ch'][0]):
                armed_fields.add(f.field_of(st['ch'][0]))
        for h in handlers:
            mine = [(a, rhs) for g, a, rhs in nonzero if g is h]
            acts = [c for c in h.calls() if c.get('fn') == 'activeTimer'] + q.invokes(h, 'cb_')
            ok = bool(mine) and all(h.field_of(rhs) in armed_fields for a, rhs in mine) and \
                all(any(h.cfg.dominates(q.pt_or_term(h, a), q.pt(h, c)) for a, rhs in mine) for c in acts)
            ctx.ob('C20.R8', '%s|records-fired' % h.name, ok, '%s takes the armed target at fire time, before re-arming and before the user callback' % short if ok else
                   'the expiry handler does not record the fired instant in %s (from the armed target) before it re-arms or calls the user: an early wake-up followed by '
                   'enable()/refresh() from the callback computes the same instant again' % short, where=h.loc(h.body))
        if len(handlers) < 2:
            raise AnalysisBroken('expected the base expiry handler and the one-shot override, found %d' % len(handlers))
        return
    # F is written while arming: every cancellation must clear it
    n = 0
    for g in methods:
        cancels = [c for c in g.calls() if c.get('fn') == 'disable' and c.get('obj') is not None and (g.field_of(c['obj']) or '').endswith('sp_timer_ev_')]
        if g in handlers or g is f:
            continue
        for c in cancels:
            n += 1
            zs = [q.pt_or_term(g, a) for g2, a, rhs in zero if g2 is g]
            cp = q.pt(g, c)
            ok = bool(zs) and (q.must_follow(g, cp, zs) or any(g.cfg.dominates(z, cp) for z in zs))
            ctx.ob('C20.R8', '%s|cancel-clears-floor' % g.name, ok, 'cancelling the armed timer clears %s' % short if ok else
                   '%s() cancels the armed timer but leaves %s holding the instant that was armed and never fired (it is written in activeTimer at %s); the next enable() '
                   'starts the search at max(now, %s) and, the result having to be strictly later, skips that instant — an alarm disabled and re-enabled before its time '
                   'fires a whole period late' % (g.short, short, f.loc(outside[0][1]['i']), short), where=g.loc(c['i']))
    if n < 2:
        raise AnalysisBroken('expected >= 2 methods cancelling the armed timer, found %d' % n)


def r9(ctx, prog):
    ctx.rule('C20.R9', 'A9d sentinel discipline: where a calculateNextLocalTimeSec override takes the instant from a function that reports "no instant" by returning a '
             'negative constant (ccronexpr\'s cron_next: (time_t)-1), the value is compared with that constant (or tested < 0) and the failing edge does not return '
             'true — an unmatched configuration is refused like in the sibling alarms, not armed for epoch second 2^32-1', floor=1)
    n = 0
    for f in prog.funcs.values():
        if f.short != 'calculateNextLocalTimeSec' or not f.file.startswith(MODULES + '/alarm/') or f.parent_func is not None:
            continue
        for c in f.calls():
            sent = set()
            for g in prog.by_usr.get(c.get('usr'), ()):
                for r in q.returns(g):
                    v = (g.s(r['ch'][0]) or {}).get('cv') if r.get('ch') else None
                    if v is not None and v < 0:
                        sent.add(v)
            if not sent:
                continue
            n += 1
            # the value: the call itself in a condition, or the local/out-parameter it is assigned to
            holder = None
            par = f.s(f.parent.get(c['i']))
            while par is not None and par['k'] in ('ImplicitCastExpr', 'CStyleCastExpr', 'CXXStaticCastExpr', 'ParenExpr', 'ExprWithCleanups'):
                par = f.s(f.parent.get(par['i']))
            if par is not None and par['k'] == 'BinaryOperator' and par.get('op') == '=':
                holder = ('expr', f.path(par['ch'][0]))
            elif par is not None and par['k'] in ('DeclStmt', 'VarDecl'):
                holder = ('var', None)
            for st in f.stmts:
                if st and st['k'] == 'DeclStmt':
                    for d in st['decls']:
                        if 'init' in d and c['i'] in set(f.walk(d['init'])):
                            holder = ('expr', d['n'])
            trues = true_returns(f)
            bad = []
            for r, flag, facts in trues:
                rp = q.pt_or_term(f, r)
                ok = False
                for cond, k, b in list(q.guards_incl_flags(f, rp)) + [(c_, k_, None) for c_, k_ in facts]:
                    rel = q.edge_relation(f, cond, k)
                    if not rel:
                        continue
                    for l, o, rr in ((rel[0], rel[1], rel[2]), (rel[2], q._SWAP[rel[1]], rel[0])):
                        names_value = (holder and holder[1] and l == holder[1]) or (c['i'] in set(f.walk(cond)))
                        cv = None
                        for x in f.walk(cond):
                            if f.stmts[x].get('cv') is not None and f.stmts[x]['cv'] in sent | {0}:
                                cv = f.stmts[x]['cv']
                        if names_value and cv is not None and ((cv in sent and o == '!=') or (cv == 0 and o in ('>=', '>'))):
                            ok = True
                if not ok:
                    bad.append(r)
            ctx.ob('C20.R9', '%s|%s-sentinel' % (f.name, c.get('fn')), not bad, 'every `return true` lies behind a test of the result against the "no instant" value' if not bad else
                   '%s() returns %s when no instant matches, and %s returns true at %s without testing for it: the alarm is armed for epoch second 4294967295 minus the '
                   'zone offset instead of refusing (enable() == true for "0 0 0 30 2 *")' % (c.get('fn'), sorted(sent), f.short, f.loc(bad[0]['i'])), where=f.loc(c['i']))
    if n < 1:
        raise AnalysisBroken('no sentinel-returning callee found in the calculateNextLocalTimeSec overrides (cron_next body not in the program?)')


def r10(ctx, prog):
    ctx.rule('C20.R10', 'A6 who-may-arm ("a disabled alarm never fires"): activeTimer() is called only by enable() (behind state_ == kInited), by the expiry handlers '
             '(the timer fired, so the alarm was running) and by methods that have just established state_ == kRunning on the way — nothing re-arms an alarm that '
             'is not running', floor=3)
    fam = [AL] + prog.derived_classes(AL)
    n = 0
    for c in fam:
        for g in prog.methods_of(c):
            for call in g.calls():
                if call.get('fn') != 'activeTimer':
                    continue
                n += 1
                if g.short == 'onTimeExpired':
                    ctx.ob('C20.R10', '%s|arm' % g.name, True, 'expiry handler: the timer fired, the alarm was running', where=g.loc(call['i']))
                    continue
                want = 'kInited' if g.short == 'enable' else 'kRunning'
                ok = False
                for cond, k, b in q.guards_incl_flags(g, q.pt(g, call)):
                    for l, o, r in q.edge_rels(g, cond, k):
                        if l.endswith('state_') and o == '==' and r.endswith(want):
                            ok = True
                ctx.ob('C20.R10', '%s|arm' % g.name, ok, 'arms only behind state_ == %s' % want if ok else
                       '%s() calls activeTimer() without having established state_ == %s: it arms an alarm that is not running — a disabled (or never enabled, or '
                       'already fired one-shot) alarm fires after this call' % (g.short, want), where=g.loc(call['i']))
    if n < 3:
        raise AnalysisBroken('expected >= 3 call sites of activeTimer(), found %d' % n)


def r11(ctx, prog):
    ctx.rule('C20.R11', 'A4 depends-on ("for any explicit time-zone offset"): whether the explicit offset or the system zone is used is decided by a flag that setTimezone() '
             'sets to a constant, never by the value of the offset — 0 is a legal explicit offset (UTC)', floor=1)
    f = prog.fn1(AL + '::activeTimer')
    st_ = prog.fn1(AL + '::setTimezone')
    par = {p_['d'] for p_ in st_.params}
    # fields written from the parameter (the offset) and fields written with a constant (the flag)
    from_param, const_set = set(), set()
    for st in st_.stmts:
        if st and st['k'] == 'BinaryOperator' and st.get('op') == '=' and st_.field_of(st['ch'][0]):
            fq = st_.field_of(st['ch'][0])
            if any(st_.stmts[x]['k'] == 'DeclRefExpr' and st_.stmts[x].get('d') in par for x in st_.walk(st['ch'][1])):
                from_param.add(fq)
            elif (st_.s(st['ch'][1]) or {}).get('cv') is not None or (st_.s(st_.strip_casts(st['ch'][1])) or {}).get('k') == 'CXXBoolLiteralExpr':
                const_set.add(fq)
    if not from_param:
        raise AnalysisBroken('setTimezone: the offset field is not assigned from the parameter')
    # the selection: a conditional (or if) in activeTimer one arm of which reads the offset field and the other calls the system-zone helper
    sel = []
    for st in f.stmts:
        if st and st['k'] in ('ConditionalOperator', 'IfStmt'):
            sub = set(f.walk(st['i']))
            reads = any(f.stmts[x]['k'] == 'MemberExpr' and f.stmts[x].get('q') in from_param for x in sub if x not in set(f.walk(st['ch'][0])))
            sysz = any(f.stmts[x]['k'] in q.CALL_KINDS and 'GetSystemTimezoneOffsetSeconds' in (f.stmts[x].get('callee') or '') for x in sub)
            if reads and sysz:
                sel.append(st)
    if not sel:
        raise AnalysisBroken('activeTimer: the choice between the explicit offset and the system zone was not found')
    for st in sel:
        cond = st['ch'][0] if st['k'] == 'ConditionalOperator' else st.get('cond', st['ch'][0])
        cf = {f.stmts[x].get('q') for x in f.walk(cond) if f.stmts[x]['k'] == 'MemberExpr' and f.stmts[x].get('mk') == 'field'}
        bad = cf & from_param
        ok = bool(cf) and not bad and cf <= const_set
        ctx.ob('C20.R11', '%s|zone-selection' % f.name, ok, 'the selection tests %s, which setTimezone() sets to a constant' % sorted(x.split('::')[-1] for x in cf) if ok else
               ('the selection tests the offset itself (%s): setTimezone(0) — an explicit UTC — is indistinguishable from "never set" and the alarm follows the system zone'
                % sorted(x.split('::')[-1] for x in bad)) if bad else
               'the selection tests %s, which setTimezone() does not set to a constant' % sorted(x.split('::')[-1] for x in cf), where=f.loc(st['i']))


def r12(ctx, prog):
    ctx.rule('C20.R12', 'A10 configuration and alignment by folding: every alarm kind accepts exactly the seconds-of-day 0..86399; WeeklyAlarm::initialize turns the 7-character '
             'mask into bit i for character i == \'1\', i = 0..6, each once; in the day scans the weekday / day index of the first iteration is today\'s (the candidate instant '
             'starts at today, so the loop variable must start at 0); the clock read is taken as successful exactly when gettimeofday() returns 0', floor=7)
    n = 0
    SOD = 86400
    for f in prog.funcs.values():
        if f.short != 'initialize' or not f.file.startswith(MODULES + '/alarm/') or f.parent_usr:
            continue
        par = [p_ for p_ in f.params if p_['n'] == 'seconds_of_day']
        if not par:
            continue
        # the rejecting test: an `if` over seconds_of_day alone (global constants aside) whose then-branch returns false
        locs = lambda e: {f.stmts[x].get('n') for x in f.walk(e) if f.stmts[x]['k'] == 'DeclRefExpr' and f.stmts[x].get('dk') in ('ParmVar', 'Var') and not f.stmts[x].get('gl')}
        ifs = [st for st in f.stmts if st and st['k'] == 'IfStmt' and st.get('cond') is not None and locs(st['cond']) == {'seconds_of_day'} and
               any(q.return_const(f, r) == 0 and r['i'] in set(f.walk(st['i'])) for r in q.returns(f))]
        if not ifs:
            ctx.ob('C20.R12', '%s|seconds-of-day' % f.name, False, 'no range check of seconds_of_day', where=f.loc(f.body))
            continue
        n += 1
        bad = []
        for v in (-1, 0, 1, SOD - 1, SOD, SOD + 1):
            x = q.eval_expr(f, ifs[0]['cond'], lambda sx, v=v: v if (sx['k'] == 'DeclRefExpr' and sx.get('n') == 'seconds_of_day') else None, signed=True)
            if x is None or bool(x) != (v < 0 or v >= SOD):
                bad.append(v)
        ctx.ob('C20.R12', '%s|seconds-of-day' % f.name, not bad, 'accepts exactly 0..86399' if not bad else
               'seconds_of_day == %d is %s' % (bad[0], 'refused (a legal time of day)' if 0 <= bad[0] < SOD else 'accepted (not a time of day)'), where=f.loc(f.body))
    # weekly mask
    wi = prog.fn1('tbox::alarm::WeeklyAlarm::initialize')
    loops = [st for st in wi.stmts if st and st['k'] == 'ForStmt' and st.get('cond') is not None]
    ors = [st for st in wi.stmts if st and st['k'] == 'CompoundAssignOperator' and st.get('op') == '|=' and (wi.field_of(st['ch'][0]) or '').endswith('week_mask_')]
    if len(loops) != 1 or len(ors) != 1:
        # the mask is not built by a loop of `|=` (std::bitset, a table, ...): which bit a character sets is then decided by the replay C20.R14 alone, which runs
        # initialize() itself on masks that are not palindromes
        pass
    else:
        lp = loops[0]
        consts = [wi.stmts[x] for x in wi.walk(lp['cond']) if wi.stmts[x].get('cv') is not None and wi.stmts[x]['k'] != 'BinaryOperator']
        tr = q.loop_trips(wi, lp, lambda sx: bool(consts) and sx['i'] == consts[0]['i'], counts=[7])
        ivn = None
        for x in wi.walk(lp['init']):
            if wi.stmts[x]['k'] == 'DeclStmt':
                ivn = wi.stmts[x]['decls'][0]['n']
        okl = tr is not None and tr.get(7) == (7, 0)
        bits = [q.eval_expr(wi, ors[0]['ch'][1], lambda sx, i=i: i if (sx['k'] == 'DeclRefExpr' and sx.get('n') == ivn) else None) for i in range(7)]
        okb = bits == [1 << i for i in range(7)]
        one = False
        for c, k, b in wi.cfg.controlling_branches(q.pt_or_term(wi, ors[0])):
            cs = wi.s(wi.strip_casts(c))
            if cs and cs['k'] == 'BinaryOperator' and cs.get('op') == '==' and k == 0 and any((wi.s(x) or {}).get('cv') == ord('1') or (wi.s(wi.strip_casts(x)) or {}).get('v') == ord('1') for x in cs['ch']):
                one = True
        n += 1
        ctx.ob('C20.R12', '%s|mask' % wi.name, okl and okb and one, 'characters 0..6, bit i for \'1\' at position i' if okl and okb and one else
               'the weekday mask is not built as bit i <- (mask[i] == \'1\') for i = 0..6 (%s): a configured weekday is dropped or a wrong one set' %
               ('loop runs %s' % (tr.get(7),) if not okl else ('bits %s' % bits if not okb else 'the character compared is not \'1\'')), where=wi.loc(lp['i']))
    # alignment of the day scans
    for name, cnt in (('tbox::alarm::WeeklyAlarm::calculateNextLocalTimeSec', None), ('tbox::alarm::WorkdayAlarm::calculateNextLocalTimeSec', None)):
        g = prog.fn1(name)
        lps = [st for st in g.stmts if st and st['k'] == 'ForStmt' and st.get('init') is not None]
        if len(lps) != 1:
            raise AnalysisBroken('%s: day scan not found' % name)
        # the day index the scan starts with equals the number of days the candidate instant was advanced before the loop, on every way into the loop
        iv = None
        for x in g.walk(lps[0]['init']):
            if g.stmts[x]['k'] == 'DeclStmt' and 'init' in g.stmts[x]['decls'][0]:
                iv = g.stmts[x]['decls'][0]
        adv = [st for st in g.stmts if st and st['k'] == 'CompoundAssignOperator' and st.get('op') == '+=' and g.path(st['ch'][0]) == g.params[1]['n'] and
               (g.s(st['ch'][1]) or {}).get('cv') == 86400 and st['i'] not in set(g.walk(lps[0]['i']))]
        lp_pt = g.cfg.point_of(lps[0]['cond']) if lps[0].get('cond') is not None else None

        def advances_with(def_point):
            """pre-loop advances of the candidate that execute exactly when the definition at def_point does (same controlling edges)"""
            key = lambda p_: sorted((c, k) for c, k, b in g.cfg.controlling_branches(p_))
            return [a for a in adv if def_point is not None and key(q.pt(g, a)) == key(def_point)]
        okal, why = False, 'loop start not understood'
        if iv is not None:
            s0 = g.s(g.strip_casts(iv['init']))
            if s0 is not None and s0.get('cv') is not None or (g.s(iv['init']) or {}).get('cv') is not None:
                c0 = (g.s(iv['init']) or {}).get('cv')
                uncond = [a for a in adv if lp_pt is not None and g.cfg.dominates(q.pt(g, a), lp_pt)]
                okal = c0 == len(uncond) and len(adv) == len(uncond)
                why = 'the scan starts at day offset %s, the candidate was advanced %d day(s) before the loop' % (c0, len(uncond))
            elif s0 is not None and s0['k'] == 'DeclRefExpr' and s0.get('dk') == 'Var':
                defs = rd.local_defs(g, s0['d'])
                okal = bool(defs)
                for d in defs:
                    v = (g.s(d['rhs']) or {}).get('cv') if d['rhs'] is not None else None
                    if d['kind'] not in ('init', '=') or v is None:
                        okal = False
                        continue
                    if v == 0:
                        continue
                    if len(advances_with(d['point'])) != v:
                        okal = False
                # every pre-loop advance is accounted for by a definition of the start variable
                for a in adv:
                    if not any(d['point'] is not None and a in advances_with(d['point']) for d in defs):
                        okal = False
                why = 'the start offset %s is set together with the matching advance of the candidate' % s0.get('n')
        n += 1
        ctx.ob('C20.R12', '%s|scan-aligned' % g.name, okal, why if okal else
               'the day index the scan starts with does not match how far the candidate instant was advanced before the loop (%s): every candidate is judged by the calendar '
               'entry of a different day' % why, where=g.loc(lps[0]['i']))
    # clock read
    for g in prog.fn(AL + '::GetCurrentUtcTime'):
        for blk in g.cfg.blocks.values():
            if blk.cond is not None and any(c.get('callee') == 'gettimeofday' for c in q.subtree_calls(g, blk.cond)):
                vec = [q.eval_expr(g, blk.cond, lambda sx, v=v: v if (sx['k'] in q.CALL_KINDS and sx.get('callee') == 'gettimeofday') else None, signed=True) for v in (-1, 0)]
                n += 1
                ok = None not in vec and [bool(x) for x in vec] in ([False, True], [True, False])
                ctx.ob('C20.R12', '%s|clock-ok@%s' % (g.short, g.loc(blk.cond).split(':')[-1]), ok, 'the read is taken as good exactly on a return of 0' if ok else
                       'gettimeofday()\'s result is not tested against 0: the clock is never (or always) taken as read', where=g.loc(blk.cond))
    if n < 7:
        raise AnalysisBroken('expected >= 7 configuration/alignment tests in the alarm module, found %d' % n)


def r13(ctx, prog):
    ctx.rule('C20.R13', 'A4 depends-on: the wait is the distance from the clock reading to the chosen instant — the seconds/microseconds subtracted in the interval computation are the '
             'values GetCurrentUtcTime() filled in this call and nothing has assigned them since (an adjusted "now" used for the search floor must live in its own variable)', floor=1)
    f = prog.fn1(AL + '::activeTimer')
    clk = [c for c in f.calls() if 'GetCurrentUtcTime' in (c.get('callee') or '')]
    if not clk:
        raise AnalysisBroken('activeTimer: clock read not found')
    outs = {}
    for a in clk[0].get('args', []):
        x = f.s(f.strip_casts(a))
        if x is not None and x['k'] == 'DeclRefExpr':
            outs[x['d']] = x['n']
    ini = [st for st in f.calls() if st.get('fn') == 'initialize' and 'obj' in st and (f.field_of(st['obj']) or '').endswith('sp_timer_ev_')]
    if not ini or not outs:
        raise AnalysisBroken('activeTimer: timer programming / clock out-parameters not found')
    # clock variables the interval depends on
    used = set()
    def deps(e, depth=0):
        for x in f.walk(e):
            sx = f.stmts[x]
            if sx['k'] == 'DeclRefExpr' and sx.get('dk') == 'Var':
                if sx['d'] in outs:
                    used.add(sx['d'])
                elif depth < 6:
                    for d in rd.local_defs(f, sx['d']):
                        if d['rhs'] is not None:
                            deps(d['rhs'], depth + 1)
    deps(ini[0]['args'][0])
    bad = []
    for d_ in used:
        for df in rd.local_defs(f, d_):
            if df['kind'] in ('=', '+=', '-=', '++', '--'):
                bad.append((outs[d_], f.loc(df['sid'])))
    ctx.ob('C20.R13', '%s|wait-from-clock' % f.name, bool(used) and not bad, 'the interval is computed from the clock values as read (%s)' % sorted(outs[d_] for d_ in used) if used and not bad else
           ('the clock value %s that the interval is measured from is reassigned at %s: after an early wake-up the wait is measured from the adjusted value and comes out too short'
            % bad[0]) if bad else 'the interval does not depend on the clock reading', where=f.loc(ini[0]['i']))


def run(ctx):
    prog = extract('ALL' if ctx.tier == 'thorough' else scope_units())
    ctx.guard(r1, ctx, prog)
    ctx.guard(r2, ctx, prog)
    ctx.guard(r3, ctx, prog)
    ctx.guard(r4, ctx, prog)
    ctx.guard(r5, ctx, prog)
    ctx.guard(r6, ctx, prog)
    ctx.guard(r7, ctx, prog)
    ctx.guard(r8, ctx, prog)
    ctx.guard(r9, ctx, prog)
    ctx.guard(r10, ctx, prog)
    ctx.guard(r11, ctx, prog)
    ctx.guard(r12, ctx, prog)
    ctx.guard(r13, ctx, prog)
    from rules import C20_replay
    ctx.guard(C20_replay.r14, ctx, prog)
    from rules import C20_life
    ctx.guard(C20_life.r15, ctx, prog)
    ctx.guard(C20_life.r16, ctx, prog)
    from rules import C20_oneshot, C20_cron
    ctx.guard(C20_oneshot.r17, ctx, prog)
    ctx.guard(C20_cron.r18, ctx, prog)
    return prog
