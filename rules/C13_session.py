"""C13 — whole lines through Enter: execution, history and the history commands together (C13.R23).  Imported by rules/C13.py.

tbxlint/minterp.py interprets Terminal::Impl::onEnterKey, execute, executeCmd, executeRunHistoryCmd and printPrompt (std::string as concrete text); splitting a line at
';' and into words is the job of util::string (modelled: C13 is not about them); the built-in commands other than the history references and every user command are
probes that note their words.  Sessions of up to four lines — plain commands, several commands on a line, !!, !n, !-n alone and mixed with other commands on one line,
references to references — are typed.  A reference evaluator expands history references from its own record of what was stored."""
import itertools
from tbxlint.facts import AnalysisBroken
from tbxlint import minterp
from tbxlint.minterp import P, S, Throw
from rules.C13_history import stoi, libc_hooks

TI = 'tbox::terminal::Terminal::Impl'
BUILTIN = ('ls', 'pwd', 'cd', 'help', 'history', 'exit', 'quit', 'tree')


class Session:
    def __init__(self, prog):
        self.prog = prog
        self.ran = []           # words of every command that was executed (user commands and built-ins)
        self.sent = []
        hooks = dict(minterp.VECTOR_HOOKS)

        def h_at(it_, f, st, a):
            v = minterp._vec(it_, f, st)
            i = a[-1]
            if not isinstance(i, int) or not (0 <= i < len(v)):
                raise Throw(['std::out_of_range', 'std::logic_error', 'std::exception'], 'at')
            return v[i]
        hooks['at'] = h_at

        def h_split(it_, f, st, a):
            out = a[2]
            if not isinstance(out, list):
                raise AnalysisBroken('Split: the output argument is not a sequence the replay holds')
            out[:] = [S(x) for x in str(a[0]).split(str(a[1]) if isinstance(a[1], S) else it_.to_text(a[1]))]
            return len(out)

        def h_splitcmd(it_, f, st, a):
            out = a[1]
            out[:] = [S(x) for x in str(a[0]).split()]
            return 1

        def probe(name):
            def h(it_, f, st, a):
                self.ran.append([str(x) for x in a[1]] if isinstance(a[1], list) else [name])
            return h
        hooks.update({'stoi': lambda it_, f, st, a: stoi(str(a[0])), 'send': self.h_send, 'Split': h_split, 'SplitCmdline': h_splitcmd, 'executeUserCmd': probe('user'),
                      'pop_front': self.h_pop_front})
        for b_ in ('Ls', 'Pwd', 'Cd', 'Help', 'History', 'Exit', 'Tree'):
            hooks['execute%sCmd' % b_] = probe(b_.lower())
        self.it = minterp.Interp(prog, {'str:empty': [0]}, hooks=hooks, inline=('*',), max_steps=2000000)
        it = self.it
        it.string_mode = True
        libc_hooks(it)
        it.max_depth = 60
        it.noeval = set(getattr(it, 'noeval', ())) | {'LogInfo', 'LogWarn', 'LogDbg', 'LogNotice'}
        self.sess = {'__cls__': 'SessionContext', '__open__': True, 'history': [], 'curr_input': S(''), 'token': 0, 'wp_conn': 0, 'options': 0, 'cursor': 0, 'history_index': 0}
        conn = {'__cls__': 'Connection', '__open__': True}
        it._keep += [self.sess, conn]
        self.sess['wp_conn'] = it.ref(conn)
        self.impl = {'__cls__': TI, '__open__': True}
        it._keep.append(self.impl)

    def h_send(self, it, f, st, a):
        self.sent.append(str(a[-1]) if isinstance(a[-1], S) else (it.to_text(a[-1]) or ''))
        return 1

    def h_pop_front(self, it, f, st, a):
        v = minterp._vec(it, f, st)
        if not v:
            it.fault(f, st, 'pop_front on an empty sequence')
            return None
        v.pop(0)

    def enter(self, line):
        self.sess['curr_input'] = S(line)
        g = self.prog.fn1(TI + '::onEnterKey')
        try:
            self.it.call(g, [self.it.ref(self.sess)], this=self.impl)
        except Throw as ex:
            self.it.faults.append('an exception (%s) escapes onEnterKey' % ex.types[0])


class Ref:
    """what the lines mean: commands run in order; a history reference runs the stored line it addresses; a line is stored when all of it ran (history itself is not stored),
    a reference is stored as the line it ran"""
    def __init__(self):
        self.history = []

    def run_line(self, line, out, depth=0):
        """(ok, what is remembered) — ok False when a command stops the line"""
        remembered = line
        for cmdline in line.split(';'):
            if cmdline == '':
                return False, remembered
            words = cmdline.split()
            if not words:
                continue
            if words[0][0] == '!':
                ok, rem2 = self.run_ref(words[0], out, depth)
                if not ok:
                    return False, remembered
                remembered = rem2             # the reference replaces the input line by the line it ran
                continue
            out.append(words)
            if words[0] == 'history':
                return False, remembered
        return True, remembered

    def run_ref(self, word, out, depth):
        sub = word[1:]
        h = self.history
        tgt = None
        if sub == '!':
            tgt = h[-1] if h else None
        else:
            try:
                idx = stoi(sub)
                if idx >= 0:
                    tgt = h[idx] if idx < len(h) else None
                else:
                    tgt = h[len(h) + idx] if -idx <= len(h) else None
            except Throw:
                tgt = None
        if tgt is None:
            return False, None
        return self.run_line(tgt, out, depth + 1)


def lines_alphabet():
    return ['probe a', 'probe b x', 'ls', '!!', '!0', '!-1', '!1', 'probe c; probe d', '!!; probe e', 'probe f; !0', '!9', 'history', '!x']


def check_session(prog, lines):
    s = Session(prog)
    ref = Ref()
    for n, line in enumerate(lines):
        when = 'line %d ("%s")' % (n + 1, line)
        r0, p0 = len(s.ran), len(s.sent)
        s.enter(line)
        if s.it.faults:
            return '%s: %s' % (when, s.it.faults[0])
        want = []
        ok, remembered = ref.run_line(line, want)
        # the code stores curr_input as it stands after execute(): for a plain line the line, for a reference the line it ran
        if ok:
            ref.history.append(remembered)
            del ref.history[:-20]
        got = s.ran[r0:]
        if got != want:
            return '%s: the commands run are %s where %s are due' % (when, got or 'none', want or 'none')
        hist = [str(x) for x in s.sess['history']]
        has_ref = any(w.startswith('!') for c in line.split(';') for w in c.split()[:1])
        if not has_ref and hist != ref.history:
            return '%s: the history is %s where %s is due' % (when, hist, ref.history)
        if has_ref:
            # what exactly is remembered of a line that mixes references and commands is not the property's business; that the rest of the history is untouched is
            if len(hist) > 20 or (ok and hist[:-1] != ref.history[:-1][-19:] and hist[:-1] != ref.history[:-1]) or (not ok and hist != ref.history):
                return '%s: the history is %s where %s (last entry apart) is due' % (when, hist, ref.history)
            ref.history = list(hist)
        if any(h.lstrip().startswith('!') or any(w.startswith('!') for c in h.split(';') for w in c.split()[:1]) for h in hist):
            return '%s: the history now holds a line that is itself a history reference (%s): re-running it can refer to itself without end' % (when, [h for h in hist if '!' in h])
        prompts = sum(1 for x in s.sent[p0:] if x == '# ')
        if prompts != 1:
            return '%s: %d prompts are sent after the line' % (when, prompts)
        if str(s.sess['curr_input']) != '' or s.sess['cursor'] != 0:
            return '%s: the input line is not empty afterwards' % when
    return None


def r23(ctx, prog):
    depth = 4 if ctx.tier == 'thorough' else 3
    alpha = lines_alphabet()
    sessions = []
    for n in range(1, depth + 1):
        for s_ in itertools.product(alpha, repeat=n):
            if not any(x.startswith('probe') or x == 'ls' for x in s_):
                continue
            sessions.append(s_)
    sessions.append(tuple('probe %d' % i for i in range(23)) + ('!0', '!19', '!-20', '!20'))
    sessions.append(('probe a', '!!; probe b', '!!', '!!', '!0; !1'))
    ctx.rule('C13.R23', 'A10 whole lines through Enter by abstract replay: %d sessions of up to %d lines (plain commands, several on one line, ls, history, !!, !n, !-n alone and mixed with other '
             'commands, references that address earlier references, a session of 23 lines) run on the syntax trees of onEnterKey, execute, executeCmd, executeRunHistoryCmd and '
             'printPrompt: the commands executed are those a reference expansion of the history references gives, in order; the history holds the most recent 20 lines that ran to '
             'their end, a reference stored as the line it ran — so no stored line is itself a reference and a re-run can never refer to itself —; every line is answered by '
             'exactly one prompt and leaves an empty input line; no exception escapes and the call chain stays shallow' % (len(sessions), depth), floor=1)
    need = [TI + '::onEnterKey', TI + '::executeRunHistoryCmd', TI + '::printPrompt']
    if not all(any(g.name == n_ for g in prog.funcs.values()) for n_ in need):
        from tbxlint.facts import extract
        prog = extract('ALL')
    bad = None
    for s_ in sessions:
        why = check_session(prog, s_)
        if why is not None:
            bad = (s_, why)
            break
    f = prog.fn1(TI + '::execute')
    ctx.ob('C13.R23', 'lines|replay', bad is None, '%d sessions' % len(sessions) if bad is None else 'session %s: %s' % (' | '.join(bad[0][:8]) + (' ...' if len(bad[0]) > 8 else ''), bad[1]),
           where=f.loc(f.body))
