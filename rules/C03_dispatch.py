"""C03 — one pass of both back-ends replayed against a model of the kernel, and against each other (C03.R12).  Imported by rules/C03.py.

tbxlint/minterp.py interprets EpollLoop::runLoop / SelectLoop::runLoop for a single pass (the parts of CommonLoop around it — timers, deferred calls, statistics — are
stubs), refFdSharedData / unrefFdSharedData, fillFdSets with the FD_* macros as the compiler expanded them, and the descriptor events of both back-ends (initialize, enable,
disable, reloadEpoll, OnEventCallback, onEvent, the destructor).  The kernel is a model: for epoll the interest list kept by epoll_ctl (ADD of a registered descriptor, MOD /
DEL of an unregistered one are faults) and epoll_wait reporting, in ascending descriptor order, what is both asked for and ready (a hang-up always); for select the three
sets filled by the code, cut down to what is ready.  The pool of shared per-descriptor records hands out records and knows which are live: touching a released one is the
invalid memory access the property speaks of.  The same script runs on both back-ends."""
import itertools
from tbxlint.facts import AnalysisBroken
from tbxlint import minterp
from tbxlint.minterp import P, It

R_, W_, X_ = 1, 2, 4            # kReadEvent, kWriteEvent, kExceptEvent
EPOLLIN, EPOLLOUT, EPOLLERR, EPOLLHUP = 1, 4, 8, 16


class Back:
    def __init__(self, prog, kind):
        self.prog, self.kind = prog, kind
        self.LOOP = 'tbox::event::%sLoop' % ('Epoll' if kind == 'epoll' else 'Select')
        self.EV = 'tbox::event::%sFdEvent' % ('Epoll' if kind == 'epoll' else 'Select')
        self.SD = 'tbox::event::%sFdSharedData' % ('Epoll' if kind == 'epoll' else 'Select')
        self.kernel = {}            # epoll: fd -> mask
        self.udata = {}             # epoll: fd -> the data.fd registered with it
        self.ready = {}             # fd -> set of 'r' 'w' 'x' 'h'
        self.live = set()
        self.calls = []             # (event index, events argument)
        self.problem = None
        noop = lambda it, f, st, a: None
        hooks = dict(minterp.VECTOR_HOOKS)
        hooks.update({'runThisBeforeLoop': noop, 'runThisAfterLoop': noop, 'handleExpiredTimers': noop, 'handleNextFunc': noop, 'beginLoopProcess': noop, 'endLoopProcess': noop,
                      'beginEventProcess': noop, 'endEventProcess': noop, 'getWaitTime': lambda it, f, st, a: 0, 'epoll_ctl': self.h_ctl, 'epoll_wait': self.h_wait,
                      'select': self.h_select, 'ObjectPool::alloc': self.h_alloc, 'ObjectPool::free': self.h_free, 'find': self.h_find, 'memset': self.h_memset,
                      'make_pair': lambda it, f, st, a: ('pair', a[0], a[1]), 'unordered_map::insert': self.h_map_insert, 'map::insert': self.h_map_insert,
                      'resize': self.h_resize, 'data': lambda it, f, st, a: it.cur_obj, 'abort': self.h_abort, '__builtin_expect': lambda it, f, st, a: a[0],
                      '__errno_location': lambda it, f, st, a: P('errno', 0)})
        self.it = minterp.Interp(prog, {'str:empty': [0], 'errno': [0]}, hooks=hooks, inline=('*',), max_steps=3000000)
        it = self.it
        it.noeval = set(getattr(it, 'noeval', ())) | {'LogNotice', 'LogErr', 'LogWarn', 'LogDbg', 'LogErrno'}
        it.struct_init['fd_set'] = self.init_fd_set
        self.loop = it.new_record(self.LOOP)
        it._keep.append(self.loop)
        self.loop['fd_data_map_'] = {'__map__': True}
        self.loop['epoll_fd_'] = 3
        self.loop['max_loop_entries_'] = 4
        self.loop['keep_running_'] = 1
        self.events = []
        self.tmp = 0

    def h_abort(self, it, f, st, a):
        it.fault(f, st, 'an assertion of the library fails (abort)')
        raise minterp._Abort()

    def init_fd_set(self, it, rec):
        self.tmp += 1
        name = 'fdset#%d' % self.tmp
        it.mem[name] = ['uninit'] * 16
        rec['fds_bits'] = rec['__fds_bits'] = P(name, 0)

    # ---- the pool of shared records
    def h_alloc(self, it, f, st, a):
        rec = it.new_record(self.SD)
        it._keep.append(rec)
        if not isinstance(rec.get('fd_events'), list):
            rec['fd_events'] = []
        if self.kind == 'epoll' and not isinstance(rec.get('ev'), dict):
            rec['ev'] = {'__cls__': 'epoll_event', '__open__': True, 'events': 'uninit', 'data': {'__cls__': 'epoll_data', '__open__': True, 'fd': 'uninit', 'ptr': 'uninit'}}
        self.live.add(id(rec))
        return it.ref(rec)

    def h_free(self, it, f, st, a):
        rec = it.record_of(a[0])
        if rec is None:
            return None
        if id(rec) not in self.live:
            it.fault(f, st, 'a shared descriptor record is returned to the pool twice')
            return None
        self.live.discard(id(rec))
        it.freed.add('rec@%d' % id(rec))         # from now on any access through a pointer to it is a fault of the interpreter

    def h_memset(self, it, f, st, a):
        r = it.record_of(a[0])
        if r is not None:
            r['events'] = 0
            if isinstance(r.get('data'), dict):
                r['data']['fd'] = 0
                r['data']['ptr'] = 0
            return a[0]
        return minterp.h_memset(it, f, st, a)

    def h_map_insert(self, it, f, st, a):
        m = it.cur_obj
        if not (isinstance(m, dict) and m.get('__map__')) or not (isinstance(a[0], tuple) and a[0][0] == 'pair'):
            raise AnalysisBroken('%s: map insert the replay does not understand (%s)' % (f.short, f.loc(st['i'])))
        m.setdefault(a[0][1], a[0][2])
        return None

    def h_find(self, it, f, st, a):
        if 'obj' not in st and len(a) == 3 and isinstance(a[0], It) and isinstance(a[0].c, list):
            for i in range(a[0].k, a[1].k):
                if a[0].c[i] == a[2]:
                    return It(a[0].c, i)
            return It(a[0].c, a[1].k)
        return minterp._find(it, f, st, a)

    def h_resize(self, it, f, st, a):
        v = minterp._vec(it, f, st)
        n = a[0]
        while len(v) < n:
            rec = {'__cls__': 'epoll_event', '__open__': True, 'events': 0, 'data': {'__cls__': 'epoll_data', '__open__': True, 'fd': 0, 'ptr': 0}}
            it._keep.append(rec)
            v.append(rec)
        del v[n:]

    # ---- the kernel
    def bits(self, fd):
        r = self.ready.get(fd, set())
        return (EPOLLIN if 'r' in r else 0) | (EPOLLOUT if 'w' in r else 0) | (EPOLLERR if 'x' in r else 0) | (EPOLLHUP if 'h' in r else 0)

    def h_ctl(self, it, f, st, a):
        op, fd, evp = a[1], a[2], a[3]
        r = it.record_of(evp) if evp not in (0, None) else None
        m = r.get('events') if r else None
        if r is not None:
            # the kernel keeps the user data of the registration and hands it back with every event: that, not the descriptor, is what the loop gets to see
            dd = r.get('data')
            self.udata[fd] = dd.get('fd') if isinstance(dd, dict) else None
        if op == 1:
            if fd in self.kernel:
                it.fault(f, st, 'EPOLL_CTL_ADD for descriptor %d, which is already registered (EEXIST): the new interest is lost' % fd)
            self.kernel[fd] = m
        elif op == 3:
            if fd not in self.kernel:
                it.fault(f, st, 'EPOLL_CTL_MOD for descriptor %d, which is not registered (ENOENT)' % fd)
            self.kernel[fd] = m
        elif op == 2:
            if fd not in self.kernel:
                it.fault(f, st, 'EPOLL_CTL_DEL for descriptor %d, which is not registered (ENOENT)' % fd)
            self.kernel.pop(fd, None)
        else:
            raise AnalysisBroken('epoll_ctl with an operation the replay does not know (%s)' % f.loc(st['i']))
        return 0

    def h_wait(self, it, f, st, a):
        arr, cap = a[1], a[2]
        if not isinstance(arr, list):
            raise AnalysisBroken('epoll_wait: the event array is not a sequence the replay holds (%s)' % f.loc(st['i']))
        n = 0
        for fd in sorted(self.kernel):
            m = self.kernel[fd]
            if not isinstance(m, int):
                it.fault(f, st, 'descriptor %d is registered with an interest mask that was never set' % fd)
                continue
            rev = (m & self.bits(fd)) | (self.bits(fd) & (EPOLLHUP | EPOLLERR))
            if rev and n < min(cap, len(arr)):
                arr[n]['events'] = rev
                arr[n]['data']['fd'] = self.udata.get(fd, 'uninit')
                n += 1
        return n

    def h_select(self, it, f, st, a):
        nfds = a[0]
        sets = [it.record_of(x) for x in a[1:4]]
        hit = 0
        for fd in range(nfds):
            any_ = False
            for rec, cond in zip(sets, ('r', 'w', 'x')):
                p = rec['fds_bits']
                cell = it.mem[p.r]
                word = cell[fd // 64]
                if not isinstance(word, int):
                    it.fault(f, st, 'select() is handed a descriptor set that was never cleared')
                    raise minterp._Abort()
                asked = (word >> (fd % 64)) & 1
                rd = self.ready.get(fd, set())
                is_ready = asked and (cond in rd or (cond == 'r' and 'h' in rd))
                if asked and not is_ready:
                    cell[fd // 64] = word & ~(1 << (fd % 64))
                any_ = any_ or bool(is_ready)
            hit += 1 if any_ else 0
        return hit

    # ---- objects
    def call(self, cls, rec, name, args=(), pick=None):
        cands = [g for g in self.prog.by_name.get(cls + '::' + name, ()) if g.body is not None and len(g.params) == len(args) and (pick is None or pick(g))]
        if len(cands) != 1:
            raise AnalysisBroken('%s::%s/%d: %d candidate(s)' % (cls, name, len(args), len(cands)))
        return self.it.call(cands[0], list(args), this=rec)

    def new_event(self, fd, sub, oneshot, action=None):
        it = self.it
        rec = it.new_record(self.EV)
        it._keep.append(rec)
        idx = len(self.events)
        rec.update({'wp_loop_': it.ref(self.loop), 'fd_': -1, 'd_': 0, 'events_': 0, 'is_enabled_': 0, 'is_stop_after_trigger_': 0, 'cb_level_': 0})
        e = {'rec': rec, 'fd': fd, 'sub': sub, 'oneshot': oneshot, 'on': False, 'dead': False}

        def cb(evs, idx=idx):
            ee = self.events[idx]
            self.calls.append((idx, evs))
            rd = self.ready.get(ee['fd'], set())
            have = (R_ if ('r' in rd or 'h' in rd) else 0) | (W_ if 'w' in rd else 0) | (X_ if 'x' in rd else 0)
            if ee['dead']:
                self.note('the callback of event %d runs after the event was destroyed' % idx)
            elif not ee['on']:
                self.note('the callback of event %d runs while the event is disabled' % idx)
            elif not (ee['sub'] & have):
                self.note('the callback of event %d runs although descriptor %d is ready for none of the conditions it subscribed to' % (idx, ee['fd']))
            elif isinstance(evs, int) and not (evs & ee['sub']):
                self.note('the callback of event %d is told %d, none of which it subscribed to' % (idx, evs))
            if ee['oneshot']:
                if rec.get('is_enabled_'):
                    self.note('the one-shot event %d is still enabled while its callback runs' % idx)
                ee['on'] = False
            if action is not None:
                action()
        rec['cb_'] = cb
        self.events.append(e)
        if not self.call(self.EV, rec, 'initialize', [fd, sub, 1 if oneshot else 0]):
            raise AnalysisBroken('initialize(%d, %d) refused on a fresh event' % (fd, sub))
        return idx

    def note(self, what):
        if self.problem is None:
            self.problem = what

    def enable(self, i):
        e = self.events[i]
        if e['dead']:
            return
        self.call(self.EV, e['rec'], 'enable')
        e['on'] = True

    def disable(self, i):
        e = self.events[i]
        if e['dead']:
            return
        self.call(self.EV, e['rec'], 'disable')
        e['on'] = False

    def destroy(self, i):
        e = self.events[i]
        if e['dead']:
            return
        g = [x for x in self.prog.methods_of(self.EV) if x.d.get('dtor') and x.body is not None]
        if len(g) != 1:
            raise AnalysisBroken('destructor of %s not found' % self.EV)
        self.it.call(g[0], [], this=e['rec'])
        e['dead'], e['on'] = True, False

    def one_pass(self):
        g = self.prog.fn1(self.LOOP + '::runLoop')
        self.it.call(g, [0], this=self.loop)         # Mode::kOnce


SPEC = [(5, R_, False, None), (5, R_ | W_, True, None), (6, R_, False, ('dis', 0)), (5, W_, False, ('destroy', 1)), (6, R_, False, ('dis', 4)), (5, R_, False, ('dis', 2)),
        (0, R_, False, None)]         # descriptor 0 is a descriptor like any other


def run_script(prog, kind, script):
    b = Back(prog, kind)
    for fd, sub, oneshot, act in SPEC:
        action = None
        if act is not None:
            action = (lambda act=act: b.disable(act[1])) if act[0] == 'dis' else (lambda act=act: b.destroy(act[1]))
        b.new_event(fd, sub, oneshot, action)
    passes = []
    for n, a in enumerate(script):
        when = 'step %d (%s)' % (n + 1, ' '.join(str(x) for x in a))
        if a[0] == 'en':
            b.enable(a[1])
        elif a[0] == 'dis':
            b.disable(a[1])
        elif a[0] == 'ready':
            s_ = b.ready.setdefault(a[1], set())
            (s_.discard if a[2] in s_ else s_.add)(a[2])
        else:
            c0 = len(b.calls)
            due = [i for i, e in enumerate(b.events) if e['on'] and (e['sub'] & ((R_ if ({'r', 'h'} & b.ready.get(e['fd'], set())) else 0) | (W_ if 'w' in b.ready.get(e['fd'], set()) else 0) |
                                                                                      (X_ if 'x' in b.ready.get(e['fd'], set()) else 0)))]
            b.one_pass()
            got = b.calls[c0:]
            passes.append(tuple(got))
            if not b.it.faults and not b.problem:
                for i in set(x[0] for x in got):
                    if sum(1 for x in got if x[0] == i) > 1:
                        return b, passes, '%s: event %d is called back twice in one pass' % (when, i)
                # an event that was due and was not disabled / destroyed by a callback of this pass must have been called
                for i in due:
                    e = b.events[i]
                    if not any(x[0] == i for x in got) and e['on'] and not e['dead']:
                        return b, passes, '%s: event %d is enabled, descriptor %d is ready for a condition it subscribed to, and it is not called back' % (when, i, e['fd'])
        if b.it.faults:
            return b, passes, '%s: %s' % (when, b.it.faults[0])
        if b.problem:
            return b, passes, '%s: %s' % (when, b.problem)
    return b, passes, None


def r12(ctx, prog):
    depth = 5 if ctx.tier == 'thorough' else 4
    alpha = [('en', i) for i in range(len(SPEC))] + [('dis', 0), ('dis', 3)] + [('ready', 5, 'r'), ('ready', 5, 'w'), ('ready', 6, 'r'), ('ready', 6, 'h'), ('ready', 0, 'r'), ('pass',)]
    scripts = []
    for n in range(2, depth + 1):
        for s_ in itertools.product(alpha, repeat=n):
            if s_[-1] != ('pass',) or s_[0][0] != 'en' or not any(a[0] == 'ready' for a in s_):
                continue
            scripts.append(s_)
    full = tuple(('en', i) for i in range(len(SPEC)))
    for rd in ([('ready', 5, 'r')], [('ready', 5, 'w')], [('ready', 5, 'r'), ('ready', 6, 'r')], [('ready', 5, 'r'), ('ready', 5, 'w'), ('ready', 6, 'r')], [('ready', 6, 'h')],
               [('ready', 5, 'w'), ('ready', 6, 'r')], [('ready', 5, 'r'), ('ready', 0, 'r')], [('ready', 0, 'r'), ('ready', 6, 'r')]):
        scripts.append(full + tuple(rd) + (('pass',), ('pass',), ('en', 1), ('en', 0), ('pass',)))
        scripts.append(full[::-1] + tuple(rd) + (('pass',), ('pass',)))
    ctx.rule('C03.R12', 'A10 one pass of both back-ends by abstract replay: %d scripts of up to %d steps (enable / disable of seven descriptor events on three descriptors (0 among them) — persistent and '
             'one-shot, read / write, callbacks that disable the running event, an event on the same or on the other descriptor, or destroy another event — readiness toggled for '
             'read, write and hang-up, loop passes) run on the syntax trees of runLoop (one pass), refFdSharedData / unrefFdSharedData, fillFdSets with the FD_* macros, and the '
             'descriptor events of both back-ends over a model of the kernel (the epoll interest list with EEXIST / ENOENT as faults; the sets of select cut down to what is ready): a '
             'callback runs only on an enabled, living event whose descriptor is ready for a condition it subscribed to, at most once per pass; a one-shot is disabled when its '
             'callback runs; an enabled event that is due and was not disabled in this pass is called; no shared record is touched after its release or released twice; and the '
             'two back-ends deliver the same callbacks, pass by pass' % (len(scripts), depth), floor=1)
    if not any(g.name == 'tbox::event::SelectLoop::fillFdSets' for g in prog.funcs.values()):
        from tbxlint.facts import extract
        prog = extract('ALL')
    bad = None
    for s_ in scripts:
        be, pe, why_e = run_script(prog, 'epoll', s_)
        if why_e:
            bad = (s_, 'epoll: ' + why_e)
            break
        bs, ps, why_s = run_script(prog, 'select', s_)
        if why_s:
            bad = (s_, 'select: ' + why_s)
            break
        if [sorted((i for i, ev in p_)) for p_ in pe] != [sorted((i for i, ev in p_)) for p_ in ps]:
            k = next(i for i in range(len(pe)) if sorted(x[0] for x in pe[i]) != sorted(x[0] for x in ps[i]))
            bad = (s_, 'in pass %d the epoll back-end calls events %s and the select back-end events %s' % (k + 1, [x[0] for x in pe[k]], [x[0] for x in ps[k]]))
            break
    f = prog.fn1('tbox::event::EpollFdEvent::OnEventCallback')
    ctx.ob('C03.R12', 'dispatch|replay', bad is None, '%d scripts, both back-ends' % len(scripts) if bad is None else
           'script %s: %s' % (' '.join('%s(%s)' % (a[0], ','.join(str(x) for x in a[1:])) for a in bad[0]), bad[1]), where=f.loc(f.body))
