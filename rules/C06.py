"""C06 — buffered descriptor / TCP connection byte stream (DESIGN §4 C06)."""
from tbxlint.facts import extract, AnalysisBroken, MODULES
from tbxlint import locks, q, own, rd
from rules import C06_relay
from rules import C06_replay

B = 'tbox::network::BufferedFd'
N = 'tbox::network::'
SCOPE = ['network/buffered_fd.cpp', 'network/tcp_connection.cpp', 'network/tcp_server.cpp', 'network/tcp_connector.cpp',
         'network/tcp_client.cpp', 'network/tcp_acceptor.cpp', 'util/buffer.cpp']
DEFERRED_SITES = [N + 'TcpConnection::disconnect', N + 'TcpConnection::onSocketClosed', N + 'TcpServer::disconnect', N + 'TcpServer::onTcpDisconnected',
                  N + 'TcpClient::stop', N + 'TcpClient::onTcpDisconnected', N + 'TcpConnector::exitConnectingState', N + 'TcpConnector::exitReconnectDelayState']
GUARDED_TYPES = ('BufferedFd', 'TcpConnection', 'FdEvent', 'TimerEvent')


def wev(f, fn):
    return [st for st in f.calls() if st.get('fn') == fn and 'obj' in st and (f.field_of(st['obj']) or '').endswith('BufferedFd::sp_write_event_')]


def sb(f, fn):
    return [st for st in f.calls() if st.get('fn') == fn and 'obj' in st and (f.field_of(st['obj']) or '').endswith('BufferedFd::send_buff_')]


def state_store(f, name):
    return [a for a, rhs in q.assigns(f, 'BufferedFd::state_') if f.s(f.strip_casts(rhs)).get('n') == name]


def cond_mentions(f, cond, *needles):
    ps = ' '.join(sorted(q.subtree_paths(f, cond)))
    return all(n in ps for n in needles)


def queue_empty_fact(f):
    """must-fact "send_buff_ is empty" along the CFG of f: established by an emptiness test edge on send_buff_.readableSize(),
    destroyed by send_buff_.append and by any user callback (which may call send())"""
    def subj(sid):
        st = f.s(sid)
        return st is not None and st['k'] in q.CALL_KINDS and st.get('fn') == 'readableSize' and 'obj' in st and (f.field_of(st['obj']) or '').endswith('BufferedFd::send_buff_')
    def kill(pt, st):
        if st['k'] in q.CALL_KINDS and st.get('fn') in ('append', 'hasWritten', 'swap', 'operator=') and 'obj' in st and (f.field_of(st['obj']) or '').endswith('BufferedFd::send_buff_'):
            return True
        if st['k'] == 'CXXOperatorCallExpr' and st.get('op') == '()' and st.get('cls', '').startswith('std::function<'):
            return True
        return False
    return q.must_fact(f, lambda b, k: q.zero_test_edge(f, b, k, subj), kill)


def r1(ctx, prog):
    ctx.rule('C06.R1', 'A5 write-arming invariant "running and bytes queued => write event armed" (and "not running => not armed"), decided per '
                       'state-changing site: enable() arms when the queue is non-empty, send() arms after every queued remainder of a direct write, the '
                       'write callback disarms only on an empty queue, disable() disarms; no other function touches the three facts', floor=6)
    en = prog.fn1(B + '::enable')
    run = state_store(en, 'kRunning')
    if not run:
        raise AnalysisBroken('BufferedFd::enable: store state_ = kRunning not found')
    arms = wev(en, 'enable')
    ok = False
    why = 'enable() never arms the write event'
    for a in arms:
        gs = [c for c, br in q.lexical_guards(en, a['i']) if br == 'then']
        # allowed guards: write event exists, queue non-empty
        bad = [c for c in gs if not (cond_mentions(en, c, 'sp_write_event_') or cond_mentions(en, c, 'send_buff_.readableSize()'))]
        reach = all(not en.cfg.exists_path(q.pt(en, r), q.pt(en, a)) or True for r in run)
        if not bad and any(en.cfg.exists_path(q.pt(en, a), q.pt(en, r)) or en.cfg.exists_path(q.pt(en, r), 'exit') for r in run):
            ok, why = True, 'write event armed under (write event exists && send_buff_ non-empty) on the path that sets kRunning'
    ctx.ob('C06.R1', '%s|arm-queued' % en.name, ok, why if ok else
           'enable() makes the descriptor running but never arms the write event when send_buff_ already holds bytes accepted by send(): later sends only append, nothing is ever written',
           where=en.loc(run[0]['i']))
    s = prog.fn1(B + '::send')
    aps = sb(s, 'append')
    if len(aps) < 2:
        raise AnalysisBroken('BufferedFd::send: expected a queue-behind append and one after the direct write, found %d send_buff_.append site(s)' % len(aps))
    arm = wev(s, 'enable')
    for i, a in enumerate(sorted(aps, key=lambda x: x['l'])):
        gs = [(c, br) for c, br in q.lexical_guards(s, a['i'])]
        behind = any(br == 'then' and cond_mentions(s, c, 'state_') and cond_mentions(s, c, 'send_buff_.readableSize()') for c, br in gs)
        if behind:
            # queue-behind branch: taken when not running (armed on enable(), see above) or when the queue is already non-empty (armed by induction)
            c = [c for c, br in gs if br == 'then' and cond_mentions(s, c, 'state_')][0]
            x = s.s(s.strip_casts(c))
            ok = x['k'] == 'BinaryOperator' and x.get('op') == '||'
            ctx.ob('C06.R1', '%s|append#%d' % (s.name, i), ok, 'queued behind existing data / while not running (condition: state_ != kRunning || queue non-empty)', where=s.loc(a['i']))
        else:
            ok = q.must_follow(s, q.pt(s, a), q.pts(s, arm))
            ctx.ob('C06.R1', '%s|append#%d' % (s.name, i), ok,
                   'remainder queued after a direct write attempt is followed by sp_write_event_->enable() on every path' if ok else
                   'bytes are queued after a direct write attempt without arming the write event on some path: they are never written', where=s.loc(a['i']))
    w = prog.fn1(B + '::onWriteCallback')
    empty = queue_empty_fact(w)
    for d in wev(w, 'disable'):
        ok = bool(empty.get(q.pt(w, d)))
        ctx.ob('C06.R1', '%s|disarm-when-empty' % w.name, ok,
               'write event disabled only where the send queue is known empty (test on every path, no user callback or append in between)' if ok else
               'the write event is disabled at a point where the queue is not known to be empty (no emptiness test on some path, or a user callback / append '
               'ran since the test and may have queued bytes): queued bytes are never written', where=w.loc(d['i']))
    dis = prog.fn1(B + '::disable')
    st = state_store(dis, 'kInited')
    da = wev(dis, 'disable')
    ctx.ob('C06.R1', '%s|disarm' % dis.name, bool(st) and bool(da) and all(not dis.cfg.exists_path(dis.cfg.entry_point(), q.pt(dis, x), avoid=q.pts(dis, da)) or
           any(c for c, br in q.lexical_guards(dis, da[0]['i']) if cond_mentions(dis, c, 'sp_write_event_')) for x in st),
           'disable() disarms the write event before leaving the running state', where=dis.loc(dis.body))
    # who may touch
    allowed = {B + '::' + x for x in ('initialize', 'enable', 'disable', 'send', 'onWriteCallback', '~BufferedFd', 'BufferedFd', 'shrinkSendBuffer')}
    touch = set()
    for f in prog.funcs.values():
        o = prog.outermost(f)
        if o.cls != B:
            continue
        if wev(f, 'enable') or wev(f, 'disable') or sb(f, 'append') or sb(f, 'hasRead') or sb(f, 'hasReadAll') or q.assigns(f, 'BufferedFd::state_'):
            touch.add(o.name)
    ctx.ob('C06.R1', B + '|writers', touch <= allowed, 'functions that change state_/send_buff_/write-event arming: %s' % sorted(x.split('::')[-1] for x in touch))


def r2(ctx, prog):
    ctx.rule('C06.R2', 'A4: nothing lost or duplicated in send(): a partial write queues exactly (ptr + wsize, size - wsize) for the wsize returned '
                       'by the write; EAGAIN queues the whole datum; a direct write happens only when running with an empty queue', floor=2)
    s = prog.fn1(B + '::send')
    wr = [st for st in s.calls() if st.get('fn') == 'write' and 'obj' in st and (s.field_of(st['obj']) or '').endswith('BufferedFd::fd_')]
    if len(wr) != 1:
        raise AnalysisBroken('BufferedFd::send: expected one fd_.write call, found %d' % len(wr))
    w = wr[0]
    wd = None
    for st in s.stmts:
        if st and st['k'] == 'DeclStmt':
            for d in st['decls']:
                if 'init' in d and w['i'] in set(s.walk(d['init'])):
                    wd = d
    if wd is None:
        raise AnalysisBroken('BufferedFd::send: result of fd_.write is not stored in a local')
    # the direct write happens only when running with an empty queue: both facts hold on every path to it
    wp = q.pt(s, w)
    empty = queue_empty_fact(s)
    running = False
    for cond, k, blk in s.cfg.controlling_branches(wp):
        cs = s.s(s.strip_casts(cond))
        if cs and cs['k'] == 'BinaryOperator' and cs.get('op') in ('==', '!=') and any(x.endswith('state_') for x in q.subtree_fields(s, cond)) and \
                any((s.stmts[y].get('n') or '') == 'kRunning' for y in s.walk(cond)):
            running = running or ((cs['op'] == '==') == (k == 0))
    ctx.ob('C06.R2', '%s|direct-only-when-idle' % s.name, running and bool(empty.get(wp)),
           'the direct write is reached only with state_ == kRunning and an empty send queue: nothing overtakes queued bytes', where=s.loc(w['i']))
    # what is queued after the write attempt, as linear forms over (data_ptr, data_size, W = result of the write)
    from tbxlint import lin
    from tbxlint.affine import Aff, Ptr
    dp, ds = s.params[0]['n'], s.params[1]['n']
    W = Aff.sym('local:' + wd['n'])
    def w_sign_guards(pt):
        # 'neg' if every path to pt has W < 0 (write failed), 'nonneg' if every path has W >= 0, else None
        out = None
        for cond, k, blk in s.cfg.controlling_branches(pt):
            cs = s.s(s.strip_casts(cond))
            if not (cs and cs['k'] == 'BinaryOperator' and cs.get('op') in ('>=', '<', '>', '<=')):
                continue
            l, r = lin.lin(s, cs['ch'][0], s.cfg.point_of(cond)), lin.lin(s, cs['ch'][1], s.cfg.point_of(cond))
            if l == W and isinstance(r, Aff) and r.is_const() and r.c == 0:
                t = {'>=': 'nonneg', '<': 'neg'}.get(cs['op'])
                if t:
                    out = t if k == 0 else {'nonneg': 'neg', 'neg': 'nonneg'}[t]
        return out
    n_rem = n_whole = deferred = 0
    for a in sb(s, 'append'):
        if not s.cfg.exists_path(wp, q.pt(s, a)):
            continue
        ap = q.pt(s, a)
        v0, v1 = lin.lin(s, a['args'][0], ap), lin.lin(s, a['args'][1], ap)
        sign = w_sign_guards(ap)
        if isinstance(v0, Ptr) and isinstance(v1, Aff) and v0 == Ptr('param:' + dp, W) and v1 == Aff.sym(ds) - W:
            n_rem += 1
            ctx.ob('C06.R2', '%s|remainder' % s.name, sign == 'nonneg', 'partial write queues exactly (data_ptr + W, data_size - W) where W >= 0 is what write() returned' if sign == 'nonneg' else
                   'the remainder is queued on a path where the write may have failed (W < 0)', where=s.loc(a['i']))
        elif isinstance(v0, Ptr) and isinstance(v1, Aff) and v0 == Ptr('param:' + dp, Aff(0)) and v1 == Aff.sym(ds):
            n_whole += 1
            g = [c for c, br in q.lexical_guards(s, a['i']) if 'errno' in ' '.join(q.subtree_paths(s, c)) + ' '.join(x.get('callee', '') for x in q.subtree_calls(s, c))]
            ctx.ob('C06.R2', '%s|eagain-whole' % s.name, sign == 'neg' and bool(g),
                   'the whole datum is queued only where the write failed (W < 0) with EAGAIN' if sign == 'neg' and g else
                   'the whole datum is queued on a path where the write may have succeeded: the bytes already written are sent twice', where=s.loc(a['i']))
        elif v0 is None or v1 is None:
            # what is queued is not a linear form over (data_ptr, data_size, W) — a count chosen by a conditional, say: this rule has no verdict on it;
            # C06.R15 replays send() over partial, refused and complete writes and compares what reaches the peer
            deferred += 1
            ctx.ob('C06.R2', '%s|queued-after-write' % s.name, True, 'what is queued here is not a linear form over (data_ptr, data_size, W): decided by the replay C06.R15, not here', where=s.loc(a['i']))
        else:
            ctx.ob('C06.R2', '%s|queued-after-write' % s.name, False,
                   'after the write attempt send() queues (%s, %s), which is neither the unsent remainder (data_ptr + W, data_size - W) nor the whole datum: bytes are lost or duplicated' % (v0, v1),
                   where=s.loc(a['i']))
    if deferred:
        return
    ctx.ob('C06.R2', '%s|remainder-present' % s.name, n_rem >= 1,
           'a partial write queues its remainder' if n_rem else 'no path queues the unsent remainder of a partial write: the tail of the datum is lost', where=s.loc(w['i']))
    # no loss: from a successful write every path to the exit either queues the remainder or passes a test showing W >= data_size
    rem_pts = [q.pt(s, a) for a in sb(s, 'append') if s.cfg.exists_path(wp, q.pt(s, a))]
    def edge_ok(bb, kk):
        b_ = s.cfg.blocks[bb]
        if b_.cond is None:
            return True
        cs = s.s(s.strip_casts(b_.cond))
        # the edge on which "W < data_size" is false is harmless (everything was written); W < 0 edges are the failure branch
        if cs and cs['k'] == 'BinaryOperator' and cs.get('op') in ('<', '>=', '>', '<=', '==', '!='):
            cp = s.cfg.point_of(b_.cond)
            l, r = lin.lin(s, cs['ch'][0], cp), lin.lin(s, cs['ch'][1], cp)
            if (l == W and r == Aff.sym(ds)) or (cs['op'] in ('==', '!=') and l == Aff.sym(ds) and r == W):
                full = {'<': 1, '>=': 0, '!=': 1, '==': 0}.get(cs['op'])      # W == data_size: everything was written
                if full is not None and kk == full:
                    return False
            if l == Aff.sym(ds) and r == W:
                full = {'>': 1, '<=': 0}.get(cs['op'])
                if full is not None and kk == full:
                    return False
            if l == W and isinstance(r, Aff) and r.is_const() and r.c == 0:
                neg = {'>=': 1, '<': 0}.get(cs['op'])
                if neg is not None and kk == neg:
                    return False
        return True
    lost = s.cfg.exists_path(wp, 'exit', avoid=rem_pts, edge_filter=edge_ok)
    ctx.ob('C06.R2', '%s|no-silent-drop' % s.name, not lost,
           'after a successful write every path to the exit queues the remainder unless W >= data_size' if not lost else
           'a path leaves send() after a successful partial write (0 <= W < data_size) without queuing the remainder', where=s.loc(w['i']))


def r3(ctx, prog):
    ctx.rule('C06.R3', 'A4: send-complete fires only when the queue is drained; the write callback consumes exactly what write() returned', floor=2)
    w = prog.fn1(B + '::onWriteCallback')
    inv = q.invokes(w, 'send_complete_cb_')
    if not inv:
        raise AnalysisBroken('onWriteCallback: send_complete_cb_ invoke not found')
    # every place that reports send-complete — the write callback, and any other method or deferred closure of the class
    sites = []
    for g in prog.funcs.values():
        if prog.outermost(g).cls == B:
            for i in q.invokes(g, 'send_complete_cb_'):
                sites.append((g, i))
    for g, i in sites:
        empty = queue_empty_fact(g)
        ok = bool(empty.get(q.pt(g, i)))
        ctx.ob('C06.R3', '%s|complete-when-empty' % locks.site_name(prog, g), ok, 'send_complete_cb_ only where the send queue is known empty' if ok else
               'send-complete is reported at a point where send_buff_ is not known to be empty%s: data queued by a later send() (a partial write) is still waiting, and '
               'a user that closes on completion truncates the stream' % (' (a deferred task: whatever held when it was posted need not hold when it runs)' if g.parent_usr else ''),
               where=g.loc(i['i']))
    wr = [st for st in w.calls() if st.get('fn') == 'write' and 'obj' in st and (w.field_of(st['obj']) or '').endswith('BufferedFd::fd_')]
    hr = sb(w, 'hasRead')
    ok = False
    if len(wr) == 1 and len(hr) == 1:
        wd = None
        for st in w.stmts:
            if st and st['k'] == 'DeclStmt':
                for d in st['decls']:
                    if 'init' in d and wr[0]['i'] in set(w.walk(d['init'])):
                        wd = d
        a = w.s(w.strip_casts(hr[0]['args'][0]))
        ok = wd is not None and a.get('d') == wd['d'] and [w.path(x) for x in wr[0]['args']] == ['send_buff_.readableBegin()', 'send_buff_.readableSize()']
        from tbxlint import ival
        lo, hi = ival.guard_bounds(w, wd['d'], q.pt(w, hr[0])) if wd else (None, None)
        ok = ok and lo is not None and lo >= 0
    ctx.ob('C06.R3', '%s|consume-written' % w.name, ok, 'write(readableBegin, readableSize) and hasRead(wsize) on the wsize >= 0 side of the error test', where=w.loc(w.body))


def r4(ctx, prog):
    ctx.rule('C06.R4', 'A4: receive side: the buffer is committed by min(rsize, writable) and the spill appended with rsize - writable; the user '
                       'callback gets the member buffer by reference; only the no-callback / bound-receiver branches discard; read-zero reported on rsize == 0', floor=5)
    f = prog.fn1(B + '::onReadCallback')
    rb = lambda fn: [st for st in f.calls() if st.get('fn') == fn and 'obj' in st and (f.field_of(st['obj']) or '').endswith('BufferedFd::recv_buff_')]
    hw = rb('hasWritten')
    ap = rb('append')
    if len(hw) != 2 or len(ap) != 1:
        raise AnalysisBroken('onReadCallback: expected 2 hasWritten + 1 append on recv_buff_, found %d/%d' % (len(hw), len(ap)))
    args = sorted(f.path(h['args'][0]) for h in hw)
    ctx.ob('C06.R4', '%s|commit' % f.name, args == ['rsize', 'writable_size'], 'hasWritten(writable_size) / hasWritten(rsize) (%s)' % args, where=f.loc(hw[0]['i']))
    for h in hw:
        g = [(c, br) for c, br in q.lexical_guards(f, h['i']) if cond_mentions(f, c, 'rsize', 'writable_size') and f.s(f.strip_casts(c)).get('op') == '>']
        want = 'then' if f.path(h['args'][0]) == 'writable_size' else 'else'
        ctx.ob('C06.R4', '%s|commit-%s' % (f.name, f.path(h['args'][0])), any(br == want for c, br in g), 'chosen by rsize > writable_size (%s branch)' % want, where=f.loc(h['i']))
    a = ap[0]
    ln = f.s(f.strip_casts(a['args'][1]))
    src = []
    if ln['k'] == 'DeclRefExpr':
        for dfn in rd.local_defs(f, ln['d']):
            if dfn['rhs'] is not None:
                x = f.s(f.strip_casts(dfn['rhs']))
                if x['k'] == 'BinaryOperator' and x.get('op') == '-':
                    src = [f.path(x['ch'][0]), f.path(x['ch'][1])]
    ctx.ob('C06.R4', '%s|spill' % f.name, f.path(a['args'][0]) == 'extbuf' and src == ['rsize', 'writable_size'] and f.cfg.dominates(q.pt(f, [h for h in hw if f.path(h['args'][0]) == 'writable_size'][0]), q.pt(f, a)),
           'spill appended as (extbuf, rsize - writable_size) after committing the in-place part', where=f.loc(a['i']))
    inv = q.invokes(f, 'receive_cb_')
    ctx.ob('C06.R4', '%s|callback-arg' % f.name, bool(inv) and all(f.path(i['args'][0]) == 'recv_buff_' for i in inv), 'receive_cb_ is handed the member buffer (unconsumed bytes stay)', where=f.loc(f.body))
    for d in rb('hasReadAll'):
        g = [(c, br) for c, br in q.lexical_guards(f, d['i'])]
        ok = any((cond_mentions(f, c, 'receive_cb_') and br == 'else') or (cond_mentions(f, c, 'wp_receiver_') and br == 'then') for c, br in g)
        ctx.ob('C06.R4', '%s|discard' % f.name, ok, 'recv_buff_.hasReadAll() only when forwarding to a bound receiver or when no callback is set', where=f.loc(d['i']))
    # commit implies delivery decision: bytes committed to recv_buff_ reach the hand-over (bound receiver / threshold test) before the callback returns or reports anything else
    gates = [f.cfg.point_of(st['i']) for st in f.stmts if st and st['k'] in ('BinaryOperator', 'ImplicitCastExpr', 'MemberExpr') and
             (f.field_of(st['i']) or '').endswith('BufferedFd::wp_receiver_') and f.cfg.point_of(st['i']) is not None]
    gates += q.pts(f, inv)
    for h in hw + ap:
        filt = q.set_flag_filter(f, q.pt(f, h))       # a "got data" flag set before the commit is still set at every later test of it
        ok = bool(gates) and not f.cfg.exists_path(q.pt(f, h), 'exit', avoid=gates, edge_filter=filt)
        leak = ''
        if not ok:
            for kind in ('read_error_cb_', 'read_zero_cb_'):
                for i in q.invokes(f, kind):
                    if f.cfg.exists_path(q.pt(f, h), q.pt(f, i), avoid=gates, edge_filter=filt):
                        leak = ' (it reaches %s at %s first)' % (kind, f.loc(i['i']))
        ctx.ob('C06.R4', '%s|commit-then-handover@%s' % (f.name, f.loc(h['i']).split(':')[-1]), ok, 'every path from this commit reaches the hand-over of recv_buff_' if ok else
               'bytes committed to recv_buff_ here can leave onReadCallback without the hand-over step%s: data that arrived in the same wake-up as an error or close is never '
               'presented to the receive callback' % leak, where=f.loc(h['i']))
    for i in q.invokes(f, 'read_zero_cb_'):
        ok = any(cond_mentions(f, c, 'rsize') and f.s(f.strip_casts(c)).get('op') == '==' and br == 'then' and f.s(f.strip_casts(f.s(f.strip_casts(c))['ch'][1])).get('cv') == 0 for c, br in q.lexical_guards(f, i['i']))
        ctx.ob('C06.R4', '%s|read-zero' % f.name, ok, 'read_zero_cb_ only under rsize == 0', where=f.loc(i['i']))


def r5(ctx, prog):
    ctx.rule('C06.R5', 'A6 where-may-delete: at the sites that run inside the object\'s own callbacks, connection / buffered-fd / event objects are '
                       'destroyed only by a task deferred to the loop, after the member pointer was taken out (swap / cabinet free)', floor=8)
    for name in DEFERRED_SITES:
        f = prog.fn1(name)
        fam = prog.family(f)
        direct = [st for st in f.stmts if st and st['k'] == 'CXXDeleteExpr' and any(t in st.get('cdt', '') for t in GUARDED_TYPES)]
        lams = own.deferred_lambdas(prog, [f])
        deferred = []
        for ff, lam, call in lams:
            lf = prog.lambda_func(ff, lam)
            if lf and any(st and st['k'] == 'CXXDeleteExpr' for st in lf.stmts):
                origins = [own.capture_origin(f, c['d']) for c in lam.get('caps', ()) if not c.get('this') and own.pointee(c.get('ct', ''))]
                deferred.append((lam, origins))
        ok = not direct and bool(deferred) and all(all(o in own.OWNED for o in origins) and origins for lam, origins in deferred)
        ctx.ob('C06.R5', '%s|deferred-delete' % name, ok,
               'destroys through %d deferred task(s); captured pointers taken out by %s' % (len(deferred), sorted({o for l, os_ in deferred for o in os_})) if ok else
               ('synchronous delete of a %s at %s' % (direct[0].get('cdt'), f.loc(direct[0]['i'])) if direct else
                'no deferred delete found, or the deferred task captures a pointer that is still registered (%s)' % [os_ for l, os_ in deferred]), where=f.loc(f.body))


def r10(ctx, prog):
    ctx.rule('C06.R10', 'A10 result trichotomy and thresholds by folding: every test of a read()/write() result in BufferedFd splits {-1, 0, 1, 2} as "data" (>= 1), "end of '
             'stream" (== 0) or "error" (< 0) — bytes are committed and the drain loop continues exactly on >= 1, the close is reported exactly on 0; readv() is given as '
             'many iovecs as the array holds; the receive callback is due exactly when readable >= threshold; enable() arms the write event exactly when something is '
             'queued; a write result >= 0 is consumed', floor=6)
    f = prog.fn1(B + '::onReadCallback')
    w = prog.fn1(B + '::onWriteCallback')
    en = prog.fn1(B + '::enable')
    DOM = (-1, 0, 1, 2)
    def vec(g, cond, k, var):
        is_v = lambda sx: (sx['k'] == 'DeclRefExpr' and sx.get('n') == var) or \
            (sx['k'] == 'BinaryOperator' and sx.get('op') == '=' and (g.s(g.strip_casts(sx['ch'][0])) or {}).get('n') == var)
        if not any(is_v(g.stmts[x]) for x in g.walk(cond)):
            fc = q.flag_cond(g, cond)      # `const bool got = rsize > 0; if (got)`: the test says what the initialiser said
            if fc is not None and any(is_v(g.stmts[x]) for x in g.walk(fc[0])):
                return vec(g, fc[0], (1 - k) if fc[1] else k, var)
            return None
        out = []
        for v in DOM:
            r = q.eval_expr(g, cond, lambda sx, v=v: v if is_v(sx) else None, signed=True)
            if r is None:
                return None
            out.append(bool(r) == (k == 0))
        return tuple(out)
    DATA, ZERO, ERR = (False, False, True, True), (False, True, False, False), (True, False, False, False)
    NOT = lambda t: tuple(not x for x in t)
    LEGAL = {DATA, ZERO, ERR, NOT(DATA), NOT(ZERO), NOT(ERR)}
    n = 0
    for g, var in ((f, 'rsize'), (w, 'wsize')):
        for blk in g.cfg.blocks.values():
            if blk.cond is None:
                continue
            v = vec(g, blk.cond, 0, var)
            if v is None:
                continue
            n += 1
            ctx.ob('C06.R10', '%s|%s-test@%s' % (g.short, var, g.loc(blk.cond).split(':')[-1]), v in LEGAL, 'splits the result at one of -1|0, 0|1' if v in LEGAL else
                   'the test of %s does not separate "error" (< 0), "end of stream" (0) and "data" (>= 1): truth for -1, 0, 1, 2 is %s — a one-byte read is taken for an error, or '
                   'end of stream for data' % (var, v), where=g.loc(blk.cond))
    # commits and the drain loop only on data
    rb = lambda fn: [st for st in f.calls() if st.get('fn') == fn and 'obj' in st and (f.field_of(st['obj']) or '').endswith('BufferedFd::recv_buff_')]
    for h in rb('hasWritten') + rb('append'):
        vs = [vec(f, c, k, 'rsize') for c, k, b in f.cfg.controlling_branches(q.pt(f, h))]
        vs = [v for v in vs if v is not None]
        ok = any(v == DATA for v in vs)
        ctx.ob('C06.R10', 'onReadCallback|commit-on-data@%s' % f.loc(h['i']).split(':')[-1], ok, 'bytes are committed only under rsize >= 1' if ok else
               'bytes are committed to recv_buff_ without an rsize >= 1 edge in force', where=f.loc(h['i']))
    loops = [st for st in f.stmts if st and st['k'] in ('DoStmt', 'WhileStmt') and st.get('cond') is not None and any(h['i'] in set(f.walk(st['i'])) for h in rb('hasWritten'))]
    for lp in loops:
        v = vec(f, lp['cond'], 0, 'rsize')
        ctx.ob('C06.R10', 'onReadCallback|drain-while-data', v == DATA, 'the drain loop goes on exactly while a read returned >= 1 byte' if v == DATA else
               'the drain loop goes on for results %s of -1, 0, 1, 2: it spins at end of stream, or stops with a byte read but not committed' % (v,), where=f.loc(lp['cond']))
    for i in q.invokes(f, 'read_zero_cb_'):
        vs = [vec(f, c, k, 'rsize') for c, k, b in f.cfg.controlling_branches(q.pt(f, i))]
        ok = any(v == ZERO for v in vs if v is not None)
        ctx.ob('C06.R10', 'onReadCallback|close-on-zero', ok, 'the peer close is reported exactly on rsize == 0' if ok else 'read_zero_cb_ is not under an rsize == 0 edge', where=f.loc(i['i']))
    # readv(iov, cnt): cnt == number of elements of the iovec array
    for c in f.calls():
        if c.get('fn') == 'readv' and len(c.get('args', [])) == 2:
            a0 = f.s(f.strip_casts(c['args'][0]))
            cnt = (f.s(c['args'][1]) or {}).get('cv')
            arr = None
            for st in f.stmts:
                if st and st['k'] == 'DeclStmt':
                    for d in st['decls']:
                        if a0 is not None and d.get('d') == a0.get('d'):
                            import re
                            m = re.search(r'\[(\d+)\]', d.get('ct') or d.get('t') or '')
                            arr = int(m.group(1)) if m else None
            n += 1
            ctx.ob('C06.R10', 'onReadCallback|iov-count@%s' % f.loc(c['i']).split(':')[-1], arr is not None and cnt == arr, 'readv() is given the %s elements of its iovec array' % arr if arr is not None and cnt == arr else
                   'readv() is told %s iovecs, the array has %s' % (cnt, arr), where=f.loc(c['i']))
    # threshold
    for blk in f.cfg.blocks.values():
        if blk.cond is not None and any(x.endswith('receive_threshold_') for x in q.subtree_fields(f, blk.cond)):
            bad = []
            for size in range(0, 4):
                for thr in range(0, 4):
                    r = q.eval_expr(f, blk.cond, lambda sx, size=size, thr=thr: thr if (sx['k'] == 'MemberExpr' and sx.get('n') == 'receive_threshold_') else
                                    (size if (sx['k'] in q.CALL_KINDS and sx.get('fn') == 'readableSize') else None))
                    if r is None or bool(r) != (size >= thr):
                        bad.append((size, thr))
            n += 1
            ctx.ob('C06.R10', 'onReadCallback|threshold', not bad, 'the receive callback is due exactly when readable >= threshold' if not bad else
                   'with %d readable byte(s) and a threshold of %d the callback is %s' % (bad[0][0], bad[0][1], 'withheld' if bad[0][0] >= bad[0][1] else 'invoked early'), where=f.loc(blk.cond))
    # enable(): arm iff queued
    for c in wev(en, 'enable'):
        for cond, k, b in en.cfg.controlling_branches(q.pt(en, c)):
            if any(st.get('fn') == 'readableSize' for st in q.subtree_calls(en, cond)):
                bad = [v for v in range(0, 4) if (bool(q.eval_expr(en, cond, lambda sx, v=v: v if (sx['k'] in q.CALL_KINDS and sx.get('fn') == 'readableSize') else None)) == (k == 0)) != (v >= 1)]
                n += 1
                ctx.ob('C06.R10', 'enable|arm-iff-queued', not bad, 'enable() arms the write event exactly when at least one byte is queued' if not bad else
                       'with %d byte(s) queued before enable() the write event is %s: the bytes sent before the descriptor was enabled never leave' % (bad[0], 'not armed' if bad[0] >= 1 else 'armed'),
                       where=en.loc(cond))
    if n < 6:
        raise AnalysisBroken('expected >= 6 result/threshold tests in BufferedFd, found %d' % n)


def r11(ctx, prog):
    ctx.rule('C06.R11', 'A6 who may report the peer\'s close: TcpConnection::onSocketClosed — which tears the connection down and reports "disconnected" — is reached only from the '
             'read side (bound as the read-zero callback, or called by the handler bound as the read-error callback): only a read that returned 0 or failed knows that everything '
             'the peer sent before has been delivered; a write error says nothing about bytes still waiting in the socket', floor=2)
    TC = 'tbox::network::TcpConnection'
    closed = prog.fn1(TC + '::onSocketClosed')
    READ_SETTERS = ('setReadZeroCallback', 'setReadErrorCallback')
    # handlers that reach onSocketClosed
    reach = {closed.usr: closed}
    for g in prog.methods_of(TC):
        if any(c.get('usr') == closed.usr for c in g.calls()):
            reach[g.usr] = g
    n = 0
    for g in prog.funcs.values():
        if prog.outermost(g).cls != TC:
            continue
        for c in g.calls():
            if not (c.get('fn') or '').startswith('set') or not (c.get('fn') or '').endswith('Callback'):
                continue
            bound = {g.stmts[x].get('usr') for a in c.get('args', []) for x in g.walk(a) if g.stmts[x]['k'] == 'DeclRefExpr' and g.stmts[x].get('dk') == 'CXXMethod'}
            for u in bound & set(reach):
                n += 1
                ok = c['fn'] in READ_SETTERS
                ctx.ob('C06.R11', '%s->%s' % (c['fn'], reach[u].short), ok, '%s leads to onSocketClosed: a read-side notification' % c['fn'] if ok else
                       '%s is bound to %s, which reaches onSocketClosed(): the connection is reported closed and destroyed on an event that is not a read of 0 / a read error — data the '
                       'peer sent before it closed is still in the socket and is never delivered' % (c['fn'], reach[u].short), where=g.loc(c['i']))
    # direct callers other than the bound handlers
    for u, g in reach.items():
        if g is closed:
            continue
        bound_somewhere = any(u in {h.stmts[x].get('usr') for a in c.get('args', []) for x in h.walk(a) if h.stmts[x]['k'] == 'DeclRefExpr'}
                              for h in prog.funcs.values() if prog.outermost(h).cls == TC for c in h.calls() if (c.get('fn') or '').endswith('Callback'))
        if not bound_somewhere:
            n += 1
            ctx.ob('C06.R11', '%s->onSocketClosed' % g.short, False, '%s() calls onSocketClosed() and is not one of the read-side handlers' % g.short, where=g.loc(g.body))
    if n < 2:
        raise AnalysisBroken('expected the read-zero and read-error registrations leading to onSocketClosed, found %d' % n)


def r16(ctx, prog):
    from tbxlint import shared
    classes = [N + c for c in ('BufferedFd', 'TcpConnection', 'TcpServer', 'TcpClient', 'TcpConnector', 'TcpAcceptor')] + ['tbox::util::Buffer']
    shared.rule(ctx, prog, 'C06.R16', 'A6 no state shared between descriptors behind their back: no method of BufferedFd, TcpConnection, TcpServer, TcpClient, TcpConnector, TcpAcceptor or '
                'util::Buffer keeps a mutable function-local static (a scratch area, a counter), and the classes have no mutable static data member or file-scope variable: two '
                'descriptors served by loops in different threads would read and write it at the same time and see each other\'s bytes', classes,
                ['network/buffered_fd.cpp', 'network/tcp_connection.cpp', 'network/tcp_server.cpp', 'network/tcp_client.cpp', 'util/buffer.cpp'], {}, 20)


def run(ctx):
    prog = extract('ALL' if ctx.tier == 'thorough' else SCOPE)
    ctx.guard(r1, ctx, prog)
    ctx.guard(r2, ctx, prog)
    ctx.guard(r3, ctx, prog)
    ctx.guard(r4, ctx, prog)
    ctx.guard(r5, ctx, prog)
    ctx.guard(r10, ctx, prog)
    ctx.guard(r11, ctx, prog)
    ctx.guard(C06_relay.r12, ctx, prog)
    ctx.guard(C06_relay.r13, ctx, prog)
    ctx.guard(C06_relay.r14, ctx, prog)
    ctx.guard(C06_replay.r15, ctx, prog)
    ctx.guard(r16, ctx, prog)
    # the send queue and the receive buffer are util::Buffer objects: the byte stream is only in order / lossless if the buffer's
    # window arithmetic is right, so the Buffer rules of C07 are part of this check as well (ids C06.B1..B4)
    from rules import C07
    from tbxlint.report import RuleAlias
    actx = RuleAlias(ctx, 'C07.R', 'C06.B')
    from rules import C07_replay
    for g in (C07.r1_invariant, C07.r2_copies, C07.r3_post, C07.r4_independence, C07.r5_commit_after_alloc, C07.r6_primitives, C07.r7_no_wrap, C07_replay.r8):
        ctx.guard(g, actx, prog)
    return prog
