"""C15 — DNS client (DESIGN §4 C15)."""
from tbxlint.facts import extract, AnalysisBroken, MODULES
from tbxlint import ival, harden, tmon, locks, q, exc, rd, reent

DNS = 'tbox::network::DnsRequest'
DES = 'tbox::util::Deserializer'
SCOPE = ['network/dns_request.cpp', 'util/serializer.cpp', 'network/udp_socket.cpp', 'util/string.cpp']
FETCHERS = ('fetch', 'fetchPOD')


def parse_funcs(prog):
    """onUdpRecv and the file-local helpers it reaches in dns_request.cpp"""
    f = prog.fn1(DNS + '::onUdpRecv')
    out = [g for g in q.transitive_callees(prog, f, within=lambda h: h.file.endswith('network/dns_request.cpp'))]
    return f, out


def extractions(f):
    """(call stmt, target decl id, target stmt, kind) for every value read from a Deserializer into a local"""
    out = []
    for st in f.stmts:
        if not st or st['k'] not in q.CALL_KINDS:
            continue
        kind = None
        args = st.get('args', [])
        if st.get('op') == '>>' and args and 'Deserializer' in (f.s(args[0]).get('ct') or f.s(args[0]).get('t') or ''):
            kind = 'op>>'
            tg = args[1:]
        elif st.get('cls') == DES and st.get('fn') in FETCHERS and args:
            kind = 'fetch'
            tg = args[:1]
        if not kind:
            continue
        for a in tg:
            x = f.s(f.strip_casts(a))
            if x and x['k'] == 'DeclRefExpr' and x.get('dk') == 'Var' and 'Endian' not in (x.get('t') or ''):
                out.append((st, x['d'], x, kind))
    return out


def decl_of(f, d):
    for st in f.stmts:
        if st and st['k'] == 'DeclStmt':
            for dd in st['decls']:
                if dd.get('d') == d:
                    return dd, st
    return None, None


def r1(ctx, prog):
    ctx.rule('C15.R1', 'A9c: every local filled from the datagram has an initialiser (a failed, truncated read leaves its target untouched)', floor=10)
    f, fs = parse_funcs(prog)
    seen = set()
    for g in fs:
        for st, d, x, kind in extractions(g):
            if (g.key, d) in seen:
                continue
            seen.add((g.key, d))
            dd, ds = decl_of(g, d)
            if dd is None:
                continue
            ok = 'init' in dd
            if not ok:
                # acceptable alternative: every read into it is a status-returning fetch whose result is tested
                calls = [(c, k) for c, d2, x2, k in extractions(g) if d2 == d]
                ok = bool(calls) and all(k == 'fetch' and any(c['i'] in set(g.walk(b.cond)) for b in g.cfg.blocks.values() if b.cond is not None) for c, k in calls)
            ctx.ob('C15.R1', '%s|%s' % (g.name, dd['n']), ok,
                   '%s is initialised at its declaration' % dd['n'] if ok else
                   '%s %s is declared without an initialiser and filled by a read that leaves it untouched when the datagram is short' % (dd.get('t'), dd['n']),
                   where=g.loc(ds['i']))


def checked_by_guard(f, call, p):
    """is point p dominated by a guard whose condition contains `call` with the success polarity?"""
    for cond, k, b in f.cfg.controlling_branches(p):
        if call['i'] in set(f.walk(cond)):
            cs = f.s(f.strip_casts(cond))
            neg = False
            while cs and cs['k'] == 'UnaryOperator' and cs.get('op') == '!':
                neg = not neg
                cs = f.s(f.strip_casts(cs['ch'][0]))
            if (k == 0 and not neg) or (k == 1 and neg):
                return True
            # conjunctions `a && b` lower to nested branches: call on the true edge
            if cs and cs['k'] == 'BinaryOperator' and cs.get('op') == '&&' and k == 0:
                return True
    # status kept in a local flag: `ok = a.fetch(x) && ...; if (!ok) break/return;` — a dominating guard on the flag whose
    # reaching definitions all contain the call in a conjunction means the call succeeded
    for cond, k, b in f.cfg.controlling_branches(p):
        t = q.simple_test(f, cond)
        if t is None:
            continue
        decl, tag = t
        val = tag if k == 0 else ('z' if tag == 'nz' else 'nz')
        if val != 'nz':
            continue
        cp = f.cfg.point_of(cond)
        defs = rd.local_defs(f, decl)
        reach = rd.reaching(f, decl, cp) if cp else ()
        if not reach:
            continue
        good = True
        for i in reach:
            rhs = defs[i]['rhs']
            if rhs is None or call['i'] not in set(f.walk(rhs)):
                good = False
                break
            # the call must be a conjunct (only && above it, possibly the flag itself as first conjunct)
            inside = set(f.walk(rhs))
            for a in f.ancestors(call['i']):
                if a not in inside:
                    break
                sa = f.stmts[a]
                if sa['k'] == 'BinaryOperator' and sa.get('op') != '&&':
                    good = False
                if sa['k'] == 'UnaryOperator' and sa.get('op') == '!':
                    good = False
        if good:
            return True
    return False


def r2(ctx, prog):
    ctx.rule('C15.R2', 'A9d: what is reported comes from successful reads only: every datagram value that flows into the result '
                       '(addresses, names, label text) is control dependent on the success of the read that produced it', floor=2)
    f, fs = parse_funcs(prog)
    n = 0
    for g in fs:
        ex = extractions(g)
        by_decl = {}
        for st, d, x, kind in ex:
            by_decl.setdefault(d, []).append((st, kind))
        # sinks: push_back into the Result vectors, and stream insertion of a buffer filled from the datagram
        sinks = []
        for st in g.calls():
            if st.get('fn') in ('push_back', 'emplace_back') and 'obj' in st and any(g.path(st['obj']).endswith(x) for x in ('a_vec', 'cname_vec')):
                sinks.append(st)
            if st.get('op') == '<<' and st.get('args') and 'ostream' in (g.s(st['args'][0]).get('ct') or g.s(st['args'][0]).get('t') or ''):
                srcs = {g.stmts[x].get('d') for a in st['args'][1:] for x in g.walk(a) if g.stmts[x]['k'] == 'DeclRefExpr'}
                if srcs & set(by_decl):
                    sinks.append(st)
            # the same label text accumulated in a std::string (+=, append)
            if (st.get('op') == '+=' or st.get('fn') == 'append') and 'basic_string' in (st.get('cls') or ''):
                srcs = {g.stmts[x].get('d') for a in st.get('args', []) for x in g.walk(a) if g.stmts[x]['k'] == 'DeclRefExpr'}
                if srcs & set(by_decl):
                    sinks.append(st)
        for s_ in sinks:
            n += 1
            p = q.pt(g, s_)
            # wire locals feeding the sink (through one level of local initialisers)
            deps = set()
            work = [x for a in s_.get('args', []) for x in g.walk(a)]
            seen = set()
            while work:
                x = work.pop()
                sx = g.stmts[x]
                if sx['k'] == 'DeclRefExpr' and sx.get('dk') == 'Var' and sx.get('d') not in seen:
                    seen.add(sx['d'])
                    if sx['d'] in by_decl:
                        deps.add(sx['d'])
                    dd, ds = decl_of(g, sx['d'])
                    if dd and 'init' in dd:
                        work.extend(g.walk(dd['init']))
            bad = []
            for d in deps:
                for call, kind in by_decl[d]:
                    cp = q.pt(g, call)
                    if cp is None or not g.cfg.exists_path(cp, p):
                        continue
                    if kind == 'op>>' or not checked_by_guard(g, call, p):
                        dd, _ = decl_of(g, d)
                        bad.append('%s (read at %s, %s)' % (dd['n'] if dd else d, g.loc(call['i']), 'operator>> has no status' if kind == 'op>>' else 'fetch result ignored'))
            ctx.ob('C15.R2', '%s|report@%s' % (g.name, g.path(s_['obj']) if 'obj' in s_ else 'oss'), not bad,
                   'every contributing read is success-checked' if not bad else
                   'reported value depends on unchecked reads: ' + '; '.join(sorted(set(bad))[:4]), where=g.loc(s_['i']))
    if n < 2:
        raise AnalysisBroken('expected >=2 report sinks (a_vec, cname_vec), found %d' % n)


def _expand_names(f, e, depth=0):
    """names of the variables an expression depends on, single-definition locals replaced by what they are defined from"""
    out = set()
    for x in f.walk(e):
        sx = f.stmts[x]
        if sx['k'] != 'DeclRefExpr' or sx.get('dk') not in ('Var', 'ParmVar'):
            continue
        defs = rd.local_defs(f, sx['d']) if sx.get('dk') == 'Var' and not sx.get('gl') else []
        if len(defs) == 1 and defs[0]['kind'] == 'init' and defs[0]['rhs'] is not None and depth < 4 and \
                not any(f.stmts[y]['k'] in q.CALL_KINDS for y in f.walk(defs[0]['rhs'])) and (f.s(defs[0]['rhs']) or {}).get('cv') is None:
            out |= _expand_names(f, defs[0]['rhs'], depth + 1)
        else:
            out.add(sx.get('n'))
    return out


def fold_expanded(f, e, env, depth=0):
    """constant folding with env {name: value}; a single-definition local that is not in env stands for its initialiser"""
    def leaf(sx):
        if sx['k'] != 'DeclRefExpr':
            return None
        if sx.get('n') in env:
            return env[sx['n']]
        if sx.get('dk') == 'Var' and not sx.get('gl') and depth < 4:
            defs = rd.local_defs(f, sx['d'])
            if len(defs) == 1 and defs[0]['kind'] == 'init' and defs[0]['rhs'] is not None:
                return fold_expanded(f, defs[0]['rhs'], env, depth + 1)
        return None
    return q.eval_expr(f, e, leaf)


def reply_bit_test(f):
    """(condition, edge index on which the function returns) of `if (<something of flags only>) return;`"""
    for st in f.stmts:
        if st and st['k'] == 'IfStmt' and st.get('cond') is not None:
            if _expand_names(f, st['cond']) != {'flags'} or any(f.stmts[x]['k'] in q.CALL_KINDS for x in f.walk(st['cond'])):
                continue
            kids = [f.s(c) for c in st['ch']]
            for kid in kids:
                if kid is not None and (kid['k'] == 'ReturnStmt' or (kid['k'] == 'CompoundStmt' and len(kid['ch']) == 1 and (f.s(kid['ch'][0]) or {}).get('k') == 'ReturnStmt')):
                    return st['cond'], (0 if kid['i'] != st.get('else') else 1)
    return None


MAX_DEPTH = 1024


def r3(ctx, prog):
    ctx.rule('C15.R3', 'A9e: the compressed-name decoder\'s recursion is bounded by an explicit depth/hop test', floor=1)
    f, fs = parse_funcs(prog)
    n = 0
    for g in fs:
        for st in g.calls():
            if st.get('usr') == g.usr:
                n += 1
                rp = q.pt(g, st)
                ok = False
                for p_ in g.params:
                    if p_['ct'] in ('int', 'unsigned int', 'unsigned long', 'long', 'unsigned char', 'unsigned short', 'short'):
                        for cond, br in q.lexical_guards(g, st['i']):
                            if any(g.stmts[x].get('d') == p_['d'] for x in g.walk(cond) if g.stmts[x]['k'] == 'DeclRefExpr'):
                                ok = True
                        for cond, k, b in g.cfg.controlling_branches(rp):
                            if any(g.stmts[x].get('d') == p_['d'] for x in g.walk(cond) if g.stmts[x]['k'] == 'DeclRefExpr'):
                                ok = True
                        # the recursive argument must change the parameter
                        if ok:
                            ai = g.params.index(p_)
                            arg = g.s(g.strip_casts(st['args'][ai])) if ai < len(st.get('args', [])) else None
                            ok = arg is not None and arg['k'] in ('BinaryOperator',) and arg.get('op') in ('+', '-')
                # ... and the bound it is tested against is a small constant: every level holds a stream object and a label buffer on the stack
                big = None
                if ok:
                    for cond, k, b in g.cfg.controlling_branches(rp):
                        cs = g.s(g.strip_casts(cond))
                        for x in g.walk(cond):
                            sx = g.stmts[x]
                            if sx['k'] == 'BinaryOperator' and sx.get('op') in ('<', '<=', '>', '>=') and \
                                    any(g.stmts[y]['k'] == 'DeclRefExpr' and g.stmts[y].get('dk') == 'ParmVar' for y in g.walk(x)):
                                for side in sx['ch']:
                                    v = q.eval_expr(g, side, lambda s_: None)
                                    if v is not None and v > MAX_DEPTH:
                                        big = v
                if big is not None:
                    ctx.ob('C15.R3', '%s|recursion' % g.name, False, 'the recursion is bounded by %d levels, each holding a stream object and a label buffer on the stack: a chain of '
                           'compression pointers in one datagram still overflows the stack (bounds above %d are not accepted)' % (big, MAX_DEPTH), where=g.loc(st['i']))
                    continue
                ctx.ob('C15.R3', '%s|recursion' % g.name, ok,
                       'recursive call carries a counter that is tested and stepped' if ok else
                       '%s follows compression pointers by unbounded recursion: a pointer loop in the datagram recurses until the stack overflows' % g.short, where=g.loc(st['i']))
    if n == 0:
        ctx.ob('C15.R3', DNS + '|recursion', True, 'the name decoder is not recursive')


def r4(ctx, prog):
    ctx.rule('C15.R4', 'A12: the deserializer is bounds-checked: in every fetch/skip/fetchNoCopy the failed checkSize(k) return dominates all '
                       'reads, and k = number of bytes read = cursor increment', floor=7)
    n = 0
    for f in prog.methods_of(DES):
        if f.short not in ('fetch', 'fetchPOD', 'fetchNoCopy', 'skip'):
            continue
        n += 1
        cs = q.calls(f, callee=DES + '::checkSize')
        sig = f.params[0]['t'] if f.params else ''
        if len(cs) != 1:
            ctx.ob('C15.R4', '%s(%s)|checked' % (f.name, sig), False, 'expected exactly one checkSize() call, found %d' % len(cs), where=f.loc(f.body))
            continue
        c = cs[0]
        cp = q.pt(f, c)
        need = f.s(f.strip_casts(c['args'][0]))
        needv = need.get('cv')
        needp = f.path(c['args'][0])
        # all reads of start_ and writes of pos_ are guarded by the success edge
        acc = [st for st in q.field_refs(f, 'Deserializer::start_')] + [st for st in q.writes(f, 'Deserializer::pos_')]
        ok = True
        for a in acc:
            ap = q.pt(f, a)
            if ap is None:
                continue
            g = [(cond, k) for cond, k, b in f.cfg.controlling_branches(ap) if c['i'] in set(f.walk(cond))]
            good = False
            for cond, k in g:
                x = f.s(f.strip_casts(cond))
                neg = x['k'] == 'UnaryOperator' and x.get('op') == '!'
                good = good or (neg and k == 1) or (not neg and k == 0)
            ok = ok and good
        ctx.ob('C15.R4', '%s(%s)|guarded' % (f.name, sig), ok and bool(acc), 'every access to the buffer/cursor is on the success edge of checkSize', where=f.loc(c['i']))
        # increment agrees
        incs = [st for st in f.stmts if st and st['k'] in ('CompoundAssignOperator', 'UnaryOperator') and st.get('op') in ('+=', '++') and (f.field_of(st['ch'][0]) or '').endswith('pos_')]
        if incs:
            st = incs[0]
            iv = 1 if st['op'] == '++' else f.s(f.strip_casts(st['ch'][1])).get('cv')
            ip = None if st['op'] == '++' else f.path(st['ch'][1])
            ok2 = len(incs) == 1 and ((needv is not None and iv == needv) or (needv is None and ip == needp))
            ctx.ob('C15.R4', '%s(%s)|advance' % (f.name, sig), ok2, 'cursor advances by exactly the checked amount (%s vs %s)' % (iv if iv is not None else ip, needv if needv is not None else needp), where=f.loc(st['i']))
        # width agrees with the output type
        if needv is not None and f.params and f.params[0]['ct'].endswith('&'):
            width = {'unsigned char &': 1, 'unsigned short &': 2, 'unsigned int &': 4, 'unsigned long &': 8}.get(f.params[0]['ct'])
            subs = [f.s(f.strip_casts(x['ch'][1])).get('cv') for x in f.stmts if x and x['k'] == 'ArraySubscriptExpr']
            subs = [v for v in subs if v is not None]
            ok3 = width == needv and (not subs or max(subs) == needv - 1)
            ctx.ob('C15.R4', '%s(%s)|width' % (f.name, sig), ok3, 'checked size %s = sizeof(output) %s = highest byte index + 1 (%s)' % (needv, width, max(subs) + 1 if subs else '-'), where=f.loc(f.body))
    # checkSize / set_pos themselves, folded over a grid: k more bytes can be read exactly when pos + k <= size; a position is accepted exactly when pos < size
    for name, want in (('checkSize', lambda pos, k, size: pos + k <= size), ('set_pos', None)):
        for g in [m for m in prog.methods_of(DES) if m.short == name]:
            rets = q.returns(g)
            if name == 'checkSize' and len(rets) == 1 and rets[0].get('val') is not None:
                bad = []
                for size in range(0, 4):
                    for pos in range(0, size + 1):
                        for k in range(0, 4):
                            v = q.eval_expr(g, rets[0]['val'], lambda sx, pos=pos, k=k, size=size: pos if (sx['k'] == 'MemberExpr' and sx.get('n') == 'pos_') else
                                            (size if (sx['k'] == 'MemberExpr' and sx.get('n') == 'size_') else (k if (sx['k'] == 'DeclRefExpr' and sx.get('dk') == 'ParmVar') else None)))
                            if v is None or bool(v) != want(pos, k, size):
                                bad.append((pos, k, size))
                ctx.ob('C15.R4', '%s|exact' % g.name, not bad, 'checkSize(k) answers exactly pos + k <= size' if not bad else
                       'checkSize(%d) with the cursor at %d of %d byte(s) answers %s: %s' % (bad[0][1], bad[0][0], bad[0][2], 'no' if want(*bad[0]) else 'yes',
                                                                                             'the last byte of a datagram cannot be read' if want(*bad[0]) else 'a read past the end is allowed'), where=g.loc(rets[0]['i']))
    if n < 7:
        raise AnalysisBroken('expected >=7 Deserializer readers, found %d' % n)
    sp = prog.fn1(DES + '::set_pos')
    w = q.writes(sp, 'Deserializer::pos_')
    ok = bool(w) and all(any(q.edge_says(sp, c, k, lambda l: l == sp.params[0]['n'], ('<', '<='), lambda r: r.endswith('size_'))
                             for c, k, b in sp.cfg.controlling_branches(q.pt(sp, x_))) for x_ in w)
    ctx.ob('C15.R4', '%s|range' % sp.name, ok, 'set_pos only accepts pos < size_', where=sp.loc(sp.body))


def r5(ctx, prog):
    ctx.rule('C15.R5', 'A4+A12: complete-then-erase: the lookup callback is invoked only for a pending request (findRequest != null) and the request '
                       'is deleted on every path after it; "wait for the other servers" returns without completing; cancel only erases', floor=6)
    for n in ('onUdpRecv', 'onRequestTimeout'):
        f = prog.fn1(DNS + '::' + n)
        finds = q.calls(f, callee=DNS + '::findRequest')
        dels = q.calls(f, callee=DNS + '::deleteRequest')
        invs = q.invokes(f, 'Request::cb')
        if len(finds) != 1 or not invs:
            raise AnalysisBroken('%s: findRequest/invoke of Request::cb missing' % f.name)
        reqd = None
        for st in f.stmts:
            if st and st['k'] == 'DeclStmt':
                for d in st['decls']:
                    if 'init' in d and finds[0]['i'] in set(f.walk(d['init'])):
                        reqd = d['d']
        for i in invs:
            ip = q.pt(f, i)
            from rules.C14 import null_guarded
            ctx.ob('C15.R5', '%s|invoke-if-pending' % f.name, reqd is not None and null_guarded(f, ip, reqd), 'callback invoked only when findRequest() found the id', where=f.loc(i['i']))
            ctx.ob('C15.R5', '%s|erase-after' % f.name, q.must_follow(f, ip, q.pts(f, dels)) and all(f.path(d['args'][0]) == f.path(finds[0]['args'][0]) for d in dels),
                   'deleteRequest(same id) on every path after the callback', where=f.loc(i['i']))
            ctx.ob('C15.R5', '%s|once' % f.name, not f.cfg.exists_path(ip, ip), 'the invoke is not in a loop', where=f.loc(i['i']))
        # no use of the Request record after the callback (the callback may cancel/erase it): deleteRequest re-resolves by id
        if reqd is not None:
            bad = [u for u in f.stmts if u and u['k'] == 'DeclRefExpr' and u.get('d') == reqd and any(
                u['i'] not in set(f.walk(i['i'])) and q.pt(f, u) and f.cfg.exists_path(q.pt(f, i), q.pt(f, u)) for i in invs)]
            ctx.ob('C15.R5', '%s|no-stale-record' % f.name, not bad, 'the Request record is not touched after the user callback', where=f.loc(f.body))
    f = prog.fn1(DNS + '::onUdpRecv')
    inc = q.writes(f, 'Request::response_count')
    ok = False
    for w in inc:
        wp = q.pt(f, w)
        # a return reachable from the increment without passing the invoke, guarded by response_count < servers
        for r in q.returns(f):
            if f.cfg.exists_path(wp, q.pt(f, r), avoid=q.pts(f, q.invokes(f, 'Request::cb'))):
                g = [c for c, br in q.lexical_guards(f, r['i']) if any(x.endswith('response_count') for x in q.subtree_fields(f, c))]
                ok = ok or bool(g)
    ctx.ob('C15.R5', '%s|wait-others' % f.name, ok, 'server-failure replies return without completing while other servers are outstanding', where=f.loc(f.body))
    c = prog.fn1(DNS + '::cancel')
    ctx.ob('C15.R5', '%s|cancel-erases' % c.name, bool(q.calls(c, callee=DNS + '::deleteRequest')) and not q.invokes(c), 'cancel only erases', where=c.loc(c.body))
    # the registry itself: a lookup that got an id is registered (record stored with its callback, deadline armed, socket listening), and deleteRequest erases what it finds
    rq = [g for g in prog.fn(DNS + '::request') if any(c.get('fn') == 'send' for c in g.calls())]
    ad = prog.fn1(DNS + '::addRequest')
    de = prog.fn1(DNS + '::deleteRequest')
    if rq:
        g = rq[0]
        adds = q.calls(g, callee=DNS + '::addRequest')
        idrets = [r for r in q.returns(g) if r.get('val') is not None and (g.s(g.strip_casts(r['val'])) or {}).get('k') == 'DeclRefExpr' and (g.s(g.strip_casts(r['val'])) or {}).get('dk') == 'Var']
        okr = bool(adds) and bool(idrets) and all(any(g.cfg.dominates(q.pt(g, a), q.pt_or_term(g, r)) for a in adds) for r in idrets)
        ctx.ob('C15.R5', '%s|registers' % g.name, okr, 'every return of a request id is preceded by addRequest()' if okr else
               'request() hands out an id without registering the lookup: neither a reply nor the time-out ever reaches its callback', where=g.loc(g.body))
    if rq:
        # the id under which the lookup is stored is not one of an outstanding lookup: it comes from a counter that only counts up, or it is looked up in requests_ first
        g = rq[0]
        idv = None
        for a in q.calls(g, callee=DNS + '::addRequest'):
            x = g.s(g.strip_casts(a['args'][0])) if a.get('args') else None
            if x is not None and x['k'] == 'DeclRefExpr' and x.get('dk') == 'Var':
                idv = x
        fresh, how = False, 'the id handed to addRequest() was not found'
        if idv is not None:
            defs = rd.local_defs(g, idv['d'])
            counter = [d for d in defs if d['rhs'] is not None and (g.s(g.strip_casts(d['rhs'])) or {}).get('k') == 'UnaryOperator' and (g.s(g.strip_casts(d['rhs'])) or {}).get('op') == '++' and
                       g.field_of((g.s(g.strip_casts(d['rhs'])) or {}).get('ch', [None])[0])]
            probed = [c for c in g.calls() if c.get('fn') in ('find', 'count', 'findRequest') and (c.get('obj') is None or (g.field_of(c['obj']) or '').endswith('requests_')) and
                      any(g.stmts[y]['k'] == 'DeclRefExpr' and g.stmts[y].get('d') == idv['d'] for a_ in c.get('args', []) for y in g.walk(a_))]
            if defs and len(counter) == len(defs):
                fresh, how = True, 'ids come from a counter that only counts up (%s)' % g.path(g.s(g.strip_casts(counter[0]['rhs']))['ch'][0])
            elif probed:
                fresh, how = True, 'the drawn id is looked up in requests_ before it is used'
            else:
                how = 'the id is neither taken from a counter that only counts up nor looked up in requests_ before use'
        ctx.ob('C15.R5', '%s|fresh-id' % g.name, fresh, how if fresh else
               '%s: two outstanding lookups can get the same id, the later one overwrites the earlier record — the earlier callback is never invoked and its reply completes the wrong '
               'lookup' % how, where=g.loc(g.body))
    store = [st for st in ad.stmts if st and st['k'] in ('BinaryOperator', 'CXXOperatorCallExpr') and st.get('op') == '=' and 'requests_' in ad.path(st['ch'][0] if st['k'] == 'BinaryOperator' else st.get('obj', -1))] + \
            [c for c in ad.calls() if c.get('fn') in ('emplace', 'insert') and c.get('obj') is not None and (ad.field_of(c['obj']) or '').endswith('requests_')]
    cbset = [a for a, rhs in q.assigns(ad, 'Request::cb')]
    tadd = [c for c in ad.calls() if c.get('fn') == 'add' and c.get('obj') is not None and (ad.field_of(c['obj']) or '').endswith('timeout_monitor_')]
    lis = [c for c in ad.calls() if c.get('fn') == 'enable' and c.get('obj') is not None and (ad.field_of(c['obj']) or '').endswith('udp_')]
    allp = lambda xs: bool(xs) and not ad.cfg.exists_path(ad.cfg.entry_point(), 'exit', avoid=q.pts(ad, xs), src_inclusive=True)
    oka = allp(store) and allp(cbset) and allp(tadd) and bool(lis) and (not store or not cbset or all(any(ad.cfg.dominates(q.pt(ad, c_), q.pt(ad, s_)) for c_ in cbset) for s_ in store))
    ctx.ob('C15.R5', '%s|complete' % ad.name, oka, 'addRequest stores the record with its callback, arms the deadline and has the socket listening' if oka else
           'addRequest does not on every path %s' % ', '.join(w for w, okx in (('store the record in requests_', allp(store)), ('set the callback before storing', allp(cbset)),
                                                                              ('arm the deadline (timeout_monitor_.add)', allp(tadd)), ('enable the socket for the first request', bool(lis))) if not okx),
           where=ad.loc(ad.body))
    ers = [c for c in de.calls() if c.get('fn') == 'erase' and c.get('obj') is not None and (de.field_of(c['obj']) or '').endswith('requests_')]
    trues = [r for r in q.returns(de) if q.return_const(de, r) == 1]
    okd = bool(ers) and bool(trues) and all(any(de.cfg.dominates(q.pt(de, e), q.pt_or_term(de, r)) for e in ers) for r in trues)
    ctx.ob('C15.R5', '%s|erases' % de.name, okd, 'deleteRequest erases the record it found before reporting success' if okd else
           'deleteRequest reports success without erasing the record: a duplicate reply (or the time-out after a reply) invokes the callback a second time', where=de.loc(de.body))
    # non-reply packets and unknown ids return before any parsing side effect
    parse_calls = [st for st in f.calls() if st.get('callee', '').endswith('FetchDomain')]
    rb = reply_bit_test(f)
    rbp = f.cfg.point_of(rb[0]) if rb else None
    ok = rbp is not None and all(f.cfg.dominates(rbp, q.pt(f, p_)) for p_ in parse_calls) and \
        all(f.cfg.dominates(q.pt(f, q.calls(f, callee=DNS + '::findRequest')[0]), q.pt(f, p_)) for p_ in parse_calls)
    ctx.ob('C15.R5', '%s|reject-first' % f.name, ok, 'id lookup and the reply-bit test dominate all record parsing', where=f.loc(f.body))


def r6(ctx, prog):
    ctx.rule('C15.R6', 'A8: no exception escapes onUdpRecv / onRequestTimeout', floor=1)
    entries = [prog.fn1(DNS + '::onUdpRecv'), prog.fn1(DNS + '::onRequestTimeout')]
    eng = exc.ExcEngine(prog, follow=lambda g: g.file.startswith(MODULES + '/network/') or g.file.startswith(MODULES + '/util/'))
    prove = exc.chain_provers(exc.prove_string_pos, rd.prove_string_pos_rd, exc.prove_index_guard, exc.prove_find_guard)
    findings = eng.scan(entries, prove)
    seen = set()
    for fd in findings:
        f, st = fd['func'], fd['stmt']
        key = '%s|%s|%s' % (f.name, fd['label'], fd['path'])
        if key in seen:
            continue
        seen.add(key)
        ctx.ob('C15.R6', key, False, '%s may throw %s on the chain %s' % (fd['label'], '/'.join(fd['types']), ' -> '.join(fd['chain'][-4:])), where=f.loc(st['i']))
    ctx.ob('C15.R6', DNS + '|scanned', True, '%d functions, %d may-throw sites on the datagram path, all discharged: %s' % (eng.functions, eng.sites, [p[2] for p in eng.proofs][:6]))
    if eng.functions < 5:
        raise AnalysisBroken('datagram path call graph too small (%d functions)' % eng.functions)


def r10(ctx, prog):
    ctx.rule('C15.R10', 'A9b+A6 the datagram handed to the parser is what was received into the buffer, and the result reported belongs to this datagram alone: the length passed to the '
             'receive callback is bounded by the receive buffer (no MSG_TRUNC/MSG_PEEK length without a clamp), and the Result given to the user is an object of this activation '
             '(or a member cleared on every entry)', floor=2)
    U = 'tbox::network::UdpSocket'
    f = prog.fn1(U + '::onSocketEvent')
    rc = [c for c in f.calls() if c.get('fn') in ('recvFrom', 'recvfrom', 'recv') and len(c.get('args', ())) >= 3]
    inv = q.invokes(f, 'recv_cb_')
    if not rc or not inv:
        raise AnalysisBroken('UdpSocket::onSocketEvent: receive call / recv_cb_ invocation not found')
    r0 = rc[0]
    bufsz = ival.interval(f, r0['args'][1], q.pt(f, r0))
    flags = (f.s(f.strip_casts(r0['args'][2])) or {}).get('cv')
    for i in inv:
        ln = i['args'][1] if len(i.get('args', ())) > 1 else None
        ok = False
        why = ''
        if flags is not None and (flags & (0x20 | 0x02)) == 0:
            # plain receive: the return value never exceeds the length asked for
            lv = f.s(f.strip_casts(ln)) if ln is not None else None
            from tbxlint import rd as _rd
            src_ok = lv is not None and lv['k'] == 'DeclRefExpr' and any(d['rhs'] is not None and r0['i'] in set(f.walk(d['rhs'])) for d in _rd.local_defs(f, lv['d']))
            ok, why = src_ok, 'length is the return value of a plain receive into the buffer (flags %d)' % flags
        if not ok and ln is not None and bufsz is not None:
            from tbxlint import absint
            it = absint.Interp(f).run()
            env = it.at(i['i'])
            iv = it.arith(env, ln) if env is not None else None
            if iv is not None and iv[1] <= bufsz[1]:
                ok, why = True, 'length is at most %d where the callback is invoked (interval abstract interpretation: clamp / guard)' % iv[1]
        ctx.ob('C15.R10', '%s|length-within-buffer' % f.name, ok, why if ok else
               'the length handed to the receive callback is the return value of a receive with flags %s (MSG_TRUNC/MSG_PEEK make it the size of the whole datagram) and is not '
               'clamped to the %s-byte buffer: the parser reads past the stack buffer' % (hex(flags) if flags is not None else '?', bufsz[1] if bufsz else '?'), where=f.loc(i['i']))
    g = prog.fn1(DNS + '::onUdpRecv')
    for i in [x for x in q.invokes(g) if 'cb' in g.path(x['obj'])]:
        a = i['args'][0] if i.get('args') else None
        ap = q.canon_path(g, g.path(a)) if a is not None else '?'
        root = ap.split('.')[0]
        is_local = any(d.get('n') == root and not (d.get('t') or '').rstrip().endswith('&') and not d.get('static') for st in g.stmts if st and st['k'] == 'DeclStmt' for d in st['decls'])
        ok = is_local
        why = 'the Result reported is a local of this call'
        if not ok:
            # a member: every vector it carries must be cleared on every path before anything is appended to it
            pushes = [c for c in g.calls() if c.get('fn') in ('push_back', 'emplace_back') and q.canon_path(g, g.path(c.get('obj'))).startswith(ap + '.')]
            clears = [c for c in g.calls() if c.get('fn') == 'clear' and q.canon_path(g, g.path(c.get('obj'))).startswith(ap + '.')] + \
                     [a_ for a_, rhs in q.assigns(g, root.split('.')[-1])]
            ok = bool(clears) and all(not g.cfg.exists_path(g.cfg.entry_point(), q.pt(g, p_), avoid=q.pts(g, clears)) for p_ in pushes)
            why = 'member scratch cleared on every path before it is filled'
        ctx.ob('C15.R10', '%s|fresh-result' % g.name, ok, why if ok else
               'the Result handed to the lookup callback is %s, which outlives this datagram and is not cleared on entry: records decoded from an earlier (dropped) datagram '
               'are reported as answers of this one' % ap, where=g.loc(i['i']))


def r11(ctx, prog):
    ctx.rule('C15.R11', 'A9d error discipline: no status of the deserializer is dropped on the datagram path — every bool-returning Deserializer call (fetch*, skip, set_pos, '
             'checkSize) has its result used (condition, return value, assignment, operand), never discarded', floor=6)
    f, fs = parse_funcs(prog)
    n = 0
    for g in fs:
        for st in g.calls():
            if st.get('cls') != DES or st.get('fn') not in ('fetch', 'fetchPOD', 'skip', 'set_pos', 'checkSize', 'fetchNoCopy'):
                continue
            if (st.get('ct') or st.get('t') or '') not in ('bool', '_Bool'):
                continue
            n += 1
            par = g.s(g.parent.get(st['i']))
            while par is not None and par['k'] in ('ExprWithCleanups', 'ParenExpr'):
                par = g.s(g.parent.get(par['i']))
            # discarded: the call is a statement of a compound / a for-increment / the body of an if/loop
            discarded = par is None or par['k'] in ('CompoundStmt',) or \
                (par['k'] in ('IfStmt', 'ForStmt', 'WhileStmt', 'DoStmt', 'CXXForRangeStmt') and st['i'] != par.get('cond') and st['i'] not in set(g.walk(par.get('cond', -1)) if par.get('cond') is not None else ())) or \
                (par['k'] == 'CStyleCastExpr' and 'void' in (par.get('t') or ''))
            ctx.ob('C15.R11', '%s|%s@%s' % (g.name, st['fn'], g.loc(st['i']).split(':')[-1]), not discarded, 'result of %s() is used' % st['fn'] if not discarded else
                   'the result of Deserializer::%s() is discarded: when it fails (position/size out of range) parsing goes on from wherever the cursor is, and bytes that are not '
                   'records are reported as answers' % st['fn'], where=g.loc(st['i']))
    if n < 6:
        raise AnalysisBroken('expected >= 6 status-returning Deserializer calls on the datagram path, saw %d' % n)


def r12(ctx, prog):
    ctx.rule('C15.R12', 'A11 wire-format conformance with RFC 1035 §4.1, by finite-domain evaluation of the parser\'s own expressions: the reply test is "QR bit (0x8000) set", '
             'the response code is the low four bits and 0 means success, a label length of 0 ends a name, the two top bits set mark a compression pointer whose target is '
             '((len & 0x3f) << 8) | next byte, and the question / answer loops run exactly QDCOUNT / ANCOUNT times — each decided by folding the expression found in the '
             'code over the whole domain of its byte (or a grid of 16-bit values) and comparing with the defining formula', floor=7)
    f, fs = parse_funcs(prog)
    fd = [g for g in fs if g.short == 'FetchDomain']
    if len(fd) != 1:
        raise AnalysisBroken('FetchDomain not found')
    fd = fd[0]

    def local(g, name):
        for st in g.stmts:
            if st and st['k'] == 'DeclStmt':
                for d in st['decls']:
                    if d.get('n') == name:
                        return d
        return None

    def fold(g, e, env):
        return fold_expanded(g, e, env)

    def edge_truth(g, cond, k, env):
        v = fold(g, cond, env)
        return None if v is None else (bool(v) == (k == 0))
    GRID16 = [0x0000, 0x0001, 0x000f, 0x0100, 0x0183, 0x7fff, 0x8000, 0x8180, 0x8183, 0x8003, 0xffff, 0x8400, 0x0400]
    # 1. reply bit: the early return taken for packets that are not replies
    flags = local(f, 'flags')
    rcode = local(f, 'rcode')
    if not flags or not rcode or 'init' not in rcode:
        raise AnalysisBroken('onUdpRecv: locals flags / rcode not found')
    qr = reply_bit_test(f)
    if qr is None:
        ctx.ob('C15.R12', '%s|reply-bit' % f.name, False, 'no early return tests the QR bit of the flags: queries with a matching id are processed as replies', where=f.loc(f.body))
    else:
        bad = [v for v in GRID16 if edge_truth(f, qr[0], qr[1], {'flags': v}) != ((v & 0x8000) == 0)]
        ctx.ob('C15.R12', '%s|reply-bit' % f.name, not bad, 'the datagram is dropped exactly when bit 0x8000 of the flags is clear' if not bad else
               'the reply test differs from "QR bit clear -> drop" for flags=0x%04x: %s' % (bad[0], 'a query is processed as a reply' if not (bad[0] & 0x8000) else 'a reply is dropped'),
               where=f.loc(qr[0]))
    # 2. response code
    bad = [v for v in GRID16 if fold(f, rcode['init'], {'flags': v}) != (v & 0x0f)]
    ctx.ob('C15.R12', '%s|rcode' % f.name, not bad, 'rcode is the low four bits of the flags' if not bad else 'rcode != flags & 0x000f for flags=0x%04x' % bad[0], where=f.loc(rcode['init']))
    succ = None
    for st in f.stmts:
        if st and st['k'] == 'IfStmt':
            names = {f.stmts[x].get('n') for x in f.walk(st['cond'])} if st.get('cond') is not None else set()
            if 'rcode' in names and any(c.get('fn') in ('push_back', 'emplace_back') for x in f.walk(st['ch'][1] if len(st['ch']) > 1 else st['i']) for c in [f.stmts[x]] if c['k'] in q.CALL_KINDS):
                succ = st
    if succ is None:
        raise AnalysisBroken('onUdpRecv: the branch that parses records under a test of rcode was not found')
    bad = [v for v in range(16) if bool(fold(f, succ['cond'], {'rcode': v})) != (v == 0)]
    ctx.ob('C15.R12', '%s|rcode-success' % f.name, not bad, 'records are parsed exactly when rcode == 0 (NOERROR)' if not bad else
           'records are parsed for rcode=%d and not for NOERROR' % bad[0] if 0 in bad else 'records are parsed for rcode=%d' % bad[0], where=f.loc(succ['cond']))
    # 3. counted loops
    for cnt in ('qd_count', 'an_count'):
        loops = [st for st in f.stmts if st and st['k'] == 'ForStmt' and st.get('cond') is not None and cnt in {f.stmts[x].get('n') for x in f.walk(st['cond'])}]
        if len(loops) != 1:
            raise AnalysisBroken('onUdpRecv: the loop over %s was not found' % cnt)
        lp = loops[0]
        ivar = None
        for x in f.walk(lp['init']) if lp.get('init') is not None else ():
            if f.stmts[x]['k'] == 'DeclStmt':
                ivar = f.stmts[x]['decls'][0]
        inc = f.s(lp.get('inc')) if lp.get('inc') is not None else None
        step1 = inc is not None and inc['k'] == 'UnaryOperator' and inc.get('op') == '++'
        start = (f.s(ivar['init']) or {}).get('cv') if ivar and 'init' in ivar else None
        # the count-dependent conjunct of the condition, folded for count = 0..4: trips = number of i from start for which it holds
        conj = [c for c in _conjuncts(f, lp['cond']) if cnt in {f.stmts[x].get('n') for x in f.walk(c)}]
        trips_ok = bool(conj) and step1 and start is not None
        if trips_ok:
            for N in range(0, 5):
                i, t = start, 0
                while t < 10 and fold(f, conj[0], {ivar['n']: i, cnt: N}):
                    i += 1
                    t += 1
                if t != N:
                    trips_ok = False
                    witness = (N, t)
                    break
        ctx.ob('C15.R12', '%s|%s-trips' % (f.name, cnt), trips_ok, 'the loop body runs exactly %s times' % cnt if trips_ok else
               'the loop over %s does not run exactly that many times%s: records beyond (or short of) the announced section are reported as answers' %
               (cnt, (' (%d announced, %d parsed)' % witness) if conj and step1 and start is not None else ''), where=f.loc(lp['i']))
    # 4. names: terminator, pointer tag, pointer target
    ln = local(fd, 'len')
    if not ln:
        raise AnalysisBroken('FetchDomain: local len not found')
    term = None
    for st in fd.stmts:
        if st and st['k'] == 'BreakStmt':
            for cond, k, b in fd.cfg.controlling_branches(q.pt_or_term(fd, st)):
                names = {fd.stmts[x].get('n') for x in fd.walk(cond) if fd.stmts[x]['k'] == 'DeclRefExpr'}
                if names == {'len'} and term is None and not any(fd.stmts[x]['k'] == 'BinaryOperator' and fd.stmts[x].get('op') == '&' for x in fd.walk(cond)):
                    term = (cond, k)
    if term is None:
        ctx.ob('C15.R12', '%s|terminator' % fd.name, False, 'no break on the zero-length label', where=fd.loc(fd.body))
    else:
        bad = [v for v in range(256) if edge_truth(fd, term[0], term[1], {'len': v}) != (v == 0)]
        ctx.ob('C15.R12', '%s|terminator' % fd.name, not bad, 'a name ends exactly at a label of length 0' if not bad else
               'the name terminator test is wrong for length byte %d' % bad[0], where=fd.loc(term[0]))
    off = local(fd, 'offset')
    tag = None
    if off and 'init' in off:
        for cond, k, b in fd.cfg.controlling_branches(fd.cfg.point_of(off['init'])):
            names = {fd.stmts[x].get('n') for x in fd.walk(cond) if fd.stmts[x]['k'] == 'DeclRefExpr'}
            if names == {'len'} and (term is None or cond != term[0]):
                tag = (cond, k)
    if tag is None or not off:
        ctx.ob('C15.R12', '%s|pointer-tag' % fd.name, False, 'the compression-pointer branch (offset computed under a test of the two top bits of len) was not found', where=fd.loc(fd.body))
    else:
        bad = [v for v in range(1, 256) if edge_truth(fd, tag[0], tag[1], {'len': v}) != ((v & 0xc0) == 0xc0)]
        ctx.ob('C15.R12', '%s|pointer-tag' % fd.name, not bad, 'a length byte is a compression pointer exactly when its two top bits are set' if not bad else
               'the compression tag test is wrong for length byte 0x%02x' % bad[0], where=fd.loc(tag[0]))
        lows = [n_ for n_ in {fd.stmts[x].get('n') for x in fd.walk(off['init']) if fd.stmts[x]['k'] == 'DeclRefExpr'} if n_ != 'len']
        bad = []
        if len(lows) == 1:
            for a in (0xc0, 0xc1, 0xff, 0xe5, 0xd0):
                for b in (0, 1, 0x0c, 0x7f, 0x80, 0xff):
                    if fold(fd, off['init'], {'len': a, lows[0]: b}) != (((a & 0x3f) << 8) | b):
                        bad.append((a, b))
        ctx.ob('C15.R12', '%s|pointer-target' % fd.name, len(lows) == 1 and not bad, 'pointer target = ((len & 0x3f) << 8) | next byte' if len(lows) == 1 and not bad else
               'the pointer target is not ((len & 0x3f) << 8) | next byte%s' % ((' for bytes %02x %02x' % bad[0]) if bad else ''), where=fd.loc(off['init']))


def _conjuncts(f, e):
    st = f.s(f.strip_casts(e))
    if st is not None and st['k'] == 'ParenExpr':
        return _conjuncts(f, st['ch'][0])
    if st is not None and st['k'] == 'BinaryOperator' and st.get('op') == '&&':
        return _conjuncts(f, st['ch'][0]) + _conjuncts(f, st['ch'][1])
    return [e]


def r13(ctx, prog):
    ctx.rule('C15.R13', 'A4 record and result discipline: (a) what is reported for an answer record was read from that record\'s data — the read that last defines the reported value lies '
             'after the read of the record\'s length field, in the same iteration; (b) every branch of the record-type dispatch consumes the record data (a read or a skip), so the '
             'next record starts where this one ends; (c) a byte order changed for one field is restored before the iteration ends; (d) on every way to the user callback other than '
             'the success path, Result::status has been assigned a non-success value', floor=6)
    f, fs = parse_funcs(prog)
    n = 0
    # the record-length read: fetch(an_len)
    lenreads = [c for c in f.calls() if c.get('cls') == DES and c.get('fn') in ('fetch', 'fetchPOD') and c.get('args') and f.path(c['args'][0]).endswith('_len')]
    if not lenreads:
        raise AnalysisBroken('onUdpRecv: the read of the record length was not found')
    lr = lenreads[0]
    lrp = q.pt(f, lr)
    sinks = [c for c in f.calls() if c.get('fn') in ('push_back', 'emplace_back') and 'obj' in c and any(f.path(c['obj']).endswith(x) for x in ('a_vec', 'cname_vec'))]
    ex = extractions(f)
    # "after the length read, in the same iteration": reachable from it without going round the loop (the length read sits in a short-circuit chain, so it does
    # not dominate what follows syntactically; the `if (!is_ok) break` behind the chain is what makes it a must — C15.R2 checks that part)
    loop = [st for st in f.stmts if st and st['k'] == 'ForStmt' and lr['i'] in set(f.walk(st['i']))]
    head = [f.cfg.point_of(loop[-1]['cond'])] if loop and loop[-1].get('cond') is not None else []
    def after_len(p_):
        return p_ is not None and f.cfg.exists_path(lrp, p_, avoid=[h for h in head if h])
    for s_ in sinks:
        n += 1
        sp = q.pt(f, s_)
        # variables the reported value is built from (through local initialisers), and the reads that define them
        deps, work, seen = set(), [x for a in s_.get('args', []) for x in f.walk(a)], set()
        while work:
            x = work.pop()
            sx = f.stmts[x]
            if sx['k'] == 'DeclRefExpr' and sx.get('dk') == 'Var' and sx.get('d') not in seen:
                seen.add(sx['d'])
                deps.add(sx['d'])
                dd, ds = decl_of(f, sx['d'])
                if dd and 'init' in dd:
                    work.extend(f.walk(dd['init']))
        reads = [(st, d) for st, d, x, kind in ex if d in deps]
        for c in f.calls():     # names are read through the helper, into its out-parameter
            if (c.get('callee') or '').endswith('FetchDomain') and len(c.get('args', [])) >= 2:
                a1 = f.s(f.strip_casts(c['args'][1]))
                if a1 is not None and a1['k'] == 'DeclRefExpr' and a1.get('d') in deps:
                    reads.append((c, a1['d']))
        # payload reads: after the length read, dominating the sink
        fresh = [st for st, d in reads if after_len(q.pt(f, st)) and f.cfg.dominates(q.pt(f, st), sp)]
        ok = bool(fresh)
        ctx.ob('C15.R13', '%s|payload-read@%s' % (f.name, f.path(s_['obj']).split('.')[-1]), ok, 'the reported value is read from the record data (after its length field, before it is reported)' if ok else
               'nothing read from this record\'s data (after %s) feeds what is pushed into %s: the value reported is a stale or default one — an address or name that is not encoded in '
               'this record' % (f.path(lr['args'][0]), f.path(s_['obj']).split('.')[-1]), where=f.loc(s_['i']))
    # (b) every branch of the type dispatch consumes data
    typ = None
    for st in f.stmts:
        if st and st['k'] == 'IfStmt' and st.get('cond') is not None and any(f.stmts[x]['k'] == 'DeclRefExpr' and (f.stmts[x].get('n') or '').endswith('_type') for x in f.walk(st['cond'])) and \
                after_len(f.cfg.point_of(st['cond'])):
            typ = st if typ is None else typ
    if typ is None:
        raise AnalysisBroken('onUdpRecv: the record-type dispatch was not found')
    def branches(ifst):
        kids = [c for c in ifst['ch'] if c != ifst.get('cond')]
        out = []
        if kids:
            out.append(kids[0])
        if ifst.get('else') is not None:
            e = f.s(ifst['else'])
            if e is not None and e['k'] == 'IfStmt':
                out += branches(e)
            else:
                out.append(ifst['else'])
        else:
            out.append(None)
        return out
    for bi, b_ in enumerate(branches(typ)):
        n += 1
        consumed = b_ is not None and any(f.stmts[x]['k'] in q.CALL_KINDS and ((f.stmts[x].get('cls') == DES and f.stmts[x].get('fn') in ('fetch', 'fetchPOD', 'skip', 'fetchNoCopy')) or
                                                                              (f.stmts[x].get('callee') or '').endswith('FetchDomain')) for x in f.walk(b_))
        ctx.ob('C15.R13', '%s|branch%d-consumes' % (f.name, bi), consumed, 'this record-type branch reads or skips the record data' if consumed else
               'a branch of the record-type dispatch leaves the record data unread: the next iteration parses the middle of this record as a new record and reports what it finds there',
               where=f.loc(b_ if b_ is not None else typ['i']))
    # (c) byte order restored
    sets = [c for c in f.calls() if c.get('fn') == 'setEndian' and c.get('cls') == DES]
    changed = [c for c in sets if (f.s(f.strip_casts(c['args'][0])) or {}).get('k') != 'DeclRefExpr' or (f.s(f.strip_casts(c['args'][0])) or {}).get('dk') != 'Var']
    restores = [c for c in sets if c not in changed]
    for c in changed:
        n += 1
        ok = bool(restores) and q.must_follow(f, q.pt(f, c), q.pts(f, restores))
        ctx.ob('C15.R13', '%s|endian-restored@%s' % (f.name, f.loc(c['i']).split(':')[-1]), ok, 'the byte order changed for this field is put back on every path' if ok else
               'the byte order is changed here and not restored on every path: every later 16/32-bit field of the datagram is read byte-swapped', where=f.loc(c['i']))
    # (d) non-success status
    def status_rule(g, what):
        invs = q.invokes(g, 'cb')
        asg = [a for a, rhs in q.assigns(g, 'Result::status') if 'kSuccess' not in g.path(rhs)]
        return invs, asg
    t = prog.fn1(DNS + '::onRequestTimeout')
    invs, asg = status_rule(t, 'timeout')
    n += 1
    ok = bool(invs) and bool(asg) and all(any(t.cfg.dominates(q.pt(t, a), q.pt(t, i)) for a in asg) for i in invs)
    ctx.ob('C15.R13', '%s|status' % t.name, ok, 'the time-out completion carries a non-success status' if ok else
           'the time-out handler invokes the callback without having set Result::status: a lookup that timed out is reported as a success with no records', where=t.loc(t.body))
    # error replies: every path to the callback that does not pass the success branch assigns a non-success status
    invs, asg = status_rule(f, 'error reply')
    succ_pts = [f.cfg.point_of(x) for x in f.walk(typ['i']) if f.cfg.point_of(x) is not None][:1]
    for i in invs:
        n += 1
        leak = f.cfg.exists_path(f.cfg.entry_point(), q.pt(f, i), avoid=q.pts(f, asg) + [lrp] + q.pts(f, [c for c in f.calls() if c.get('cls') == DES and c.get('fn') == 'fetch' and f.path(c['args'][0]).endswith('_count')]))
        ctx.ob('C15.R13', '%s|error-status' % f.name, not leak, 'every way to the callback either parsed the records or set a non-success status' if not leak else
               'a reply with a non-zero response code reaches the callback without Result::status being set: a server error is reported as a success with no records', where=f.loc(i['i']))


def run(ctx):
    prog = extract('ALL' if ctx.tier == 'thorough' else SCOPE)
    ctx.guard(r1, ctx, prog)
    ctx.guard(r2, ctx, prog)
    ctx.guard(r3, ctx, prog)
    ctx.guard(r4, ctx, prog)
    ctx.guard(r5, ctx, prog)
    ctx.guard(r6, ctx, prog)
    ctx.guard(tmon.run, ctx, prog, 'C15.R7')
    ctx.guard(tmon.run_users, ctx, prog, 'C15.R9', DNS)
    ctx.guard(r10, ctx, prog)
    ctx.guard(r11, ctx, prog)
    ctx.guard(r12, ctx, prog)
    ctx.guard(r13, ctx, prog)
    ctx.guard(harden.run_fixed, ctx, prog, 'C15.R14', parse_funcs(prog)[1], 'datagram path')
    ctx.guard(harden.run, ctx, prog, 'C15.R8', [prog.fn1(DNS + '::onUdpRecv')],
              lambda g: g.file.startswith(MODULES + '/network/') or g.file.startswith(MODULES + '/util/'), 'DNS datagram path')
    from tbxlint import progress
    ctx.guard(progress.run_files, ctx, prog, 'C15.R15', ['network/dns_request.cpp', 'network/udp_socket.cpp', 'util/serializer.cpp', 'eventx/timeout_monitor_impl.hpp'], 'DNS datagram path', floor=1)
    from rules import C15_replay
    ctx.guard(C15_replay.r16, ctx, prog)
    from tbxlint import divzero
    ctx.guard(divzero.rule, ctx, prog, 'C15.R17', 'A9 no division or remainder by a value that may be zero in the DNS client: every integer /, % whose divisor is not a non-zero constant is preceded on every path by a test that the divisor is not zero (or the divisor is positive by construction): a zero that the peer can cause (a window width, a count, a length) is a SIGFPE that ends the process', ['network/dns_request', 'network/dns_def'], 8)
    return prog
