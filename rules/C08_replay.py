"""C08 — the token cabinet replayed against a reference map over every short history (C08.R10).  Imported by rules/C08.py.

tbxlint/minterp.py interprets the syntax trees of Cabinet<T>::alloc/at/update/free/clear/size (and the Token accessors they call) on a record built from the
class's default member initialisers; std::vector is a Python list with bounds-checked at()/operator[].  Stored objects are opaque pointers.  Every history
of up to DEPTH operations is walked (tokens: every one issued so far, stale ones included, the null token, and forged tokens that pair a live id with a
position at or past the end of the cell array); after each operation every token is looked up again.  Nothing of the repository is compiled or run."""
import copy
from tbxlint.facts import AnalysisBroken
from tbxlint import minterp
from tbxlint.minterp import P

TOKEN = 'tbox::cabinet::Token'


class Bench:
    def __init__(self, prog, cab_cls):
        self.prog, self.cls = prog, cab_cls
        self.fn = {n: prog.fn1(cab_cls + '::' + n) for n in ('alloc', 'at', 'update', 'free', 'clear', 'size')}
        tf = [fd['n'] for fd in prog.classes[TOKEN]['fields']]
        if len(tf) != 2:
            raise AnalysisBroken('Token: expected two fields (id, position)')
        self.tf = tf
        # which field is the id: the one isNull() looks at
        isn = prog.fn1(TOKEN + '::isNull')
        used = [st.get('n') for st in isn.stmts if st and st['k'] == 'MemberExpr' and st.get('n') in tf]
        if len(set(used)) != 1:
            raise AnalysisBroken('Token::isNull does not test exactly one field')
        self.idf = used[0]
        self.posf = [x for x in tf if x != self.idf][0]
        self.vec = [fd['n'] for fd in prog.classes[cab_cls]['fields'] if (fd.get('ct') or '').startswith('std::vector<')]
        if len(self.vec) != 1:
            raise AnalysisBroken('Cabinet: expected one std::vector field')

    def fresh(self):
        it = minterp.Interp(self.prog, {}, hooks=dict(minterp.VECTOR_HOOKS), inline=('*',))
        return it.new_record(self.cls)

    def call(self, cab, name, args):
        it = minterp.Interp(self.prog, {}, hooks=dict(minterp.VECTOR_HOOKS), inline=('*',))
        conv = []
        for a in args:
            if isinstance(a, tuple):            # a token (id, pos)
                rec = it.new_record(TOKEN)
                rec[self.idf], rec[self.posf] = a
                it._keep.append(rec)
                conv.append(it.ref(rec))
            else:
                conv.append(a)
        r = it.call(self.fn[name], conv, this=cab)
        rec = it.record_of(r)
        if rec is not None and rec.get('__cls__') == TOKEN:
            r = (rec[self.idf], rec[self.posf])
        return r, it.faults

    def moved(self, cab, how):
        """the cabinet moved into a new object — by its move constructor, by move assignment into a fresh cabinet, or by swap() with a fresh one —; the history goes on with
        the new object.  Where the class declares none of its own the compiler's member-wise versions apply: a copy of the record."""
        it = minterp.Interp(self.prog, {}, hooks=dict(minterp.VECTOR_HOOKS, **{'move': lambda it_, f, st, a: a[0], 'vector::swap': self.h_swap}), inline=('*',))
        short = self.cls.split('::')[-1].split('<')[0]
        if how == 'ctor':
            ctors = [g for g in self.prog.by_name.get(self.cls + '::' + short, ()) if g.d.get('ctor') and g.body is not None and len(g.params) == 1 and g.params[0]['t'].rstrip().endswith('&&')]
            if not ctors:
                return copy.deepcopy(cab), []
            new = it.new_record(self.cls)
            it._keep.append(new)
            it.run_ctor(ctors[0], ctors[0].stmts[0], new, self.cls, ctors[0], [it.ref(cab)])
            return new, it.faults
        new = it.new_record(self.cls)
        it._keep.append(new)
        if how == 'assign':
            ops = [g for g in self.prog.by_name.get(self.cls + '::operator=', ()) if g.body is not None and len(g.params) == 1 and g.params[0]['t'].rstrip().endswith('&&')]
            if not ops:
                return copy.deepcopy(cab), []
            it.call(ops[0], [it.ref(cab)], this=new)
            return new, it.faults
        sw = [g for g in self.prog.by_name.get(self.cls + '::swap', ()) if g.body is not None and len(g.params) == 1]
        if not sw:
            return copy.deepcopy(cab), []
        it.call(sw[0], [it.ref(cab)], this=new)
        return new, it.faults

    def h_swap(self, it, f, st, a):
        """std::swap / member swap of two members of the same kind"""
        if 'obj' in st:
            x, y = it.cur_obj, a[0]
            if isinstance(x, list) and isinstance(y, list):
                x[:], y[:] = list(y), list(x)
                return None
            raise AnalysisBroken('%s: member swap of something the replay does not hold as a sequence (%s)' % (f.short, f.loc(st['i'])))
        raise AnalysisBroken('%s: std::swap of values the replay does not understand (%s)' % (f.short, f.loc(st['i'])))

    def cells(self, cab):
        return len(cab[self.vec[0]])


def ptr(k):
    return P('obj#%d' % k, 0) if k else 0


def same(a, b):
    if isinstance(a, P) or isinstance(b, P):
        return isinstance(a, P) and isinstance(b, P) and a.r == b.r and a.o == b.o
    return a == b


def walk(bench, depth):
    """DFS over histories; returns (histories, first counterexample or None)"""
    count = [0]

    def probe(cab, live, issued, hist):
        toks = list(issued) + [(0, 0)]
        n = bench.cells(cab)
        for t in list(live)[:2]:
            toks += [(t[0], n), (t[0], n + 1)]
        for t in toks:
            c2 = copy.deepcopy(cab)
            r, faults = bench.call(c2, 'at', [t])
            want = live.get(t, 0)
            if faults:
                return 'at(token id=%d pos=%d): %s' % (t[0], t[1], faults[0])
            if not same(r, want):
                return 'at(token id=%d pos=%d) gives %s where the %s' % (t[0], t[1], 'an object' if r else 'nullptr',
                                                                       'entry holds ' + ('an object' if want else 'nullptr') if t in live else 'token is stale, null or forged')
        r, faults = bench.call(copy.deepcopy(cab), 'size', [])
        if faults or r != len(live):
            return 'size() gives %s with %d live entr%s' % (r, len(live), 'y' if len(live) == 1 else 'ies')
        return None

    seen = {}

    def freeze(x):
        if isinstance(x, dict):
            return tuple(sorted((k_, freeze(v)) for k_, v in x.items()))
        if isinstance(x, list):
            return tuple(freeze(v) for v in x)
        if isinstance(x, P):
            return ('P', x.r, x.o)
        return x

    def rec(cab, live, issued, hist, nobj):
        if len(hist) == depth:
            count[0] += 1
            return None
        # the same cabinet state with the same tokens in circulation, reached with at least as many operations left, has been explored
        key = (freeze(cab), freeze(live), frozenset(issued))
        left = depth - len(hist)
        if seen.get(key, -1) >= left:
            return None
        seen[key] = left
        n = bench.cells(cab)
        ops = [('alloc', nobj + 1), ('alloc', 0), ('clear',)] + ([('move', 'ctor'), ('move', 'assign'), ('move', 'swap')] if not any(o[0] == 'move' for o in hist) and live else [])
        cand = list(issued) + [(0, 0)] + [(t[0], n) for t in list(live)[:1]]
        for t in cand:
            ops.append(('free', t))
            ops.append(('update', t, nobj + 1))
        for op in ops:
            c2, l2, i2 = copy.deepcopy(cab), dict(live), list(issued)
            h2 = hist + [op]
            why = None
            if op[0] == 'alloc':
                r, faults = bench.call(c2, 'alloc', [ptr(op[1])])
                if faults:
                    why = faults[0]
                elif not isinstance(r, tuple) or r[0] == 0:
                    why = 'alloc() returns a null token'
                elif r in i2:
                    why = 'alloc() hands out token (id=%d pos=%d) a second time' % r
                else:
                    l2[r] = ptr(op[1])
                    i2.append(r)
            elif op[0] == 'move':
                c2, faults = bench.moved(c2, op[1])
                why = faults[0] if faults else None
            elif op[0] == 'clear':
                r, faults = bench.call(c2, 'clear', [])
                why = faults[0] if faults else None
                l2 = {}
            elif op[0] == 'free':
                r, faults = bench.call(c2, 'free', [op[1]])
                want = l2.pop(op[1], 0)
                if faults:
                    why = faults[0]
                elif not same(r, want):
                    why = 'free() returns %s where %s' % ('an object' if r else 'nullptr', 'the entry held ' + ('an object' if want else 'nullptr') if want or op[1] in live else 'the token is stale, null or forged')
            elif op[0] == 'update':
                r, faults = bench.call(c2, 'update', [op[1], ptr(op[2])])
                want = op[1] in l2
                if faults:
                    why = faults[0]
                elif bool(r) != want:
                    why = 'update() returns %s for a %s token' % (bool(r), 'live' if want else 'stale, null or forged')
                elif want:
                    l2[op[1]] = ptr(op[2])
            if why is None:
                why = probe(c2, l2, i2, h2)
            if why is not None:
                return (h2, why)
            bad = rec(c2, l2, i2, h2, nobj + 1)
            if bad:
                return bad
        return None
    cab = bench.fresh()
    bad = probe(cab, {}, [], [])
    if bad:
        return 0, ([], bad)
    bad = rec(cab, {}, [], [], 0)
    return count[0], bad


def fmt_hist(h):
    out = []
    for op in h:
        if op[0] == 'alloc':
            out.append('alloc(%s)' % ('obj' if op[1] else 'nullptr'))
        elif op[0] == 'clear':
            out.append('clear()')
        elif op[0] == 'move':
            out.append({'ctor': 'moved into a new cabinet', 'assign': 'move-assigned to a fresh cabinet', 'swap': 'swapped with a fresh cabinet'}[op[1]])
        else:
            out.append('%s(id=%d pos=%d)' % (op[0], op[1][0], op[1][1]))
    return ', '.join(out)


def r10(ctx, prog, CAB):
    depth = 6 if ctx.tier == 'thorough' else 5
    ctx.rule('C08.R10', 'A10 the cabinet replayed against a reference map: every history of up to %d operations, explored up to equal states (the cabinet moved into a new one by move construction, move assignment or swap — the class\'s own where it declares them —, alloc with an object or nullptr, free / update through every token issued '
             'so far — stale ones included —, the null token and forged tokens pairing a live id with a position at or past the end, clear) is interpreted on the syntax trees of '
             'Cabinet<T>; after each operation every token is looked up again: at() answers exactly for the live tokens, free()/update() act exactly on them, alloc() never repeats '
             'a token, size() counts the live entries, and no vector access leaves the cell array' % depth, floor=1)
    bench = Bench(prog, CAB)
    n, bad = walk(bench, depth)
    f = bench.fn['at']
    if bad is None and n < 100:
        raise AnalysisBroken('only %d histories replayed' % n)
    ctx.ob('C08.R10', 'Cabinet|histories', bad is None, '%d complete histories of %d operations agree with the reference map' % (n, depth) if bad is None else
           'after %s: %s' % (fmt_hist(bad[0]) or 'construction', bad[1]), where=f.loc(f.body))
