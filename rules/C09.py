"""C09 — logging (DESIGN §4 C09)."""
import glob
import os
from tbxlint.facts import extract, AnalysisBroken, MODULES
from tbxlint import locks, q, ival
from rules import C09_replay

ANON = '(anonymous namespace)::'
G_LOCK = ANON + '_lock'
GLOBALS = {ANON + '_LogTextMaxLength', ANON + '_output_channels', ANON + '_id_alloc'}
SINK = 'tbox::log::Sink'
ASINK = 'tbox::log::AsyncSink'
PIPE = 'tbox::util::AsyncPipe'


def scope_units():
    us = ['base/log_impl.cpp', 'base/log_output.cpp', 'util/async_pipe.cpp']
    for p in sorted(glob.glob(MODULES + '/log/*.cpp')):
        if not p.endswith('_test.cpp'):
            us.append(p[len(MODULES) + 1:])
    return us


def r1(ctx, prog):
    ctx.rule('C09.R1', 'A1: the logging globals are only touched under _lock (every extern entry is an any-thread role); '
                       'a sink\'s level table under Sink::lock_ (logging threads vs control thread)', floor=12)
    # -- globals
    fs = [f for f in prog.funcs.values() if f.file.endswith('base/log_impl.cpp')]
    eng = locks.LockEngine(prog, fs, sync_hof=('std::remove_if', 'std::find', 'std::min', 'std::for_each'))
    entries = [f for f in fs if f.parent_func is None and not f.d.get('static') and not f.name.startswith(ANON)]
    if len(entries) < 5:
        raise AnalysisBroken('log_impl.cpp: expected >=5 externally visible entry points, found %d' % len(entries))
    ctxs = eng.contexts({'any': entries})
    accs = locks.race_rule(ctx, 'C09.R1', prog, eng, ctxs, GLOBALS, multi_roles=('any',))
    seen = {a['field'] for a in accs}
    if seen != GLOBALS:
        raise AnalysisBroken('logging globals not all seen: %s' % sorted(GLOBALS - seen))
    # -- sink filter tables
    sfs = [f for f in prog.funcs.values() if (prog.outermost(f).cls or '') == SINK]
    eng2 = locks.LockEngine(prog, sfs)
    logging = [prog.fn1(SINK + '::HandleLog')]
    control = [f for f in prog.methods_of(SINK) if f.d.get('access') == 'public' and f.short not in ('HandleLog',)]
    ctxs2 = eng2.contexts({'logging': logging, 'control': control})
    fields = {SINK + '::modules_level_', SINK + '::default_level_'}
    accs2 = locks.race_rule(ctx, 'C09.R1', prog, eng2, ctxs2, fields, multi_roles=('logging',))
    if not {'logging', 'control'} <= {a['role'] for a in accs2 if a['field'].endswith('modules_level_')}:
        raise AnalysisBroken('modules_level_ not seen in both roles')


def r2_r3(ctx, prog):
    ctx.rule('C09.R2', 'A6+A1: registered sink functions are invoked only inside Dispatch with _lock held; Sink::HandleLog is only '
                       'ever registered (never called directly); handleLog/onLogFrontEnd are only reached through it', floor=4)
    ctx.rule('C09.R3', 'A3/A6: the header+text double append of AsyncSink::onLogFrontEnd is atomic (serialised by the dispatch lock per R2, '
                       'or bracketed by appendLock/appendUnlock), header first, text length = text_len', floor=3)
    fs = [f for f in prog.funcs.values() if f.file.endswith('base/log_impl.cpp')]
    eng = locks.LockEngine(prog, fs)
    n = 0
    serialized = True
    for f in prog.funcs.values():
        for st in f.stmts:
            if st and st['k'] == 'CallExpr' and not st.get('callee'):
                fq = f.field_of(st.get('calleeexpr'))
                if fq and fq.endswith('OutputChannel::func'):
                    n += 1
                    ls = eng.analyze(f, frozenset()).get(q.pt(f, st)) if f.key in eng.scope else None
                    ok = f.name == ANON + 'Dispatch' and ls is not None and G_LOCK in ls
                    serialized = serialized and ok
                    ctx.ob('C09.R2', '%s|invoke-channel' % locks.site_name(prog, f), ok,
                           'sink function invoked with locks {%s}' % ','.join(sorted(ls or ())), where=f.loc(st['i']))
    if n == 0:
        raise AnalysisBroken('no invocation of OutputChannel::func found')
    # HandleLog only registered
    hl = prog.fn1(SINK + '::HandleLog')
    for f in prog.funcs.values():
        for st in f.stmts:
            if st and st['k'] == 'DeclRefExpr' and st.get('usr') == hl.usr:
                p, child = f.up(st['i'])
                ps = f.s(p)
                while ps and ps['k'] in ('UnaryOperator',) and ps.get('op') == '&':
                    p, child = f.up(p)
                    ps = f.s(p)
                ok = ps is not None and ps['k'] == 'CallExpr' and ps.get('callee') == 'LogAddPrintfFunc' and ps.get('calleeexpr') != child
                serialized = serialized and ok
                ctx.ob('C09.R2', '%s|HandleLog-use' % locks.site_name(prog, f), ok, 'Sink::HandleLog is only passed to LogAddPrintfFunc', where=f.loc(st['i']))
    hdl = prog.fn1(SINK + '::handleLog')
    for f in prog.funcs.values():
        for st in f.calls():
            if st.get('usr') == hdl.usr:
                ok = f.name == SINK + '::HandleLog'
                serialized = serialized and ok
                ctx.ob('C09.R2', '%s|handleLog-caller' % locks.site_name(prog, f), ok, 'Sink::handleLog called only from HandleLog', where=f.loc(st['i']))
            if st.get('fn') == 'onLogFrontEnd':
                ok = f.name == SINK + '::handleLog'
                serialized = serialized and ok
                ctx.ob('C09.R2', '%s|frontend-caller' % locks.site_name(prog, f), ok, 'onLogFrontEnd called only from Sink::handleLog', where=f.loc(st['i']))
    # R3
    fe = prog.fn1(ASINK + '::onLogFrontEnd')
    aps = [st for st in q.calls(fe, callee=PIPE + '::append')]
    alk = q.calls(fe, callee=PIPE + '::appendLock')
    aul = q.calls(fe, callee=PIPE + '::appendUnlock')
    apl = q.calls(fe, callee=PIPE + '::appendLockless')
    allaps = sorted(aps + apl, key=lambda s: (s['l'], s['c']))
    if len(allaps) != 2:
        raise AnalysisBroken('AsyncSink::onLogFrontEnd: expected two pipe appends, found %d' % len(allaps))
    bracketed = bool(alk and aul) and all(fe.cfg.dominates(q.pt(fe, alk[0]), q.pt(fe, a)) and q.must_follow(fe, q.pt(fe, a), q.pts(fe, aul)) for a in allaps) and not aps
    ctx.ob('C09.R3', '%s|atomic' % fe.name, bracketed or serialized,
           'double append is %s' % ('bracketed by appendLock/appendUnlock' if bracketed else 'serialised by the global dispatch lock (R2 holds for every caller)' if serialized else 'NOT atomic: neither bracketed nor serialised'),
           where=fe.loc(allaps[0]['i']))
    a1, a2 = allaps
    hdr_ok = fe.cfg.dominates(q.pt(fe, a1), q.pt(fe, a2)) and q.const_of(fe, a1['args'][1]) is not None \
        and fe.path(a1['args'][0]) == 'content'
    ctx.ob('C09.R3', '%s|header-first' % fe.name, hdr_ok, 'first append is the fixed-size header (content, sizeof(LogContent)) and dominates the text append', where=fe.loc(a1['i']))
    txt_ok = fe.path(a2['args'][0]) == 'content.text_ptr' and fe.path(a2['args'][1]) == 'content.text_len'
    ctx.ob('C09.R3', '%s|text-len' % fe.name, txt_ok, 'second append is (text_ptr, text_len) of the same record', where=fe.loc(a2['i']))
    # the text append may only be skipped when text_len == 0
    cbs = fe.cfg.controlling_branches(q.pt(fe, a2))
    ok = all(any(x.endswith('LogContent::text_len') for x in q.subtree_fields(fe, c)) for c, k, b in cbs)
    ctx.ob('C09.R3', '%s|text-guard' % fe.name, ok, 'text append is conditional on text_len only', where=fe.loc(a2['i']))


def r4(ctx, prog):
    ctx.rule('C09.R4', 'A4: a record reaches a sink\'s front end only after filter(level, module) returned true; filter compares '
                       'level <= per-module level when present, else <= default', floor=3)
    h = prog.fn1(SINK + '::handleLog')
    fes = [st for st in h.calls() if st.get('fn') == 'onLogFrontEnd']
    fl = q.calls(h, callee=SINK + '::filter')
    if not fes or not fl:
        raise AnalysisBroken('Sink::handleLog: filter / onLogFrontEnd call missing')
    for fe in fes:
        p = q.pt(h, fe)
        ok = False
        for c, k, b in h.cfg.controlling_branches(p):
            cs = h.s(h.strip_casts(c))
            neg = False
            while cs and cs['k'] == 'UnaryOperator' and cs.get('op') == '!':
                neg = not neg
                cs = h.s(h.strip_casts(cs['ch'][0]))
            if cs and cs.get('usr') == fl[0].get('usr') and ((k == 1) if neg else (k == 0)):
                ok = True
        ctx.ob('C09.R4', '%s|filter-gates' % h.name, ok, 'onLogFrontEnd is control dependent on filter() == true', where=h.loc(fe['i']))
        a = fl[0]['args']
        ok2 = h.path(a[0]) == 'content.level' and 'content.module_id' in q.subtree_paths(h, a[1])
        ctx.ob('C09.R4', '%s|filter-args' % h.name, ok2, 'filter receives the record\'s own level and module id', where=h.loc(fl[0]['i']))
    f = prog.fn1(SINK + '::filter')
    # folded, not matched: filter() is interpreted for every level 0..8 against every combination of a default threshold and a threshold of the module (or none)
    from rules import C09_sinks
    from tbxlint.minterp import S as _S
    wrong = None
    try:
        pg = prog
        if not any(g.name.endswith('LogAddPrintfFunc') for g in pg.funcs.values()):
            pg = extract('ALL')
        bench = C09_sinks.Bench(pg, nsinks=1)
        rec = bench.sinks[0]
        for dflt in (0, 3, 8):
            for modlvl in (None, 0, 3, 7, 8):
                rec['default_level_'] = dflt
                rec['modules_level_'] = {'__map__': True}
                if modlvl is not None:
                    rec['modules_level_'][_S('m')] = modlvl
                for level in range(0, 9):
                    got = bench.call(rec, 'filter', [level, _S('m')])
                    want = level <= (modlvl if modlvl is not None else dflt)
                    if bool(got) != want and wrong is None:
                        wrong = 'filter(%d, "m") answers %s with default threshold %d and %s' % (level, bool(got), dflt, 'threshold %d for the module' % modlvl if modlvl is not None else 'no threshold for the module')
    except AnalysisBroken as e:
        wrong = str(e)
    ctx.ob('C09.R4', '%s|compare' % f.name, wrong is None, 'filter(level, module) is level <= (the module\'s threshold if one is set, else the default), folded over levels 0..8 and thresholds' if wrong is None else wrong,
           where=f.loc(f.body))


def buffer_sources(f, ptr_decl, use_pt):
    """what the local pointer/array `ptr_decl` designates at use_pt: list of (kind, size var decl | None, const, def-specific guards, where).
    kind 'const': fixed array of `const` bytes; 'var': VLA whose size is local `size var`; 'len+c': heap block of (local) + c bytes."""
    from tbxlint import rd
    out = []
    defs = rd.local_defs(f, ptr_decl)
    dd = None
    for st in f.stmts:
        if st and st['k'] == 'DeclStmt':
            for d in st['decls']:
                if d.get('d') == ptr_decl:
                    dd = (d, st)
    if dd is None:
        return out
    d, dst = dd

    def array_kind(decl, stmt):
        import re
        t = decl.get('t', '')
        m = re.match(r'^char\[(\d+)\]$', t.replace('const ', ''))
        if m:
            return ('const', None, int(m.group(1)))
        if t.startswith('char[') or decl.get('ct', '').startswith('char['):
            # variable length array: its size expression is evaluated in the DeclStmt's children / type; find a local used in the brackets
            for x in f.walk(stmt['i']):
                sx = f.stmts[x]
                if sx['k'] == 'DeclRefExpr' and sx.get('dk') == 'Var' and sx.get('d') != decl['d']:
                    return ('var', sx['d'], None)
            tname = re.match(r'^char\[(\w+)\]$', t)
            if tname:
                for st2 in f.stmts:
                    if st2 and st2['k'] == 'DeclStmt':
                        for d2 in st2['decls']:
                            if d2.get('n') == tname.group(1):
                                return ('var', d2['d'], None)
        return None
    ak = array_kind(d, dst)
    if ak:
        out.append((ak[0], ak[1], ak[2], [], f.loc(dst['i'])))
        return out
    # a pointer variable: one entry per reaching definition
    reach = rd.reaching(f, ptr_decl, use_pt)
    for i in reach:
        df = defs[i]
        if df['rhs'] is None:
            return []
        r = f.s(f.strip_casts(df['rhs']))
        extra = ival.def_guards(f, ptr_decl, i, use_pt)
        if r['k'] == 'DeclRefExpr' and r.get('dk') == 'Var':
            for st in f.stmts:
                if st and st['k'] == 'DeclStmt':
                    for d2 in st['decls']:
                        if d2.get('d') == r['d']:
                            ak2 = array_kind(d2, st)
                            if ak2:
                                out.append((ak2[0], ak2[1], ak2[2], extra, f.loc(st['i'])))
            continue
        # heap: p = smart.get() / new char[len + c]
        news = []
        if r['k'] == 'CXXNewExpr':
            news = [r]
        elif r['k'] in q.CALL_KINDS and r.get('fn') == 'get' and 'obj' in r:
            owner = f.s(f.strip_casts(r['obj']))
            for st in f.calls():
                if st.get('fn') == 'reset' and 'obj' in st and f.s(f.strip_casts(st['obj'])).get('d') == owner.get('d'):
                    news += [f.stmts[x] for a in st.get('args', []) for x in f.walk(a) if f.stmts[x]['k'] == 'CXXNewExpr']
        for nw in news:
            if nw['ch']:
                sz = f.s(f.strip_casts(nw['ch'][0]))
                if sz['k'] == 'BinaryOperator' and sz.get('op') == '+':
                    a_, b_ = f.s(f.strip_casts(sz['ch'][0])), f.s(f.strip_casts(sz['ch'][1]))
                    if a_['k'] == 'DeclRefExpr' and b_.get('cv') is not None:
                        out.append(('len+c', a_['d'], b_['cv'], extra, f.loc(nw['i'])))
                        continue
            return []
    return out


def r5(ctx, prog):
    ctx.rule('C09.R5', 'A4+A12: text is clamped to the maximum and marked truncated on the same path; every sink that prints the '
                       'text also prints the truncation marker', floor=5)
    f = prog.fn1('LogPrintfFunc')
    tr = [(a, rhs) for a, rhs in q.assigns(f, 'LogContent::text_trunc')]
    maxname = ANON + '_LogTextMaxLength'

    def mentions_max(sid):
        for x in f.walk(sid):
            st = f.stmts[x]
            if st['k'] == 'DeclRefExpr' and st.get('q') == maxname:
                return True
            if st['k'] == 'CallExpr' and st.get('callee') == 'LogGetMaxLength':
                return True
            if st['k'] == 'DeclRefExpr' and st.get('dk') == 'Var' and st.get('d') in maxvars:
                return True
        return False
    # locals initialised from the limit (after the planned fix the limit is read once into a local)
    maxvars = set()
    for st in f.stmts:
        if st and st['k'] == 'DeclStmt':
            for d in st['decls']:
                if 'init' in d and any((f.stmts[x]['k'] == 'DeclRefExpr' and f.stmts[x].get('q') == maxname) or
                                       (f.stmts[x]['k'] == 'CallExpr' and f.stmts[x].get('callee') == 'LogGetMaxLength')
                                       for x in f.walk(d['init'])):
                    if not any(f.stmts[x]['k'] == 'CallExpr' and f.stmts[x].get('callee', '').startswith('std::min') for x in f.walk(d['init'])):
                        maxvars.add(d['d'])
    for a, rhs in tr:
        p = q.pt(f, a)
        cbs = f.cfg.controlling_branches(p)
        ok = any(mentions_max(c) and f.s(f.strip_casts(c))['k'] == 'BinaryOperator' for c, k, b in cbs)
        ctx.ob('C09.R5', '%s|trunc-guard@%d' % (f.name, tr.index((a, rhs))), ok, 'text_trunc = true is control dependent on a comparison with the maximum length', where=f.loc(a['i']))
    # every clamp (a store of the limit, or limit + 1 as the buffer size) marks the record truncated in the same block
    clamps = []
    for st in f.stmts:
        if st and st['k'] == 'BinaryOperator' and st.get('op') == '=' and mentions_max(st['ch'][1]) and not mentions_max(st['ch'][0]):
            l = f.s(f.strip_casts(st['ch'][0]))
            if l and l['k'] in ('MemberExpr', 'DeclRefExpr') and st not in [a for a, r_ in tr]:
                blk = f.enclosing(st['i'], ('CompoundStmt',))
                # the initial buffer size (min(2048, max) + 1) and the re-use of an already truncated length are not clamps
                if any(f.stmts[x]['k'] == 'CallExpr' and f.stmts[x].get('callee', '').startswith('std::min') for x in f.walk(st['ch'][1])):
                    continue
                if any(br == 'then' and any(x.endswith('text_trunc') for x in q.subtree_fields(f, c)) for c, br in q.lexical_guards(f, st['i'])[:1]):
                    continue
                clamps.append((st, blk))
    for st, blk in clamps:
        marked = blk is not None and any(a['i'] in set(f.walk(blk)) for a, r_ in tr if f.s(f.strip_casts(r_)).get('v') is True)
        ctx.ob('C09.R5', '%s|clamp-marks@%s' % (f.name, f.path(st['ch'][0])), marked,
               'clamping %s to the limit is accompanied by text_trunc = true in the same block' % f.path(st['ch'][0]) if marked else
               '%s is cut to the maximum length without marking the record as truncated' % f.path(st['ch'][0]), where=f.loc(st['i']))
    if len(clamps) < 2:
        raise AnalysisBroken('LogPrintfFunc: expected >=2 clamp sites, found %d' % len(clamps))
    # the text handed to the sinks is complete: wherever a buffer filled by vsnprintf is published as text_ptr, the published
    # text_len is provably smaller than the size of that buffer (vsnprintf needs one byte for the terminator)
    fmt_calls = [st for st in f.stmts if st and st['k'] == 'CallExpr' and st.get('callee') == 'vsnprintf']
    if not fmt_calls:
        raise AnalysisBroken('LogPrintfFunc: vsnprintf not found')
    n_pub = 0
    for pa, prhs in q.assigns(f, 'LogContent::text_ptr'):
        pv = f.s(f.strip_casts(prhs))
        if not (pv and pv['k'] == 'DeclRefExpr' and pv.get('dk') == 'Var'):
            continue     # e.g. text_ptr = fmt (no formatting)
        pp = q.pt(f, pa)
        # the length published together with it: the text_len store that reaches the same Dispatch
        lens = [(a2, r2) for a2, r2 in q.assigns(f, 'LogContent::text_len') if q.pt(f, a2) and (f.cfg.dominates(q.pt(f, a2), pp) or f.cfg.dominates(pp, q.pt(f, a2)))
                and f.enclosing(a2['i'], ('CompoundStmt',)) == f.enclosing(pa['i'], ('CompoundStmt',))]
        if not lens:
            ctx.ob('C09.R5', '%s|published-len' % f.name, False, 'text_ptr is published without a matching text_len store in the same block', where=f.loc(pa['i']))
            continue
        la, lrhs = lens[0]
        lv = f.s(f.strip_casts(lrhs))
        if not (lv and lv['k'] == 'DeclRefExpr' and lv.get('dk') == 'Var'):
            ctx.ob('C09.R5', '%s|published-len' % f.name, False, 'published text_len is not a tracked local', where=f.loc(la['i']))
            continue
        bufs = buffer_sources(f, pv['d'], pp)
        if not bufs:
            ctx.ob('C09.R5', '%s|published-buffer' % f.name, False, 'cannot determine which buffer text_ptr points to', where=f.loc(pa['i']))
            continue
        for kind, size_expr, size_const, extra_guards, where_b in bufs:
            n_pub += 1
            ok, why = False, ''
            guards = [(c, k) for c, k, b_ in f.cfg.controlling_branches(pp)] + extra_guards
            if kind == 'const':
                lo, hi = ival.bounds_from_guards(f, lv['d'], guards)
                ok = hi is not None and hi < size_const
                why = 'text_len <= %s on this path, buffer of %d bytes' % (hi, size_const)
            elif kind == 'var':
                # a guard comparing the length variable with the size variable:  len < size
                for c, k in guards:
                    cs = f.s(f.strip_casts(c))
                    if cs and cs['k'] == 'BinaryOperator' and cs.get('op') in ('<', '>=', '>', '<='):
                        l_, r_ = f.s(f.strip_casts(cs['ch'][0])), f.s(f.strip_casts(cs['ch'][1]))
                        if l_.get('d') == lv['d'] and r_.get('d') == size_expr and ((cs['op'] == '<' and k == 0) or (cs['op'] == '>=' and k == 1)):
                            ok = True
                        if r_.get('d') == lv['d'] and l_.get('d') == size_expr and ((cs['op'] == '>' and k == 0) or (cs['op'] == '<=' and k == 1)):
                            ok = True
                why = 'guard text_len < buffer size variable'
            elif kind == 'len+c':
                ok = size_expr == lv['d'] and size_const >= 1
                why = 'buffer allocated with text_len + %s bytes' % size_const
            ctx.ob('C09.R5', '%s|text-fits-buffer@%s' % (f.name, kind), ok,
                   'published length is smaller than the formatted buffer (%s)' % why if ok else
                   'on the path that publishes the buffer declared at %s, text_len is not provably smaller than the buffer size (%s): vsnprintf keeps one byte for the '
                   'terminator, so the last character of the record is lost / replaced by NUL' % (where_b, why), where=f.loc(pa['i']))
    if n_pub == 0:
        raise AnalysisBroken('LogPrintfFunc: no formatted buffer is published through text_ptr')
    # sinks: whoever reads text_ptr for output also reads text_trunc
    n = 0
    for g in prog.funcs.values():
        if g.name == 'LogPrintfFunc' or g.name.endswith('onLogFrontEnd') or g.name.endswith('onLogBackEndReadPipe'):
            continue
        reads = [st for st in q.field_refs(g, 'LogContent::text_ptr') if locks.classify_access(g, st['i']) == 'r']
        if reads:
            n += 1
            tr2 = q.field_refs(g, 'LogContent::text_trunc')
            ctx.ob('C09.R5', '%s|marker' % g.name, bool(tr2), 'prints the text and consults text_trunc', where=g.loc(reads[0]['i']))
    if n < 2:
        raise AnalysisBroken('expected >=2 sink printers of text_ptr, found %d' % n)


def r6(ctx, prog):
    ctx.rule('C09.R6', 'A4: the back end consumes a record only when header + text_len bytes are readable, and consumes exactly those', floor=2)
    f = prog.fn1(ASINK + '::onLogBackEndReadPipe')
    hr = [st for st in f.calls() if st.get('fn') == 'hasRead' and q.obj_field_is(f, st, 'AsyncSink::buffer_')]
    if not hr:
        raise AnalysisBroken('onLogBackEndReadPipe: no hasRead on the receive buffer found')
    # the break test: frame_size > readableSize()
    tests = []
    for st in f.stmts:
        if st and st['k'] == 'BinaryOperator' and st.get('op') in ('>', '<', '>=', '<='):
            sub = q.subtree_calls(f, st['i'])
            if any(c.get('fn') == 'readableSize' for c in sub):
                tests.append(st)
    def depends_on_textlen(sid):
        ds = set()
        for x in f.walk(sid):
            s_ = f.stmts[x]
            if s_['k'] == 'MemberExpr' and s_.get('q', '').endswith('LogContent::text_len'):
                return True
            if s_['k'] == 'DeclRefExpr' and s_.get('dk') == 'Var':
                ds.add(s_.get('d'))
        for st in f.stmts:
            if st and st['k'] == 'DeclStmt':
                for d in st['decls']:
                    if d.get('d') in ds and 'init' in d and any(f.stmts[y]['k'] == 'MemberExpr' and f.stmts[y].get('q', '').endswith('LogContent::text_len') for y in f.walk(d['init'])):
                        return True
        return False
    frame_tests = [t for t in tests if depends_on_textlen(t['i'])]
    for h in hr:
        hp = q.pt(f, h)
        ok = any(f.cfg.dominates(q.pt(f, t), hp) for t in frame_tests)
        ctx.ob('C09.R6', '%s|complete-before-consume' % f.name, ok, 'hasRead dominated by the "whole frame readable" test', where=f.loc(h['i']))
    # how much is consumed — header then text, or the whole frame at once — is decided exactly by the replay C09.R13 (every segmentation of short streams);
    # here only: each consume is a function of the header size and/or the record's text length, nothing else
    okc = all(f.s(f.strip_casts(h['args'][0])).get('cv') is not None or depends_on_textlen(h['args'][0]) for h in hr)
    ctx.ob('C09.R6', '%s|consume-exact' % f.name, okc, 'every consume is sized by sizeof(header) and/or the record\'s text_len' if okc else
           'a consume of the receive buffer is sized by something other than the header size and the record\'s text length', where=f.loc(hr[0]['i']))


def r7(ctx, prog):
    ctx.rule('C09.R7', 'A4: the file sink closes/rolls its file only after the whole batch was written and counted; disable() unregisters '
                       'the sink before tearing the pipe down (which joins the back end)', floor=3)
    fl = prog.fn1('tbox::log::AsyncFileSink::flush')
    wr = [st for st in fl.stmts if st and st['k'] == 'CallExpr' and st.get('callee') == 'write']
    cl = [st for st in fl.stmts if st and st['k'] == 'CallExpr' and st.get('callee') == 'close']
    cnt = q.writes(fl, 'AsyncFileSink::total_write_size_')
    if not wr or not cl or not cnt:
        raise AnalysisBroken('AsyncFileSink::flush: write/close/counter events missing (%d/%d/%d)' % (len(wr), len(cl), len(cnt)))
    for c in cl:
        cp = q.pt(fl, c)
        ok = all(fl.cfg.dominates(q.pt(fl, w), cp) for w in wr) and any(fl.cfg.dominates(q.pt(fl, x), cp) for x in cnt)
        ctx.ob('C09.R7', '%s|roll-after-batch' % fl.name, ok, 'close() is dominated by the batch write and the size accounting', where=fl.loc(c['i']))
        cbs = fl.cfg.controlling_branches(cp)
        ok2 = any({'tbox::log::AsyncFileSink::total_write_size_', 'tbox::log::AsyncFileSink::file_max_size_'} <= q.subtree_fields(fl, cnd) for cnd, k, b in cbs)
        ctx.ob('C09.R7', '%s|roll-on-size' % fl.name, ok2, 'roll-over is control dependent on total_write_size_ vs file_max_size_', where=fl.loc(c['i']))
    d = prog.fn1(SINK + '::disable')
    rm = q.calls(d, callee='LogRemovePrintfFunc')
    od = [st for st in d.calls() if st.get('fn') == 'onDisable']
    if not rm or not od:
        raise AnalysisBroken('Sink::disable: LogRemovePrintfFunc/onDisable missing')
    ctx.ob('C09.R7', '%s|unregister-first' % d.name, all(d.cfg.dominates(q.pt(d, rm[0]), q.pt(d, o)) for o in od),
           'LogRemovePrintfFunc dominates onDisable()', where=d.loc(od[0]['i']))
    ad = prog.fn1(ASINK + '::onDisable')
    ctx.ob('C09.R7', '%s|pipe-cleanup' % ad.name, bool(q.calls(ad, callee=PIPE + '::cleanup')), 'AsyncSink::onDisable tears the pipe down (flush + join, see C10.R5)', where=ad.loc(ad.body))


def r8(ctx, prog):
    ctx.rule('C09.R8', 'A2: nothing reachable from a sink\'s log handler logs again (the dispatch lock is not recursive)', floor=1)
    h = prog.fn1(SINK + '::HandleLog')
    # virtual onLogFrontEnd: follow every override in the program
    seen = {}
    work = [h]
    while work:
        g = work.pop()
        if g.key in seen:
            continue
        seen[g.key] = g
        for st in g.calls():
            tgts = list(prog.by_usr.get(st.get('usr'), ()))
            if st.get('virt'):
                nm = st.get('fn')
                for o in prog.funcs.values():
                    if o.short == nm and any(ov['usr'] == st.get('usr') for ov in o.d.get('overrides', ())):
                        tgts.append(o)
            for t in tgts:
                if t.parent_usr is None:
                    work.append(t)
        for l in prog.lambdas_of.get(g.key, ()):
            work.append(l)
    bad = []
    for g in seen.values():
        for st in g.calls():
            if st.get('callee') in ('LogPrintfFunc',):
                bad.append('%s at %s' % (g.name, g.loc(st['i'])))
    ctx.ob('C09.R8', '%s|no-relog' % h.name, not bad, 'functions reachable from the handler: %d; calls to LogPrintfFunc: %s' % (len(seen), bad or 'none'))
    if len(seen) < 8:
        raise AnalysisBroken('handler call graph too small (%d) — virtual overrides not resolved' % len(seen))


RECORD_FIELDS = ('level', 'sec', 'usec', 'thread_id', 'module_id', 'func_name', 'text_ptr', 'text_len', 'file_name', 'line')


def r9(ctx, prog):
    ctx.rule('C09.R9', 'A12 record completeness: the producer fills every field of LogContent and every sink formatter prints every one of them '
             '(level, time, thread id, module, function, text, file and line) — a record with a field left out is not "intact"', floor=3)
    # producer
    f = prog.fn1('LogPrintfFunc')
    inits = set()
    for st in f.stmts:
        if st and st['k'] in ('DesignatedInitExpr',):
            pass
    # the designated initialiser list names each field; accept either designators or later member stores
    txt_fields = set()
    for st in f.stmts:
        if st and st['k'] == 'MemberExpr' and st.get('mk') == 'field' and st.get('q', '').split('::')[-1] in RECORD_FIELDS + ('text_trunc', 'timestamp'):
            txt_fields.add(st['q'].split('::')[-1])
    cls = prog.classes.get('LogContent') or {}
    declared = {fd['n'] for fd in cls.get('fields', ())}
    if declared and not {'thread_id', 'module_id', 'func_name', 'file_name', 'line', 'level', 'text_len', 'text_ptr', 'text_trunc'} <= declared:
        raise AnalysisBroken('LogContent lost a field: %s' % sorted(declared))
    # formatters: every function that receives a LogContent and prints (snprintf/append/cout) — the async back end and the synchronous stdout sink
    n = 0
    for g in prog.funcs.values():
        if g.parent_usr or not g.file.startswith(MODULES + '/log/'):
            continue
        if g.short not in ('onLogBackEnd', 'onLogFrontEnd'):
            continue
        used = {st['q'].split('::')[-1] for st in g.stmts if st and st['k'] == 'MemberExpr' and st.get('mk') == 'field' and 'LogContent' in st.get('q', '')}
        # anonymous struct members are qualified differently
        used |= {st['n'] for st in g.stmts if st and st['k'] == 'MemberExpr' and st.get('n') in ('sec', 'usec')}
        prints = [c for c in g.calls() if c.get('callee') in ('snprintf', 'printf', 'fprintf', 'sprintf') or c.get('fn') in ('snprintf', 'printf', 'fprintf') or c.get('op') == '<<']
        if not prints or not used:
            continue        # a forwarding front end (copies the record into the pipe): completeness is the back end's job
        n += 1
        missing = [x for x in RECORD_FIELDS if x not in used]
        ctx.ob('C09.R9', '%s|prints-all-fields' % g.name, not missing, 'formatter prints every record field' if not missing else
               'formatter never reads %s: records of this sink come out without it' % ', '.join(missing), where=g.loc(g.body))
    if n < 2:
        raise AnalysisBroken('expected >= 2 sink formatters (async back end, sync stdout), found %d' % n)
    # provenance of the identity fields: the thread id is asked from the kernel in this very call (a cached copy — static / thread_local —
    # survives fork() and then names a thread of another process); the time comes from a clock reading taken in this call
    def pure_tid(g, e, depth=0):
        x = g.s(g.strip_casts(e))
        if x is None or depth > 3:
            return False
        if x['k'] == 'CallExpr' and x.get('callee') == 'syscall' and x.get('args') and g.s(g.strip_casts(x['args'][0])).get('cv') == 186:
            return True
        if x['k'] == 'CallExpr' and x.get('callee') in ('gettid',):
            return True
        if x['k'] in q.CALL_KINDS and x.get('usr'):
            hs = [h for h in prog.by_usr.get(x['usr'], ()) if not h.parent_usr]
            if len(hs) == 1:
                h = hs[0]
                statics = [d for st_ in h.stmts if st_ and st_['k'] == 'DeclStmt' for d in st_['decls'] if d.get('static') or 'thread' in (d.get('t') or '')]
                glob = [st_ for st_ in h.stmts if st_ and st_['k'] == 'DeclRefExpr' and st_.get('gl') and st_.get('dk') == 'Var']
                rets = q.returns(h)
                return not statics and not glob and bool(rets) and all(r.get('val') is not None and pure_tid(h, r['val'], depth + 1) for r in rets)
        return False
    il = [st for st in f.stmts if st and st['k'] == 'InitListExpr' and 'LogContent' in (st.get('t') or '')]
    if not il:
        raise AnalysisBroken('LogPrintfFunc: initialiser of the LogContent record not found')
    fields = [fd['n'] for fd in cls.get('fields', ())]
    ti = fields.index('thread_id') if 'thread_id' in fields else 0
    okt = len(il[0]['ch']) > ti and pure_tid(f, il[0]['ch'][ti])
    ctx.ob('C09.R9', 'LogPrintfFunc|thread-id-fresh', okt, 'thread_id is syscall(SYS_gettid) evaluated in this call' if okt else
           'thread_id does not come from a gettid system call made in this call (a value cached in static / thread-local storage is inherited by a forked child and then '
           'names a thread of the parent process)', where=f.loc(il[0]['ch'][ti] if len(il[0]['ch']) > ti else il[0]['i']))
    tcalls = [c for c in f.calls() if c.get('callee') in ('gettimeofday', 'clock_gettime')]
    tv_ok = bool(tcalls) and all(f.cfg.dominates(q.pt(f, tcalls[0]), q.pt(f, il[0])) for _ in (0,)) and \
        any(f.path(a) and f.path(a) in ' '.join(q.subtree_paths(f, il[0]['i'])) for a in tcalls[0].get('args', ())[:1])
    ctx.ob('C09.R9', 'LogPrintfFunc|time-fresh', tv_ok, 'the timestamp is read with %s in this call, before the record is built' % (tcalls[0]['callee'] if tcalls else '?'), where=f.loc(il[0]['i']))
    # the pipe carries the whole record: the front end appends sizeof(LogContent) bytes of the record itself
    fe = prog.fn1(ASINK + '::onLogFrontEnd')
    aps = [c for c in fe.calls() if c.get('fn') == 'append']
    ok = any(fe.path(c['args'][0]) == fe.params[0]['n'] and q.const_of(fe, c['args'][1]) is not None for c in aps if len(c.get('args', ())) == 2)
    ctx.ob('C09.R9', '%s|whole-header' % fe.name, ok, 'the front end ships the whole LogContent (sizeof) through the pipe', where=fe.loc(fe.body))


def r10(ctx, prog):
    ctx.rule('C09.R10', 'A10 (interval abstract interpretation): the level stored in a record lies inside the level tables: LogPrintfFunc clamps `level` into '
             '[0, LOG_LEVEL_MAX) before it builds the record, the record\'s level is that variable, and sinks index the level tables only with the record\'s level', floor=4)
    from tbxlint import absint
    tables = {k.split('::')[-1]: v[0].get('n_elems') for k, v in prog.globals.items() if k.split('::')[-1] in ('LOG_LEVEL_LEVEL_CODE', 'LOG_LEVEL_COLOR_CODE')}
    if len(tables) < 2 or not all(tables.values()):
        raise AnalysisBroken('level tables not found: %s' % tables)
    size = min(tables.values())
    f = prog.fn1('LogPrintfFunc')
    it = absint.Interp(f).run()
    lv = next((p_ for p_ in f.params if p_['n'] == 'level'), None)
    decl = [st for st in f.stmts if st and st['k'] == 'DeclStmt' and any('LogContent' in (d.get('ct') or d.get('t') or '') for d in st['decls'])]
    if lv is None or not decl:
        raise AnalysisBroken('LogPrintfFunc: level parameter / LogContent record not found')
    env = it.at(decl[0]['i']) or {}
    iv = env.get(lv['d'], it.types.get(lv['d']))
    ok = iv is not None and iv[0] >= 0 and iv[1] <= size - 1
    ctx.ob('C09.R10', 'LogPrintfFunc|level-clamped', ok, 'level is in [%d, %d] where the record is built (tables have %d entries)' % (iv[0], iv[1], size) if ok else
           'level can be %s where the record is built but the level tables have %d entries: a sink indexes them out of bounds' % (iv, size), where=f.loc(decl[0]['i']))
    # the record's level field is initialised from that variable
    uses = [st for st in f.stmts if st and st['k'] == 'DeclRefExpr' and st.get('d') == lv['d'] and st['i'] in set(f.walk(decl[0]['i']))]
    ctx.ob('C09.R10', 'LogPrintfFunc|record-level', bool(uses), 'the record is initialised with the clamped variable', where=f.loc(decl[0]['i']))
    n = 0
    for g in prog.funcs.values():
        if not (g.file.startswith(MODULES + '/log/') or g.file.endswith('base/log_output.cpp')):
            continue
        for st in g.stmts:
            if st and st['k'] == 'ArraySubscriptExpr' and g.path(st['ch'][0]).split('::')[-1] in tables:
                n += 1
                idx = g.path(st['ch'][1])
                ok = idx.endswith('.level') or idx == 'level'
                ctx.ob('C09.R10', '%s|index@%s' % (g.name, g.loc(st['i']).split(':')[-1]), ok, 'table %s indexed with %s' % (g.path(st['ch'][0]).split('::')[-1], idx) if ok else
                       'level table indexed with %s, which is not the record\'s (clamped) level' % idx, where=g.loc(st['i']))
    if n < 2:
        raise AnalysisBroken('expected >= 2 level-table subscripts in the sinks, saw %d' % n)


def r11(ctx, prog):
    ctx.rule('C09.R11', 'A10 record framing and sentinels by folding: the asynchronous back end takes a record out of its buffer exactly when the whole frame (header + text) '
             'is there — the loop test folds to "readable >= sizeof(LogContent)" and the incomplete-frame test to "frame > readable" over a grid, so a record that exactly '
             'fills the buffer is not held back; text is appended and printed exactly when text_len >= 1; a sink registers with the logger exactly when its id is 0 (the '
             'value the logger never hands out) and unregisters exactly when it is not', floor=6)
    n = 0
    be = prog.fn1('tbox::log::AsyncSink::onLogBackEndReadPipe')
    loops = [st for st in be.stmts if st and st['k'] == 'WhileStmt' and st.get('cond') is not None and any(c.get('fn') == 'readableSize' for c in q.subtree_calls(be, st['cond']))]
    if len(loops) != 1:
        raise AnalysisBroken('AsyncSink::onLogBackEndReadPipe: the frame loop was not found')
    lp = loops[0]
    H = None
    for x in be.walk(lp['cond']):
        if be.stmts[x]['k'] == 'UnaryExprOrTypeTraitExpr' and be.stmts[x].get('cv') is not None:
            H = be.stmts[x]['cv']
    if H is None:
        raise AnalysisBroken('AsyncSink: sizeof(LogContent) not folded in the loop test')
    rs = lambda sx: sx['k'] in q.CALL_KINDS and sx.get('fn') == 'readableSize'
    bad = [r for r in (0, H - 1, H, H + 1, 2 * H) if bool(q.eval_expr(be, lp['cond'], lambda sx, r=r: r if rs(sx) else None)) != (r >= H)]
    n += 1
    ctx.ob('C09.R11', 'AsyncSink|header-complete', not bad, 'a header is examined exactly when readable >= %d' % H if not bad else
           'with %d readable byte(s) (header = %d) the loop %s' % (bad[0], H, 'does not examine a complete header: a record without text is held back' if bad[0] >= H else 'reads a header that is not there'),
           where=be.loc(lp['cond']))
    brk = [st for st in be.stmts if st and st['k'] == 'BreakStmt' and st['i'] in set(be.walk(lp['i']))]
    for b_ in brk:
        conds = [c for c, k, bb in be.cfg.controlling_branches(q.pt_or_term(be, b_)) if c != lp['cond'] and any(rs(be.stmts[x]) for x in be.walk(c))]
        for c in conds:
            names = {be.stmts[x].get('n') for x in be.walk(c) if be.stmts[x]['k'] == 'DeclRefExpr' and be.stmts[x].get('dk') == 'Var'}
            bad = []
            for fs in (H, H + 1, H + 5):
                for r in (H, H + 1, H + 4, H + 5, H + 6):
                    v = q.eval_expr(be, c, lambda sx, fs=fs, r=r: r if rs(sx) else (fs if (sx['k'] == 'DeclRefExpr' and sx.get('n') in names) else None))
                    if v is None or bool(v) != (fs > r):
                        bad.append((fs, r))
            n += 1
            ctx.ob('C09.R11', 'AsyncSink|frame-complete', not bad, 'the loop stops exactly when the frame is longer than what is buffered' if not bad else
                   'with a frame of %d bytes and %d buffered the record is %s' % (bad[0][0], bad[0][1], 'held back although complete: the last record of a burst is written only when the '
                                                                                    'next one arrives (or never)' if bad[0][0] <= bad[0][1] else 'taken although incomplete'), where=be.loc(c))
    # text_len >= 1
    tl = lambda sx: sx['k'] == 'MemberExpr' and sx.get('n') == 'text_len'
    for name in ('tbox::log::AsyncSink::onLogFrontEnd', 'tbox::log::AsyncSink::onLogBackEnd', 'tbox::log::SyncStdoutSink::onLogFrontEnd'):
        fs_ = prog.fn(name)
        for g in fs_:
            for blk in g.cfg.blocks.values():
                if blk.cond is not None and any(tl(g.stmts[x]) for x in g.walk(blk.cond)) and not any(g.stmts[x]['k'] == 'DeclRefExpr' and g.stmts[x].get('dk') == 'Var' for x in g.walk(blk.cond)):
                    bad = [v for v in range(0, 4) if bool(q.eval_expr(g, blk.cond, lambda sx, v=v: v if tl(sx) else None)) != (v >= 1)]
                    n += 1
                    ctx.ob('C09.R11', '%s|text-iff-nonempty@%s' % (g.name.split('::')[-2] + '::' + g.short, g.loc(blk.cond).split(':')[-1]), not bad,
                           'the text is handled exactly when text_len >= 1' if not bad else 'a text of %d byte(s) is %s' % (bad[0], 'dropped' if bad[0] >= 1 else 'read although empty'), where=g.loc(blk.cond))
    # sink registration sentinel
    oid = lambda sx: sx['k'] == 'MemberExpr' and sx.get('n') == 'output_id_'
    for mname, want_zero, act in (('enable', True, 'LogAddPrintfFunc'), ('disable', False, 'LogRemovePrintfFunc')):
        g = prog.fn1('tbox::log::Sink::' + mname)
        calls = [c for c in g.calls() if c.get('callee', '').endswith(act)]
        if not calls:
            raise AnalysisBroken('Sink::%s: %s not called' % (mname, act))
        for cond, k, b in g.cfg.controlling_branches(q.pt(g, calls[0])):
            if any(oid(g.stmts[x]) for x in g.walk(cond)):
                bad = [v for v in range(0, 4) if (bool(q.eval_expr(g, cond, lambda sx, v=v: v if oid(sx) else None)) == (k == 0)) != ((v == 0) == want_zero)]
                n += 1
                ctx.ob('C09.R11', 'Sink::%s|id-sentinel' % mname, not bad, '%s exactly when output_id_ %s 0' % (act, '==' if want_zero else '!=') if not bad else
                       'Sink::%s() %s for output_id_ == %d: 0 is the only value that means "not registered" (the logger counts ids up from 1)' %
                       (mname, 'skips the registration' if want_zero and bad[0] == 0 else 'acts', bad[0]), where=g.loc(cond))
    adds = [g for g in prog.funcs.values() if g.short == 'LogAddPrintfFunc' and not g.parent_usr]
    add = adds[0] if adds else None
    if add is not None:
        pre = [st for st in add.stmts if st and st['k'] == 'UnaryOperator' and st.get('op') == '++' and not st.get('post')]
        n += 1
        ctx.ob('C09.R11', 'LogAddPrintfFunc|never-zero', bool(pre), 'ids are handed out by pre-increment from 0: the first is 1', where=add.loc(add.body))
    # the cached time-stamp text is rebuilt exactly when the second it was built for differs from the record's second (time may also step back)
    up = [g for g in prog.funcs.values() if g.short == 'updateTimestampStr' and not g.parent_usr]
    for g in up:
        par = g.params[0]['n'] if g.params else None
        for blk in g.cfg.blocks.values():
            if blk.cond is None or not any(x.endswith('timestamp_sec_') for x in q.subtree_fields(g, blk.cond)):
                continue
            bad = []
            for c_ in range(0, 4):
                for s_ in range(0, 4):
                    v = q.eval_expr(g, blk.cond, lambda sx, c_=c_, s_=s_: c_ if (sx['k'] == 'MemberExpr' and sx.get('n') == 'timestamp_sec_') else
                                    (s_ if (sx['k'] == 'DeclRefExpr' and sx.get('n') == par) else None))
                    if v is None or bool(v) != (c_ != s_):
                        bad.append((c_, s_))
            n += 1
            ctx.ob('C09.R11', '%s|timestamp-cache' % g.name, not bad, 'the cached date/time text is rebuilt exactly when its second differs from the record\'s' if not bad else
                   'with the text cached for second %d and a record of second %d the cached text is %s: the record is written with another record\'s date and time' %
                   (bad[0][0], bad[0][1], 'kept' if bad[0][0] != bad[0][1] else 'rebuilt needlessly'), where=g.loc(blk.cond))
    # the file sink does not change files in the middle of a batch: within one flush() no write follows a close of the file
    fl = prog.fn1('tbox::log::AsyncFileSink::flush')
    wr = [c for c in fl.calls() if c.get('callee') in ('write', '::write') or (c.get('fn') == 'write' and c['k'] == 'CallExpr')]
    cl = [c for c in fl.calls() if c.get('callee') in ('close', '::close')] + \
         [st for st in fl.stmts if st and st['k'] == 'BinaryOperator' and st.get('op') == '=' and (fl.field_of(st['ch'][0]) or '').endswith('::fd_')]
    if not wr:
        raise AnalysisBroken('AsyncFileSink::flush: write() not found')
    split = [(c_, w_) for c_ in cl for w_ in wr if fl.cfg.exists_path(q.pt_or_term(fl, c_), q.pt(fl, w_))]
    n += 1
    ctx.ob('C09.R11', '%s|batch-one-file' % fl.name, not split, 'within one flush() nothing is written after the file was closed: a batch of records goes to one file' if not split else
           'flush() can close the file at %s and write more of the same batch at %s: the batch is cut at a byte position that need not be a record boundary (a record whose text '
           'contains a line break is split over two files)' % (fl.loc(split[0][0]['i']), fl.loc(split[0][1]['i'])), where=fl.loc(split[0][1]['i']) if split else fl.loc(fl.body))
    if n < 6:
        raise AnalysisBroken('expected >= 6 framing/sentinel tests in the sinks, found %d' % n)


def run(ctx):
    prog = extract('ALL' if ctx.tier == 'thorough' else scope_units())
    ctx.guard(r1, ctx, prog)
    ctx.guard(r2_r3, ctx, prog)
    ctx.guard(r4, ctx, prog)
    ctx.guard(r5, ctx, prog)
    ctx.guard(r6, ctx, prog)
    ctx.guard(r7, ctx, prog)
    ctx.guard(r8, ctx, prog)
    ctx.guard(r9, ctx, prog)
    ctx.guard(r10, ctx, prog)
    ctx.guard(r11, ctx, prog)
    ctx.guard(C09_replay.r12, ctx, prog)
    ctx.guard(C09_replay.r13, ctx, prog)
    from rules import C09_sinks
    ctx.guard(C09_sinks.r14, ctx, prog)
    from rules import C09_async
    ctx.guard(C09_async.r15, ctx, prog)
    return prog
