"""C12 — the response side of the HTTP server replayed over every completion order (C12.R16).  Imported by rules/C12.py.

The bench of C12.R14 (rules/C12_replay.py: onTcpReceived over the interpreted Buffer and RequestParser) dispatches one to four pipelined requests, one of which may ask for
the connection to be closed (requests written after it must not be dispatched).  The handlers then complete in every order: Server::Impl::commitRespond is interpreted for
every permutation of the dispatched requests, the transport reports "send completed" (onTcpSendCompleted) after every burst or only at the end, and the peer may drop the
connection (onTcpDisconnected) at any point between two completions.  The TCP server is a model of the harness: send() appends to the wire, disconnect() ends the
connection, isClientValid() says whether it still exists; deleting the connection record runs ~Connection.

What C12 says: every dispatched request gets its response on the wire exactly once, in the order of arrival, whatever the completion order; a response is on the wire as
soon as it and all earlier ones are complete; nothing is written after the response to the request that asked for the close, and the connection is closed once — when the
transport has sent that response; after the connection is gone nothing is written; every Respond is released exactly once."""
import itertools
from tbxlint.facts import AnalysisBroken
from tbxlint.minterp import P, S
from rules import C12_replay
from rules.C12_replay import H, IMPL, req

CONN = IMPL + '::Connection'


class RBench(C12_replay.Bench):
    def __init__(self, prog):
        C12_replay.Bench.__init__(self, prog)
        it = self.it
        self.alive = True
        self.pending = []           # indices dispatched, in order
        self.wire = []              # ids of the responses written
        self.released = {}          # id -> times deleted
        self.sent_since_report = False
        it.hooks.update({'make_shared': self.h_ctx2, 'handle': self.h_handle2, 'isClientValid': lambda it_, f, st, a: int(self.alive), 'send': self.h_send,
                         'toString': self.h_tostring, 'disconnect': self.h_disconnect2, 'getContext': lambda it_, f, st, a: it_.ref(self.conn) if self.alive else 0})
        it.delete_hooks.append(self.h_delete)
        self.ct = {'__cls__': None, '__open__': True}
        it._keep.append(self.ct)
        self.dtor = [g for g in prog.funcs.values() if g.name == CONN + '::~Connection' and g.body is not None]
        if len(self.dtor) != 1:
            raise AnalysisBroken('Connection::~Connection: %d definition(s)' % len(self.dtor))
        self.res = {}

    def h_ctx2(self, it, f, st, a):
        return ('ctx', a[-1], a[-2])

    def h_handle2(self, it, f, st, a):
        if not isinstance(a[0], tuple) or not isinstance(a[0][2], int):
            raise AnalysisBroken('handle() is not given the context with the request index')
        self.pending.append(a[0][2])

    def h_tostring(self, it, f, st, a):
        r = it.record_of(it.cur_obj) if it.cur_obj is not None else None
        if r is None or 'id' not in r:
            return S('')
        return S('R%d;' % r['id'])

    def h_send(self, it, f, st, a):
        if not self.alive:
            self.problem('send() on a connection that is gone')
        t = it.to_text(a[1]) if len(a) > 1 else None
        n = a[2] if len(a) > 2 else None
        if not isinstance(t, str) or not isinstance(n, int):
            raise AnalysisBroken('send(): the replay does not hold what is written (%s)' % f.loc(st['i']))
        self.wire.append(t[:n])
        self.sent_since_report = True
        return 1

    def h_disconnect2(self, it, f, st, a):
        if not self.alive:
            self.problem('disconnect() of a connection that is gone')
        self.disconnected += 1
        self.alive = False
        return 1

    def h_delete(self, it, f, st, rec):
        if rec.get('__cls__') == H + 'Respond':
            self.released[rec['id']] = self.released.get(rec['id'], 0) + 1
        elif rec is self.conn:
            it.call(self.dtor[0], [], this=rec)

    why = None

    def problem(self, what):
        if self.why is None:
            self.why = what

    def new_res(self, i):
        r = {'__cls__': H + 'Respond', '__open__': True, 'id': i}
        self.it._keep.append(r)
        self.res[i] = r
        return self.it.ref(r)

    def commit(self, i):
        g = self.prog.fn1(IMPL + '::commitRespond')
        self.it.call(g, [self.it.ref(self.ct), i, self.new_res(i)], this=self.impl)

    def send_completed(self):
        self.sent_since_report = False
        g = self.prog.fn1(IMPL + '::onTcpSendCompleted')
        self.it.call(g, [self.it.ref(self.ct)], this=self.impl)

    def peer_gone(self):
        g = self.prog.fn1(IMPL + '::onTcpDisconnected')
        self.it.call(g, [self.it.ref(self.ct)], this=self.impl)
        self.alive = False


def stream(n, close_at, value='close'):
    out = []
    for i in range(n):
        hs = [('Connection', value)] if i == close_at else []
        out.append(req('GET', '/r%d' % i, headers=hs)[0])
    return ''.join(out)


def run_case(prog, n, close_at, order, report, drop_at, value='close'):
    """n requests, the close_at-th asks for the close; handlers complete in `order`; report = 'eager' | 'late'; the peer drops the connection before the drop_at-th completion"""
    b = RBench(prog)
    b.feed(stream(n, close_at, value))
    if b.it.faults:
        return 'dispatch: %s' % b.it.faults[0]
    expect_dispatched = list(range(n if close_at is None else close_at + 1))
    if b.pending != expect_dispatched:
        return 'requests dispatched: %s, written before and including the one that asks for the close: %s' % (b.pending, expect_dispatched)
    if close_at is not None:
        b.feed(req('GET', '/late')[0])          # what arrives after the closing request, in a later segment, is not a request any more
        if b.it.faults:
            return 'a segment after the closing request: %s' % b.it.faults[0]
        if b.pending != expect_dispatched:
            return 'a request that arrives in a later segment than the one that asked for the close is dispatched'
    done = set()
    want_wire = []
    closed_by_server = False
    for step, i in enumerate(order):
        if drop_at == step and b.alive:
            b.peer_gone()
        before = len(b.wire)
        b.commit(i)
        if b.it.faults:
            return 'completion of request %d: %s' % (i, b.it.faults[0])
        done.add(i)
        if b.alive:
            while len(want_wire) in done:
                want_wire.append(len(want_wire))
        text = ['R%d;' % k for k in want_wire]
        if b.wire != text:
            return 'after the completion of %s the wire holds %s, in order of arrival it must hold %s' % (sorted(done), ''.join(b.wire) or '-', ''.join(text) or '-')
        if report == 'eager' and b.sent_since_report and b.alive:
            b.send_completed()
            if b.it.faults:
                return 'send completed after request %d: %s' % (i, b.it.faults[0])
        if b.why:
            return b.why
    if b.alive:
        b.send_completed()
        if b.it.faults:
            return 'send completed at the end: %s' % b.it.faults[0]
    if b.why:
        return b.why
    dropped = drop_at is not None and drop_at < len(order)
    all_sent = len(want_wire) == len(expect_dispatched)
    if close_at is not None and all_sent and not dropped:
        if b.disconnected != 1:
            return 'the response to the request that asked for the close has been sent and the connection was closed %d time(s)' % b.disconnected
    elif b.disconnected:
        return 'the connection is closed by the server (%d time(s)) although %s' % (b.disconnected, 'no request asked for it' if close_at is None else 'the response to the closing request is not out')
    if b.alive and close_at is not None and all_sent:
        return 'the connection stays open after the closing response'
    if b.alive:
        b.peer_gone()           # the end of every connection: what is still parked must be released with it
        if b.it.faults:
            return 'teardown: %s' % b.it.faults[0]
    for i in order:
        k = b.released.get(i, 0)
        if k != 1:
            return 'the Respond of request %d is released %d time(s)' % (i, k)
    return None


def r16(ctx, prog):
    cases = []
    nmax = 4 if ctx.tier == 'thorough' else 3
    for n in range(1, nmax + 1):
        for close_at in [None] + list(range(n)):
            nd = n if close_at is None else close_at + 1
            for order in itertools.permutations(range(nd)):
                for report in ('eager', 'late'):
                    for drop_at in [None] + list(range(nd)):
                        cases.append((n, close_at, order, report, drop_at))
    # the ways a request asks for the close: the option alone, and as one of a list of options (RFC 7230 6.1), in both positions
    for value in ('TE, close', 'close, TE', 'Upgrade,close'):
        cases.append((2, 0, (0,), 'eager', None, value))
        cases.append((3, 1, (1, 0), 'late', None, value))
    if nmax < 4:
        for order in itertools.permutations(range(4)):          # four requests, no close, no drop: the first size at which a flush can take a parked response out of turn
            cases.append((4, None, order, 'late', None))
    ctx.rule('C12.R16', 'A10 the response side by abstract replay: %d cases — one to %d pipelined requests dispatched by the interpreted onTcpReceived, one of them possibly asking for the close ("close" alone or in a list of connection options) '
             '(what is written after it is not dispatched; quick adds the 24 orders of four requests), the handlers completing in every order (commitRespond interpreted for every permutation), "send completed" reported '
             'after every burst or only at the end, the peer dropping the connection before any completion or never: after every completion the wire holds exactly the responses '
             'of the longest completed prefix, in order of arrival, once each; nothing is written after the closing response or on a connection that is gone; the server closes '
             'the connection exactly once, when the closing response has been sent, and never otherwise; every Respond is released exactly once (parked ones with the '
             'connection); no fault (erased iterator used, record used after delete)' % (len(cases), nmax), floor=1)
    need = [IMPL + '::commitRespond', IMPL + '::onTcpReceived', 'tbox::util::Buffer::append', H + 'server::RequestParser::parse']
    if not all(any(g.name == n_ for g in prog.funcs.values()) for n_ in need):
        from tbxlint.facts import extract
        prog = extract('ALL')
    bad = None
    for c in cases:
        why = run_case(prog, *c)
        if why:
            bad = (c, why)
            break
    f = prog.fn1(IMPL + '::commitRespond')
    ctx.ob('C12.R16', 'Server::Impl|responses', bad is None, '%d cases' % len(cases) if bad is None else
           '%d request(s)%s, completion order %s, send-completed %s%s: %s' % (bad[0][0], '' if bad[0][1] is None else ', request %d asks for the close%s' % (bad[0][1], ' ("Connection: %s")' % bad[0][5] if len(bad[0]) > 5 else ''), list(bad[0][2]), bad[0][3],
                                                                           '' if bad[0][4] is None else ', the peer drops the connection before completion #%d' % (bad[0][4] + 1), bad[1]),
           where=f.loc(f.body))
