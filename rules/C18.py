"""C18 — coroutine primitives (DESIGN §4 C18)."""
from tbxlint.facts import extract, AnalysisBroken, instantiate_unit
from tbxlint import locks, q, rd

CO = 'tbox::coroutine::'
SCH = CO + 'Scheduler'
# (class, blocking method, posting method, waiter queue field, resource fields)
PRIMS = [
    (CO + 'Channel<int>', 'operator>>', 'operator<<', 'token_', ('queue_',)),
    (CO + 'Mutex', 'lock', 'unlock', 'wait_tokens_', ('hold_token_',)),
    (CO + 'Semaphore', 'acquire', 'release', 'token_', ('count_',)),
]


def sch_calls(f, name):
    return [st for st in f.calls() if st.get('fn') == name and st.get('cls') == SCH]


def pushes(f, cls, field):
    return [st for st in f.calls() if st.get('fn') in ('push', 'push_back', 'emplace', 'emplace_back') and 'obj' in st and (f.field_of(st['obj']) or '') == cls + '::' + field
            and any(c.get('fn') == 'getToken' for a in st.get('args', []) for c in q.subtree_calls(f, a))]


def r1(ctx, prog):
    ctx.rule('C18.R1', 'A4: a waiter that re-checks in a loop re-registers: there is no path to sch_.wait() — first time or around the re-check '
                       'loop — that does not push the caller\'s token on the waiter queue since the previous wait', floor=3)
    for cls, blk, post, wq, res in PRIMS:
        f = prog.fn1(cls + '::' + blk)
        ws = sch_calls(f, 'wait')
        ps = pushes(f, cls, wq)
        if not ws:
            raise AnalysisBroken('%s: sch_.wait() not found' % f.name)
        for w in ws:
            wp = q.pt(f, w)
            first = not f.cfg.exists_path(f.cfg.entry_point(), wp, avoid=q.pts(f, ps))
            again = not f.cfg.exists_path(wp, wp, avoid=q.pts(f, ps))
            ctx.ob('C18.R1', '%s|registered-before-every-wait' % f.name, first and again and bool(ps),
                   'the token is queued before the first wait and again before every repeated wait' if first and again and ps else
                   ('the waiter queues its token once, outside the re-check loop: woken while the resource was taken again it waits without being queued and is never resumed'
                    if first and not again else 'wait() reachable without queuing the caller\'s token'), where=f.loc(w['i']))


def r2(ctx, prog):
    ctx.rule('C18.R2', 'A4: wake-up is not gated on the resource state: the poster resumes a queued waiter whenever the waiter queue is non-empty', floor=3)
    def cond_fields(g, cnd):
        """fields a condition depends on, local flags replaced by the fields of their definitions (one level)"""
        out = {x.split('::')[-1] for x in q.subtree_fields(g, cnd)}
        for x in g.walk(cnd):
            sx = g.stmts[x]
            if sx['k'] == 'DeclRefExpr' and sx.get('dk') == 'Var' and not sx.get('gl'):
                for d in rd.local_defs(g, sx['d']):
                    if d['rhs'] is not None:
                        out |= {y.split('::')[-1] for y in q.subtree_fields(g, d['rhs'])}
        return out
    for cls, blk, post, wq, res in PRIMS:
      posters = [g for g in prog.fn(cls + '::' + post) if not g.parent_usr]
      if not posters:
        raise AnalysisBroken('anchor function %s::%s not found' % (cls, post))
      for f0 in posters:       # every overload of the posting operation (const T&, T&&, ...)
          # the wake-up may sit in a private helper of the same class (e.g. wakeupOne())
          cands = [f0] + [h for c in f0.calls() for h in prog.by_usr.get(c.get('usr'), ()) if not h.parent_usr and h.name.startswith(cls + '::')]
          cands = [g for g in cands if sch_calls(g, 'resume')]
          if not cands:
              ctx.ob('C18.R2', '%s|wakes' % f0.name, False, 'the poster never resumes a waiter', where=f0.loc(f0.body))
              continue
          f = cands[0]
          rs = sch_calls(f, 'resume')
          if f is not f0:
              # the helper call itself must not be gated on the resource state in the poster
              for c in f0.calls():
                  if c.get('usr') == f.usr:
                      flds0 = set()
                      for cnd, br in q.lexical_guards(f0, c['i']):
                          flds0 |= cond_fields(f0, cnd)
                      ctx.ob('C18.R2', '%s|helper-ungated' % f0.name, not (flds0 & set(res)), 'the wake-up helper %s is called unconditionally w.r.t. the resource' % f.name.split('::')[-1]
                             if not (flds0 & set(res)) else 'the wake-up helper is only called under a test of the resource state (%s)' % sorted(flds0), where=f0.loc(c['i']))
          for r in rs:
              gs = q.lexical_guards(f, r['i'])
              flds = set()
              for c, br in gs:
                  flds |= {x.split('::')[-1] for x in q.subtree_fields(f, c)}
              # every branch that decides whether the wake-up happens (early returns included), not only the enclosing ifs
              for c, k, b in f.cfg.controlling_branches(q.pt(f, r)):
                  flds |= {x.split('::')[-1] for x in q.subtree_fields(f, c)}
              ok = wq in flds and not (flds - {wq})
              ctx.ob('C18.R2', '%s|wake-ungated' % f.name, ok,
                     'resume() is conditional only on the waiter queue (%s)' % sorted(flds) if ok else
                     'resume() is also conditional on state other than the waiter queue (%s): a post can then wake nobody although a waiter is queued and the resource is available' % sorted(flds - {wq}),
                     where=f.loc(r['i']))
              # the resumed token is the one popped from the front
              # (which end: the property fixes the order of the values, not of the waiters — the variant that wakes last-in first-out is behaviour-preserving for it)
              fr = [st for st in f.calls() if st.get('fn') in ('front', 'back') and 'obj' in st and (f.field_of(st['obj']) or '').endswith('::' + wq)]
              pp = [st for st in f.calls() if st.get('fn') in ('pop', 'pop_front', 'pop_back') and 'obj' in st and (f.field_of(st['obj']) or '').endswith('::' + wq)]
              same_end = bool(fr) and bool(pp) and {(fr[0]['fn'], pp[0]['fn'])} <= {('front', 'pop'), ('front', 'pop_front'), ('back', 'pop_back')}
              ctx.ob('C18.R2', '%s|fifo-wake' % f.name, same_end and f.cfg.dominates(q.pt(f, fr[0]), q.pt(f, r)), 'the waiter read at one end of the queue is the one popped and resumed', where=f.loc(r['i']))


def r3(ctx, prog):
    ctx.rule('C18.R3', 'A4: cancellation: after every sch_.wait() the primitive tests isCanceled() and fails before touching the resource; '
                       'Broadcast/Condition return !isCanceled(); Scheduler::wait/yield/join return at once when cancelled', floor=8)
    for cls, blk, post, wq, res in PRIMS:
        f = prog.fn1(cls + '::' + blk)
        ws = sch_calls(f, 'wait')
        cs = sch_calls(f, 'isCanceled')
        for w in ws:
            wp = q.pt(f, w)
            touch = []
            for r_ in res:
                for st in f.stmts:
                    if st and st['k'] == 'MemberExpr' and st.get('q') == cls + '::' + r_:
                        touch.append(st)
            bad = [t for t in touch if q.pt(f, t) and f.cfg.exists_path(wp, q.pt(f, t), avoid=q.pts(f, cs))]
            ctx.ob('C18.R3', '%s|cancel-checked' % f.name, bool(cs) and not bad, 'every path from wait() to the resource passes isCanceled()', where=f.loc(w['i']))
        for c in cs:
            rets = [r for r in q.returns(f) if q.return_const(f, r) == 0 and any(c['i'] in set(f.walk(cond)) and br == 'then' for cond, br in q.lexical_guards(f, r['i']))]
            ctx.ob('C18.R3', '%s|cancel-fails' % f.name, bool(rets), 'isCanceled() true returns false', where=f.loc(c['i']))
    for name in (CO + 'Broadcast::wait', CO + 'Condition<int>::wait'):
        f = prog.fn1(name)
        ws = sch_calls(f, 'wait')
        ok = bool(ws)
        for w in ws:
            after = [r for r in q.returns(f) if f.cfg.exists_path(q.pt(f, w), q.pt(f, r))]
            ok = ok and bool(after) and all(any(c2.get('fn') == 'isCanceled' for c2 in q.subtree_calls(f, r['val'])) and f.s(f.strip_casts(r['val'])).get('op') == '!' for r in after)
        ctx.ob('C18.R3', '%s|returns-not-cancelled' % f.name, ok, 'returns !isCanceled() after the wait', where=f.loc(f.body))
    for name in ('wait', 'yield', 'join'):
        f = prog.fn1(SCH + '::' + name)
        sw = [st for st in f.stmts if st and st['k'] == 'CallExpr' and st.get('callee') == 'swapcontext']
        ok = bool(sw)
        for s in sw:
            g = [(c, k) for c, k, b in f.cfg.controlling_branches(q.pt(f, s)) if any(x.endswith('is_canceled') for x in q.subtree_fields(f, c))]
            ok = ok and any(k == 1 for c, k in g)
        ctx.ob('C18.R3', '%s|returns-when-cancelled' % f.name, ok, 'the context switch is only reached when the routine is not cancelled', where=f.loc(f.body))


def r8(ctx, prog):
    ctx.rule('C18.R8', 'A4 every ready routine gets a scheduling pass: makeRoutineReady posts schedule() to the loop on every path that queued a routine; if the post is '
             'skipped because one is believed pending (a flag / stored run id), that belief is withdrawn wherever the pending post is cancelled and when schedule() starts', floor=1)
    f = prog.fn1(SCH + '::makeRoutineReady')
    push = [st for st in f.calls() if st.get('fn') in ('push', 'push_back', 'emplace') and 'ready_routines' in f.path(st.get('obj'))]
    post = [st for st in f.calls() if st.get('fn') in ('runNext', 'run', 'runInLoop') and st.get('cls') == 'tbox::event::Loop']
    if not push or not post:
        raise AnalysisBroken('makeRoutineReady: queueing / posting of schedule() not found')
    pp = q.pt(f, post[0])
    gflds = set()
    for c, k, b in f.cfg.controlling_branches(pp):
        if f.cfg.dominates(q.pt(f, push[0]), f.cfg.point_of(c)) or True:
            gflds |= {x for x in q.subtree_fields(f, c) if 'Data::' in x and not x.endswith('::state')}
    # guards that were there before the push (state tests deciding whether the routine is queued at all) are fine: only look at guards between push and post
    between = set()
    for c, k, b in f.cfg.controlling_branches(pp):
        cp = f.cfg.point_of(c)
        if cp is not None and f.cfg.exists_path(q.pt(f, push[0]), cp):
            between |= {x for x in q.subtree_fields(f, c) if 'Data::' in x}
    if not between:
        ctx.ob('C18.R8', '%s|post-unconditional' % f.name, q.must_follow(f, q.pt(f, push[0]), [pp]), 'every queued routine is followed by a posted schedule()', where=f.loc(post[0]['i']))
        return
    for fld in sorted(between):
        short = fld.split('::')[-1]
        sc = prog.fn1(SCH + '::schedule')
        reset_in_schedule = [a for a, rhs in q.assigns(sc, short)]
        bad = []
        for g in prog.methods_of(SCH):
            for c in g.calls():
                if c.get('fn') == 'cancel' and c.get('cls') == 'tbox::event::Loop' and any((g.field_of(a) or '').endswith(short) for a in c.get('args', ())):
                    resets = [a for a, rhs in q.assigns(g, short)]
                    if not any(g.cfg.exists_path(q.pt(g, c), q.pt(g, a)) for a in resets):
                        bad.append(g.loc(c['i']))
        ok = bool(reset_in_schedule) and not bad
        ctx.ob('C18.R8', '%s|pending-belief(%s)' % (f.name, short), ok,
               'the post is skipped while %s says one is pending; schedule() clears it and every cancel of the pending post clears it too' % short if ok else
               'makeRoutineReady skips the post while %s is set, but %s: afterwards routines are queued and nothing ever runs them (join/acquire/receive never return)' %
               (short, ('the pending post is cancelled at %s without clearing it' % ', '.join(bad)) if bad else 'schedule() never clears it'), where=f.loc(post[0]['i']))


def r6(ctx, prog):
    ctx.rule('C18.R6', 'A4: a cancelled waiter leaves nothing behind: on the isCanceled() exit of a blocking call the routine withdraws its own token from the '
             'waiter queue (else the next post wakes a dead token and the live waiter behind it sleeps on), and if its token was already taken by a post it '
             'passes that wake-up on to the next waiter', floor=6)
    for cls, blk, post, wq, res in PRIMS:
        f = prog.fn1(cls + '::' + blk)
        cs = sch_calls(f, 'isCanceled')
        if not cs:
            raise AnalysisBroken('%s: isCanceled() test missing' % f.name)
        for c in cs:
            ifs = [a for a in f.ancestors(c['i']) if f.stmts[a]['k'] == 'IfStmt' and c['i'] in set(f.walk(f.stmts[a]['cond']))]
            if not ifs:
                raise AnalysisBroken('%s: isCanceled() is not the condition of an if statement' % f.name)
            region = set(f.walk(f.stmts[ifs[0]]['then']))
            calls = [f.stmts[x] for x in region if f.stmts[x] and f.stmts[x]['k'] in q.CALL_KINDS]
            withdraw = [x for x in calls if x.get('fn') in ('erase', 'remove', 'remove_if') and ((f.field_of(x.get('obj')) or '').endswith('::' + wq) or
                        any((f.field_of(y.get('obj')) or '').endswith('::' + wq) for a in x.get('args', ()) for y in q.subtree_calls(f, a)))]
            own = any(y.get('fn') == 'getToken' for x in calls for y in [x] + [z for a in x.get('args', ()) for z in q.subtree_calls(f, a)])

            def wakes(g, depth=0):
                if sch_calls(g, 'resume'):
                    return True
                if depth >= 2:
                    return False
                return any(wakes(h, depth + 1) for c2 in g.calls() for h in prog.by_usr.get(c2.get('usr'), ()) if not h.parent_usr and h.name.startswith(cls + '::'))
            hand = [x for x in calls if (x.get('fn') == 'resume' and x.get('cls') == SCH) or
                    any(wakes(h) for h in prog.by_usr.get(x.get('usr'), ()) if not h.parent_usr and h.name.startswith(cls + '::'))]
            ctx.ob('C18.R6', '%s|withdraws' % f.name, bool(withdraw) and own,
                   'the cancel exit erases the caller\'s own token from %s' % wq if withdraw and own else
                   'the cancel exit returns with the caller\'s token still queued in %s: the next %s() resumes that dead token and a live waiter behind it is never woken '
                   'although the resource is available' % (wq, post), where=f.loc(c['i']))
            ctx.ob('C18.R6', '%s|hands-over' % f.name, bool(hand),
                   'the cancel exit passes a wake-up that was addressed to it on to the next waiter' if hand else
                   'a post that already popped this routine\'s token is swallowed by the cancel exit: the next waiter is not resumed although the resource is available',
                   where=f.loc(c['i']))


def r7(ctx, prog):
    ctx.rule('C18.R7', 'A4: a wake-up is a hint, not a grant: after sch_.wait() returns, a blocking call reaches its success exit only through a re-test of the '
             'resource (any routine may be resumed by Scheduler::resume(token) from elsewhere)', floor=3)
    for cls, blk, post, wq, res in PRIMS:
        f = prog.fn1(cls + '::' + blk)
        ws = sch_calls(f, 'wait')
        tests = []
        for b in f.cfg.blocks.values():
            if b.cond is not None and any(x.split('::')[-1] in res for x in q.subtree_fields(f, b.cond)):
                p = f.cfg.point_of(b.cond)
                if p is not None:
                    tests.append(p)
        succ = [r for r in q.returns(f) if q.return_const(f, r) != 0]
        for w in ws:
            bad = [r for r in succ if f.cfg.exists_path(q.pt(f, w), q.pt(f, r), avoid=tests)]
            ctx.ob('C18.R7', '%s|recheck-after-wake' % f.name, bool(tests) and not bad,
                   'every path from wait() to a success return re-tests %s' % '/'.join(res) if tests and not bad else
                   'a path from wait() reaches the success return at %s without re-testing %s: a routine resumed by anything but the matching post proceeds as if it '
                   'owned the resource' % (f.loc(bad[0]['i']) if bad else '?', '/'.join(res)), where=f.loc(w['i']))


def r4(ctx, prog):
    ctx.rule('C18.R4', 'A4: Broadcast::post resumes every queued token, then clears; Condition::post resumes the waiter when the all/any condition is met and resets the token', floor=2)
    f = prog.fn1(CO + 'Broadcast::post')
    loops = [l for l in f.stmts if l and l['k'] == 'CXXForRangeStmt' and (f.field_of(l['range']) or '').endswith('Broadcast::wait_tokens_')]
    rs = sch_calls(f, 'resume')
    clr = [st for st in f.calls() if st.get('fn') == 'clear' and 'obj' in st and (f.field_of(st['obj']) or '').endswith('Broadcast::wait_tokens_')]
    ok = len(loops) == 1 and len(rs) == 1 and rs[0]['i'] in set(f.walk(loops[0]['body'])) and not q.lexical_guards(f, rs[0]['i'])[:-1] and bool(clr) and \
        not f.cfg.exists_path(q.pt(f, clr[0]), q.pt(f, rs[0]))
    ctx.ob('C18.R4', '%s|all-then-clear' % f.name, ok, 'unconditional resume of every queued token, clear() after the loop', where=f.loc(f.body))
    w = prog.fn1(CO + 'Broadcast::wait')
    ctx.ob('C18.R4', '%s|registers' % w.name, bool(pushes(w, CO + 'Broadcast', 'wait_tokens_')) and
           all(w.cfg.dominates(q.pt(w, p), q.pt(w, x)) for p in pushes(w, CO + 'Broadcast', 'wait_tokens_') for x in sch_calls(w, 'wait')), 'the token is queued before waiting', where=w.loc(w.body))
    f = prog.fn1(CO + 'Condition<int>::post')
    rs = sch_calls(f, 'resume')
    rst = [st for st in f.calls() if st.get('fn') == 'reset' and 'obj' in st and (f.field_of(st['obj']) or '').endswith('wait_token_')]
    ok = len(rs) == 1 and bool(rst) and f.path(rs[0]['args'][0]) == 'wait_token_' and q.must_follow(f, q.pt(f, rs[0]), q.pts(f, rst))
    # in kAll mode the early return is taken while conditions remain
    rets = [r for r in q.returns(f) if any(any(c2.get('fn') == 'empty' for c2 in q.subtree_calls(f, c)) for c, br in q.lexical_guards(f, r['i']))]
    ctx.ob('C18.R4', '%s|resume-when-met' % f.name, ok and bool(rets), 'resumes wait_token_ and resets it; in all-mode returns early while conditions remain', where=f.loc(f.body))


def r5(ctx, prog):
    ctx.rule('C18.R5', 'A4: Scheduler::cleanup keeps switching into started routines until none is left; switchToRoutine frees a dead routine once and '
                       'resumes its joiner before deleting it; schedule() swaps the ready queue out before draining it', floor=4)
    f = prog.fn1(SCH + '::cleanup')
    loops = [l for l in f.stmts if l and l['k'] == 'WhileStmt']
    ok = False
    for l in loops:
        c = q.subtree_calls(f, l['cond'])
        if any(x.get('fn') == 'empty' and 'routine_cabinet' in f.path(x['obj']) for x in c):
            body_lams = [prog.lambda_func(f, f.stmts[x]) for x in f.walk(l['body']) if f.stmts[x]['k'] == 'LambdaExpr']
            ok = any(lf and any(st.get('fn') == 'switchToRoutine' for st in lf.calls()) for lf in body_lams)
    ctx.ob('C18.R5', '%s|until-all-dead' % f.name, ok, 'while (!routine_cabinet.empty()) switch into every routine', where=f.loc(f.body))
    marks = []
    for lf in prog.lambdas_of.get(f.key, []):
        marks += [a for a, rhs in q.assigns(lf, 'Routine::is_canceled')]
    ctx.ob('C18.R5', '%s|marks-cancelled' % f.name, bool(marks), 'started routines are marked cancelled first', where=f.loc(f.body))
    s = prog.fn1(SCH + '::switchToRoutine')
    fr = [st for st in s.calls() if st.get('fn') == 'free' and st.get('cls', '').startswith('tbox::cabinet::Cabinet<')]
    de = [st for st in s.stmts if st and st['k'] == 'CXXDeleteExpr']
    rs = [st for st in s.calls() if st.get('fn') == 'resume']
    ok = len(fr) == 1 and len(de) == 1 and len(rs) == 1 and s.cfg.exists_path(q.pt(s, rs[0]), q.pt(s, de[0])) and not s.cfg.exists_path(q.pt(s, de[0]), q.pt(s, rs[0])) and \
        any(any(x.endswith('Routine::state') for x in q.subtree_fields(s, c)) for c, br in q.lexical_guards(s, de[0]['i']))
    ctx.ob('C18.R5', '%s|dead-freed-once' % s.name, ok, 'under state == kDead: cabinet free, joiner resumed, then delete', where=s.loc(s.body))
    # sibling agreement: every other place that destroys a routine (outside the cleanup()/destructor teardown, where joiners are cancelled
    # themselves) resumes the routine's joiner first, as switchToRoutine does
    for g in prog.funcs.values():
        if not g.name.startswith(SCH + '::') and not (g.parent_func is not None and prog.outermost(g).name.startswith(SCH + '::')):
            continue
        top = prog.outermost(g) if g.parent_usr else g
        if top.name in (SCH + '::cleanup', SCH + '::~Scheduler') or g is s:
            continue
        for d in [st for st in g.stmts if st and st['k'] == 'CXXDeleteExpr' and 'Routine' in (g.s(g.strip_casts(st['ch'][0])).get('t') or '')]:
            woke = [c for c in g.calls() if c.get('fn') in ('resume', 'makeRoutineReady') and any(x.endswith('join_token') for a in c.get('args', ()) for x in q.subtree_fields(g, a))
                    and g.cfg.dominates(q.pt(g, c), q.pt(g, d)) or
                    (c.get('fn') in ('resume', 'makeRoutineReady') and any(x.endswith('join_token') for a in c.get('args', ()) for x in q.subtree_fields(g, a)) and
                     not g.cfg.exists_path(g.cfg.entry_point(), q.pt(g, d), avoid=[q.pt(g, c)] + [g.cfg.point_of(cnd) for cnd, k, b in g.cfg.controlling_branches(q.pt(g, c))]))]
            ctx.ob('C18.R5', '%s|joiner-woken-before-delete' % g.name, bool(woke),
                   'the joiner is resumed before the routine is destroyed' if woke else
                   'a routine is destroyed here without resuming the routine that join()ed it (switchToRoutine does): the joiner stays suspended for ever', where=g.loc(d['i']))
    sc = prog.fn1(SCH + '::schedule')
    sw = [st for st in sc.calls() if st.get('callee', '').startswith('std::swap') and any('ready_routines' in sc.path(a) for a in st.get('args', []))]
    sws = [st for st in sc.calls() if st.get('fn') == 'switchToRoutine']
    ctx.ob('C18.R5', '%s|swap-then-drain' % sc.name, bool(sw) and bool(sws) and all(sc.cfg.dominates(q.pt(sc, sw[0]), q.pt(sc, x)) for x in sws) and
           not any('ready_routines' in sc.path(st['obj']) for st in sc.calls() if 'obj' in st and st.get('fn') in ('front', 'pop', 'empty')),
           'the ready queue is swapped into a local before routines run (newly readied routines wait for the next pass)', where=sc.loc(sc.body))


def r9(ctx, prog):
    ctx.rule('C18.R9', 'A10 resource predicate of the semaphore by finite folding: a permit is taken (--count_) only where "count_ >= 1" is a must-fact — established by a '
             'branch edge whose condition, folded over count_ = 0..3, is taken only for values >= 1, and destroyed by every suspension point and every write of count_; '
             'and the wake-up a cancelled waiter passes on is conditioned on exactly that predicate', floor=2)
    cls = CO + 'Semaphore'
    f = prog.fn1(cls + '::acquire')
    fld = lambda sx: sx['k'] == 'MemberExpr' and sx.get('n') == 'count_'

    def edge_truth_set(cond, k):
        """values of count_ in 0..3 for which edge k of cond is taken; None if the condition is not a pure test of count_"""
        if not any(fld(f.stmts[x]) for x in f.walk(cond)):
            return None
        out = set()
        for v in range(0, 4):
            r = q.eval_expr(f, cond, lambda sx, v=v: v if fld(sx) else None)
            if r is None:
                return None
            if bool(r) == (k == 0):
                out.add(v)
        return out

    def gen(b, k):
        cond = (b if hasattr(b, 'cond') else f.cfg.blocks[b]).cond
        if cond is None:
            return False
        ts = edge_truth_set(cond, k)
        return ts is not None and bool(ts) and all(v >= 1 for v in ts)

    def kill(pt, st):
        if st['k'] in q.CALL_KINDS and st.get('cls') == SCH and st.get('fn') in ('wait', 'yield', 'join'):
            return True
        if st['k'] in ('UnaryOperator', 'BinaryOperator', 'CompoundAssignOperator') and st.get('op') in ('++', '--', '=', '+=', '-=') and \
                (f.field_of(st['ch'][0]) or '').endswith('::count_'):
            return True
        return False
    fact = q.must_fact(f, gen, kill)
    decs = [st for st in f.stmts if st and st['k'] == 'UnaryOperator' and st.get('op') == '--' and (f.field_of(st['ch'][0]) or '').endswith('::count_')]
    if not decs:
        raise AnalysisBroken('Semaphore::acquire: no decrement of count_')
    for d in decs:
        ok = bool(fact.get(q.pt_or_term(f, d)))
        ctx.ob('C18.R9', '%s|take-only-available' % f.name, ok, 'the permit is taken only where count_ >= 1 is known' if ok else
               'count_ is decremented at a point where "count_ >= 1" is not established on every path (the tests in front of it let 0 through, or a suspension lies in '
               'between): a permit is taken that does not exist, and count_ goes negative', where=f.loc(d['i']))
    # the pass-on of a wake-up by a cancelled waiter
    wk = [c for c in f.calls() if c.get('fn') == 'wakeupOne']
    n = 0
    for c in wk:
        waits = q.pts(f, sch_calls(f, 'wait'))
        for cond, k, b in f.cfg.controlling_branches(q.pt(f, c)):
            ts = edge_truth_set(cond, k)
            if ts is None:
                continue
            cp_ = f.cfg.point_of(cond)
            if cp_ is None or not any(f.cfg.exists_path(w, cp_) for w in waits) or f.cfg.exists_path(cp_, q.pt(f, c), avoid=()) is False:
                continue        # a test made before the suspension says nothing about count_ now
            if any(f.cfg.dominates(cp_, w) for w in waits):
                continue
            n += 1
            ok = ts == {1, 2, 3}
            ctx.ob('C18.R9', '%s|pass-on-iff-available' % f.name, ok, 'a cancelled waiter passes its wake-up on exactly when a permit is available' if ok else
                   'the wake-up is passed on for count_ in %s instead of exactly when count_ >= 1: with a permit available and waiters queued nobody is woken' % sorted(ts),
                   where=f.loc(c['i']))


def r10(ctx, prog):
    ctx.rule('C18.R10', 'A7 nothing about another routine survives a context switch: a pointer to a routine record taken from the cabinet before swapcontext() is not dereferenced '
             'after it without being looked up again — the record of a routine that died in between has been freed (and its block may already belong to a new routine); what the '
             'current routine needs after the switch is read through d_->curr_routine', floor=1)
    n = 0
    for f in prog.funcs.values():
        if prog.outermost(f).cls != SCH or f.parent_usr:
            continue
        swaps = [c for c in f.calls() if c.get('callee') == 'swapcontext']
        if not swaps:
            continue
        n += 1
        bad = []
        for st in f.stmts:
            if st and st['k'] == 'DeclStmt':
                for d in st['decls']:
                    if 'Routine *' not in (d.get('ct') or d.get('t') or '') and not (d.get('t') or '').startswith('auto'):
                        continue
                    if 'init' not in d or not any(f.stmts[x]['k'] in q.CALL_KINDS and f.stmts[x].get('fn') in ('at', 'find', 'operator[]') for x in f.walk(d['init'])):
                        continue
                    if 'Routine' not in (d.get('ct') or ''):
                        continue
                    defs = [df for df in rd.local_defs(f, d['d']) if df['point'] is not None]
                    for u in f.stmts:
                        if not u or u['k'] != 'DeclRefExpr' or u.get('d') != d['d']:
                            continue
                        up = f.cfg.point_of(u['i'])
                        par = f.s(f.parent.get(u['i']))
                        while par is not None and par['k'] in ('ImplicitCastExpr', 'ParenExpr'):
                            par = f.s(f.parent.get(par['i']))
                        deref = par is not None and par['k'] == 'MemberExpr' and par.get('arrow', True)
                        if up is None or not deref:
                            continue
                        for sw in swaps:
                            if f.cfg.exists_path(q.pt(f, sw), up, avoid=[df['point'] for df in defs]):
                                bad.append((d['n'], u, sw))
        ctx.ob('C18.R10', '%s|no-stale-routine' % f.name, not bad, 'no routine pointer taken before a context switch is dereferenced after it' if not bad else
               '%s, looked up before the switch, is dereferenced at %s after swapcontext() (%s): when the joiner runs again its target has died and its record was freed — the read sees '
               'freed memory, or the state of whatever routine was created in that block since' % (bad[0][0], f.loc(bad[0][1]['i']), f.loc(bad[0][2]['i'])), where=f.loc(bad[0][1]['i']) if bad else f.loc(f.body))
    if n < 1:
        raise AnalysisBroken('no Scheduler method with a swapcontext() call found')


def run(ctx):
    prog = extract('ALL' if ctx.tier == 'thorough' else ['coroutine/scheduler.cpp'], extra_units=[instantiate_unit()])
    ctx.guard(r1, ctx, prog)
    ctx.guard(r2, ctx, prog)
    ctx.guard(r3, ctx, prog)
    ctx.guard(r4, ctx, prog)
    ctx.guard(r5, ctx, prog)
    ctx.guard(r6, ctx, prog)
    ctx.guard(r7, ctx, prog)
    ctx.guard(r8, ctx, prog)
    ctx.guard(r9, ctx, prog)
    ctx.guard(r10, ctx, prog)
    from rules import C18_replay
    ctx.guard(C18_replay.r11, ctx, prog)
    from tbxlint import shared
    ctx.guard(shared.rule, ctx, prog, 'C18.R12', 'A6 no state shared between schedulers behind their back: the scheduler, the routine and the primitives keep no mutable static data member, '
              'function-local static or file-scope variable (two schedulers on two loops would touch it without any lock)', ['tbox::coroutine::'], ['coroutine/scheduler.cpp'], {}, 10)
    return prog
