"""C19 — MD5 message schedule replayed over byte provenance (C19.R16).  Imported by rules/C19.py.

RFC 1321 hashes the blocks of  message ++ 0x80 ++ 0x00* ++ bitlength(8 bytes, little endian)  where the zeros make the total a multiple of 64.  Which bytes
reach the compression function, in which order and with which padding is decided entirely by the buffer management in MD5::update()/finish(); the
compression function itself is checked against the RFC's tables by C19.R1.  tbxlint/minterp.py interprets the syntax trees of the constructor, update()
and finish() with every message byte kept as a marker ("byte i of the message"), Transform() as an uninterpreted event that records the 64 cells it was
given, and Encode(bits, count_, 8) as an event that records the bit count it was given.  Lengths and split points range over a finite grid; nothing of the
repository is compiled or run."""
from tbxlint.facts import AnalysisBroken
from tbxlint import minterp
from tbxlint.minterp import P

M = 'tbox::crypto::MD5'


def replay(prog, parts, pad_table):
    n = sum(parts)
    mem = {'msg': [('m', i) for i in range(n)], 'digest': ['uninit'] * 16}
    scal = {}
    # the object's fields, by their declared shape: T[2] is the bit count, T[4] the chaining value, T[64] the pending block (any names)
    for fd in prog.classes[M]['fields']:
        ct = fd.get('ct') or ''
        if '[' in ct:
            mem['this.' + fd['n']] = ['uninit'] * int(ct.split('[')[1].split(']')[0])
        else:
            scal[fd['n']] = fd.get('initv', 0) if fd.get('hasinit') else 'uninit'
    cnt = [k_ for k_, v in mem.items() if k_.startswith('this.') and len(v) == 2]
    sta = [k_ for k_, v in mem.items() if k_.startswith('this.') and len(v) == 4]
    if len(cnt) != 1 or len(sta) != 1 or len([k_ for k_, v in mem.items() if k_.startswith('this.') and len(v) == 64]) != 1:
        raise AnalysisBroken('MD5: expected one field each of 2 (bit count), 4 (state) and 64 (block) cells')
    cnt, sta = cnt[0], sta[0]
    if pad_table is not None:
        mem['g:PADDING'] = list(pad_table)
    blocks = []

    def h_transform(it, f, st, args):
        sp = it.span(f, st, args[1], 64, 'Transform block')
        blocks.append(list(sp[0][sp[1]:sp[1] + 64]) if sp is not None else None)

    def h_encode(it, f, st, args):
        out, src, ln = args
        if isinstance(src, P) and src.r == cnt and isinstance(ln, int):
            snap = tuple(it.mem[cnt])
            d_ = it.span(f, st, out, ln, 'Encode output')
            if d_ is not None:
                d_[0][d_[1]:d_[1] + ln] = [('len', j, snap) for j in range(ln)]
        elif isinstance(src, P) and src.r == sta and isinstance(ln, int):
            d_ = it.span(f, st, out, ln, 'Encode output')
            if d_ is not None:
                d_[0][d_[1]:d_[1] + ln] = [('digest', j) for j in range(ln)]
        else:
            raise AnalysisBroken('MD5: Encode() called with operands the replay does not know (%s)' % f.loc(st['i']))
    it = minterp.Interp(prog, mem, hooks={'memcpy': minterp.h_memcpy, 'memset': minterp.h_memset, 'Transform': h_transform, 'Encode': h_encode}, inline=('update',))
    it.this.update(scal)
    ctor = [g for g in prog.methods_of(M) if g.d.get('ctor') and not g.params]
    if len(ctor) != 1:
        raise AnalysisBroken('MD5: default constructor not found')
    it.call(ctor[0], [])
    upd, fin = prog.fn1(M + '::update'), prog.fn1(M + '::finish')
    off = 0
    for a in parts:
        it.call(upd, [P('msg', off), a])
        off += a
    it.call(fin, [P('digest', 0)])
    return blocks, it.faults


def expected(n):
    bits = 8 * n
    snap = (bits & 0xffffffff, (bits >> 32) & 0xffffffff)
    body = [('m', i) for i in range(n)] + [0x80]
    while len(body) % 64 != 56:
        body.append(0)
    body += [('len', j, snap) for j in range(8)]
    return [body[i:i + 64] for i in range(0, len(body), 64)]


def splits(n):
    yield (n,)
    cand = set(range(0, n + 1)) if n <= 70 else {0, 1, 7, 55, 56, 57, 63, 64, 65, 119, 120, 121, 127, 128, 129, n - 65, n - 64, n - 63, n - 1, n}
    for a in sorted(c for c in cand if 0 <= c <= n):
        yield (a, n - a)
    if n >= 3:
        yield (1, n - 2, 1)
        yield tuple([1] * n) if n <= 130 else (n,)


def r16(ctx, prog, gvals):
    ctx.rule('C19.R16', 'A10 message schedule of MD5 by abstract replay over byte provenance: for every message length 0..200 and every split into one, two or n updates (all split '
             'points up to length 70, the block/padding boundaries beyond), the 64-cell blocks handed to the compression function by update()/finish() are exactly the blocks of '
             'message ++ 0x80 ++ zeros ++ bit length (RFC 1321 3.1-3.2) — same bytes, same order, minimal padding, the length bytes produced from the true bit count — and every '
             'copy stays inside its buffers', floor=1)
    try:
        pad, _ = gvals(prog, 'PADDING')
    except AnalysisBroken:
        pad = None
    bad = None
    runs = 0
    for n in list(range(0, 201)):
        for parts in splits(n):
            runs += 1
            blocks, faults = replay(prog, parts, pad)
            want = expected(n)
            if faults or blocks != want:
                bad = (n, parts, blocks, want, faults)
                break
        if bad:
            break
    if bad is None:
        ctx.ob('C19.R16', 'MD5|schedule', True, '%d replays (lengths 0..200): the blocks compressed are the RFC 1321 padded message' % runs)
        return
    n, parts, blocks, want, faults = bad
    why = '; '.join(faults[:2])
    if not why:
        if len(blocks) != len(want):
            why = '%d block(s) are compressed where the padded message has %d' % (len(blocks), len(want))
        else:
            for bi, (b, w) in enumerate(zip(blocks, want)):
                if b != w:
                    j = next(i for i in range(64) if b is None or b[i] != w[i])
                    why = 'block %d byte %d is %s where the padded message has %s' % (bi, j, 'unreadable' if b is None else describe(b[j]), describe(w[j]))
                    break
    fin = prog.fn1(M + '::finish')
    ctx.ob('C19.R16', 'MD5|schedule', False, 'a message of %d byte(s) fed as update(%s) + finish(): %s — the digest is not the RFC 1321 digest of the message'
           % (n, '), update('.join(str(a) for a in parts), why), where=fin.loc(fin.body))


def describe(c):
    if isinstance(c, tuple) and c[0] == 'm':
        return 'message byte %d' % c[1]
    if isinstance(c, tuple) and c[0] == 'len':
        return 'length byte %d of bit count %s' % (c[1], c[2])
    if isinstance(c, int):
        return '0x%02x' % c
    return str(c)


# ---- Base64 Encode (pointer form) ------------------------------------------------------------------------------

def r17(ctx, prog):
    ctx.rule('C19.R17', 'A10 the Base64 encoder (caller-buffer form) by abstract replay over byte provenance: for every input length 1..48 and an output buffer of exactly EncodeLength(n) '
             'characters, every read lies inside the input and every store inside the output, the returned length is 4*ceil(n/3), character 4g+j was computed from exactly the input '
             'bytes RFC 4648 assigns to it ({3g}, {3g,3g+1}, {3g+1,3g+2}, {3g+2}), the tail is padded with "="; with one character less room nothing is stored and 0 is returned', floor=1)
    from tbxlint.minterp import D
    encs = [g for g in prog.funcs.values() if g.name == 'tbox::util::base64::Encode' and len(g.params) == 4 and '*' in (g.params[2].get('ct') or '')]
    elen = [g for g in prog.funcs.values() if g.name == 'tbox::util::base64::EncodeLength' and len(g.params) == 1]
    if len(encs) != 1 or len(elen) != 1:
        raise AnalysisBroken('Base64 Encode(ptr, len, out, size) / EncodeLength(len) not found')
    enc = encs[0]
    bad = None
    for n in range(1, 49):
        want_len = 4 * ((n + 2) // 3)
        for room in (want_len, want_len - 1):
            mem = {'raw': [D({i}) for i in range(n)], 'out': ['uninit'] * room}
            try:
                alpha = [g_ for nme, gs in prog.globals.items() if nme.endswith('::base64en') for g_ in gs]
                if alpha:
                    mem['g:base64en'] = [0] * 64
            except Exception:
                pass
            it = minterp.Interp(prog, mem, hooks={'memcpy': minterp.h_memcpy, 'memset': minterp.h_memset, 'be32toh': lambda it_, f, st, a: a[0], 'htobe32': lambda it_, f, st, a: a[0],
                                                  '__bswap_32': lambda it_, f, st, a: a[0]}, inline=('EncodeLength',))
            ret = it.call(enc, [P('raw', 0), n, P('out', 0), room])
            why = None
            if it.faults:
                why = '; '.join(it.faults[:2])
            elif room < want_len:
                if ret != 0 or any(c != 'uninit' for c in mem['out']):
                    why = 'with room for %d of the %d characters it returns %s and stores %d character(s)' % (room, want_len, ret, sum(c != 'uninit' for c in mem['out']))
            elif ret != want_len:
                why = 'it returns %s where RFC 4648 gives %d characters' % (ret, want_len)
            else:
                for k_, c in enumerate(mem['out']):
                    g_, j = divmod(k_, 4)
                    src = {0: {3 * g_}, 1: {3 * g_, 3 * g_ + 1}, 2: {3 * g_ + 1, 3 * g_ + 2}, 3: {3 * g_ + 2}}[j]
                    have = {x for x in src if x < n}
                    if j >= 2 and not (3 * g_ + j - 1 < n):
                        exp = ord('=')
                    else:
                        exp = D(have)
                    if c != exp:
                        why = 'character %d is %s where RFC 4648 has %s' % (k_, 'never stored' if c == 'uninit' else c, 'the pad "="' if exp == ord('=') else 'a digit computed from input byte(s) %s' % sorted(have))
                        break
            if why and bad is None:
                bad = (n, room, why)
    ctx.ob('C19.R17', 'Encode|provenance', bad is None, '96 replays: reads inside the input, stores inside the output, RFC 4648 grouping and padding' if bad is None else
           'Encode() of %d byte(s) into a buffer of %d character(s): %s' % bad, where=enc.loc(enc.body))
