"""C13 — the line editor replayed against a reference editor (C13.R18).  Imported by rules/C13.py.

The editing handlers of Terminal::Impl are short straight-line functions over three pieces of session state: the input line (a std::string), the cursor and
the echo option.  tbxlint/replay.py interprets their syntax trees; here the interpreter is taught the handful of std::string operations they use, each with its
precondition (insert/erase/substr position <= size, pop_back on a non-empty string, string(n, c) with n >= 0), and every handler is replayed from every start
state of a small grid.  Nothing of the repository is compiled or run."""
from tbxlint.facts import AnalysisBroken
from tbxlint import q, replay

T = 'tbox::terminal::Terminal::Impl'
CH = 9


class Editor(replay.Replay):
    def __init__(self, f, line, cursor, ch=None):
        self.line = list(line)
        self.ch = ch
        self.faults = []
        super().__init__(f, {'cursor': cursor}, opaque=self._opaque)

    def _is_line(self, e):
        return e is not None and self.f.path(e).endswith('curr_input')

    def _opaque(self, sx):
        f = self.f
        if sx['k'] in q.CALL_KINDS and sx.get('fn') in ('size', 'length') and self._is_line(sx.get('obj')):
            return len(self.line)
        if sx['k'] in q.CALL_KINDS and sx.get('fn') == 'empty' and self._is_line(sx.get('obj')):
            return int(not self.line)
        if sx['k'] == 'MemberExpr' and sx.get('n') == 'options':
            return 0xff                     # echo on: the echo code is walked too (it reads the line at the cursor)
        if sx['k'] == 'DeclRefExpr' and sx.get('dk') == 'ParmVar' and sx.get('n') == 'ch':
            return self.ch
        return None

    def _fault(self, st, what):
        self.faults.append('%s at %s' % (what, self.f.loc(st['i'])))

    def accesses(self, e):
        # string operations and temporaries, in source order
        f = self.f
        for x in f.walk(e):
            sx = f.stmts[x]
            if sx['k'] in q.CALL_KINDS and self._is_line(sx.get('obj')):
                fn, args = sx.get('fn'), sx.get('args', [])
                av = [self.ev(a) for a in args]
                n = len(self.line)
                if fn == 'push_back' and av and av[0] is not None:
                    self.line.append(av[0])
                elif fn == 'insert' and len(av) == 3 and None not in av:
                    if not (0 <= av[0] <= n):
                        self._fault(sx, 'insert at position %d of a line of %d' % (av[0], n))
                    else:
                        self.line[av[0]:av[0]] = [av[2]] * av[1]
                elif fn == 'pop_back':
                    if not self.line:
                        self._fault(sx, 'pop_back on an empty line')
                    else:
                        self.line.pop()
                elif fn == 'erase' and len(av) == 2 and None not in av:
                    if not (0 <= av[0] <= n):
                        self._fault(sx, 'erase at position %d of a line of %d' % (av[0], n))
                    else:
                        del self.line[av[0]:av[0] + av[1]]
                elif fn == 'clear':
                    self.line = []
                elif fn == 'substr' and av and av[0] is not None:
                    if not (0 <= av[0] <= n):
                        self._fault(sx, 'substr from position %d of a line of %d' % (av[0], n))
                elif fn in ('size', 'length', 'empty', 'c_str', 'data', 'begin', 'end', 'operator[]', 'at', 'back', 'front'):
                    pass
                elif fn in ('operator=', 'assign', 'append', 'operator+=', 'replace', 'resize', 'swap'):
                    raise AnalysisBroken('%s: curr_input.%s() is not modelled by the editor replay (%s)' % (f.short, fn, f.loc(sx['i'])))
            # std::string(count, char) temporaries used to build the echo
            if sx['k'] in ('CXXTemporaryObjectExpr', 'CXXConstructExpr', 'CXXFunctionalCastExpr') and 'basic_string' in (sx.get('ct') or sx.get('t') or '') and len(sx.get('ch', [])) >= 2:
                cnt = self.ev(sx['ch'][0])
                if cnt is not None and cnt < 0:
                    self._fault(sx, 'a string of %d characters is requested (the count wraps to a huge unsigned value)' % cnt)


def reference(line, cursor, key, ch=CH):
    line = list(line)
    if key == 'onChar':
        line[cursor:cursor] = [ch]
        cursor += 1
    elif key == 'onBackspaceKey':
        if cursor > 0:
            del line[cursor - 1]
            cursor -= 1
    elif key == 'onDeleteKey':
        if cursor < len(line):
            del line[cursor]
    elif key == 'onMoveLeftKey':
        cursor = max(0, cursor - 1)
    elif key == 'onMoveRightKey':
        cursor = min(len(line), cursor + 1)
    elif key == 'onHomeKey':
        cursor = 0
    elif key == 'onEndKey':
        cursor = len(line)
    return line, cursor


KEYS = ('onChar', 'onBackspaceKey', 'onDeleteKey', 'onMoveLeftKey', 'onMoveRightKey', 'onHomeKey', 'onEndKey')


def r18(ctx, prog):
    ctx.rule('C13.R18', 'A10 the line editor replayed against a reference editor: each editing handler (character, Backspace, Delete, Left, Right, Home, End) is interpreted from '
             'every start state with a line of 0..3 distinct characters and every cursor position; the resulting line and cursor equal the reference editor\'s, and on the way '
             'every insert/erase/substr position lies inside the line, pop_back is never applied to an empty line and no string(count, c) is built with a negative count — the '
             'executed line is what a line editor would hold', floor=7)
    for key in KEYS:
        f = prog.fn1(T + '::' + key)
        bad = None
        for n in range(0, 4):
            for cur in range(0, n + 1):
                start = list(range(1, n + 1))
                ed = Editor(f, start, cur, CH)
                try:
                    st = ed.go()
                except AnalysisBroken as e:
                    if 'terminate' not in str(e):
                        raise
                    st = dict(ed.state)
                    ed.faults.append('the handler does not terminate (%s)' % e)
                want_line, want_cur = reference(start, cur, key)
                if bad is None and (ed.faults or ed.wrapped or ed.line != want_line or st['cursor'] != want_cur):
                    bad = (start, cur, ed.line, st['cursor'], want_line, want_cur, ed.faults, ed.wrapped)
        ctx.ob('C13.R18', '%s|reference-editor' % f.name, bad is None, 'agrees with the reference editor on all 10 start states' if bad is None else
               'from line %s with the cursor at %d the handler leaves line %s / cursor %s, a line editor leaves %s / %d%s%s: the line that Enter executes is not the line that was typed'
               % (bad[0], bad[1], bad[2], bad[3], bad[4], bad[5], ('; ' + '; '.join(bad[6][:2])) if bad[6] else '', ('; %s goes below zero at %s' % bad[7]) if bad[7] else ''),
               where=f.loc(f.body))


def r19(ctx, prog):
    ctx.rule('C13.R19', 'A5 Enter leaves a fresh line: replayed from every start state, onEnterKey ends with an empty input line, the cursor at 0 and the history position at 0 — '
             'otherwise the next command line starts with the text (or at the offset) of the previous one', floor=1)
    f = prog.fn1(T + '::onEnterKey')
    bad = None
    for n in range(0, 4):
        for cur in range(0, n + 1):
            for hi in (0, 1):
                ed = Editor(f, list(range(1, n + 1)), cur, CH)
                ed.state['history_index'] = hi
                st = ed.go()
                if bad is None and (ed.line or st['cursor'] != 0 or st['history_index'] != 0):
                    bad = (n, cur, hi, ed.line, st['cursor'], st['history_index'])
    ctx.ob('C13.R19', '%s|fresh-line' % f.name, bad is None, 'after Enter: empty line, cursor 0, history position 0' if bad is None else
           'after Enter on a line of %d character(s) (cursor %d, history position %d) the session keeps line %s, cursor %s, history position %s' % bad, where=f.loc(f.body))
