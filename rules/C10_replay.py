"""C10 — the asynchronous pipe replayed over interleavings of producers and its background thread (C10.R11).  Imported by rules/C10.py.

tbxlint/minterp.py interprets AsyncPipe::Impl (initialize, append, appendLockless, threadFunc, cleanup) and its Buffer (memcpy into a region of the capacity asked for:
a write past it is a fault); tbxlint/conc.py supplies the threads — the background thread the pipe creates, and producers created by the driver — with the four mutexes,
try_lock, the two condition variables (wait with predicate, wait_for whose time-out is a choice of the schedule), join.  Every appended byte is a marker (producer, append
number, offset).  The sink notes the blocks it is handed and contains a scheduling point (so that two overlapping sink calls would be seen)."""
import sys
import threading
from tbxlint.facts import AnalysisBroken
from tbxlint import minterp, conc
from tbxlint.minterp import P

I = 'tbox::util::AsyncPipe::Impl'


class Bench:
    def __init__(self, prog, schedule, cfg):
        self.prog = prog
        self.blocks = []
        self.in_sink = 0
        self.problem = None
        self.appended = []          # (producer, k, n) in the order the appends returned
        noop = lambda it, f, st, a: None
        hooks = dict(minterp.VECTOR_HOOKS)
        hooks.update({'memcpy': minterp.h_memcpy, 'bind': lambda it, f, st, a: ('bind', a[0], list(a[1:])), 'move': lambda it, f, st, a: a[0], '__assert_fail': self.h_assert,
                      'abort': self.h_assert, 'pop_front': self.h_pop_front, 'milliseconds': lambda it, f, st, a: a[0] if a else 0})
        self.it = minterp.Interp(prog, {'str:empty': [0]}, hooks=hooks, inline=('*',), max_steps=150000)
        it = self.it
        self.k = conc.Kernel(it, schedule)
        def new_thread(it_, f, st, args):
            if not args:
                r = {'__cls__': 'std::thread', '__open__': True}
                it_._keep.append(r)
                return r
            src = it_.record_of(args[0])
            if src is not None and src.get('__cls__') == 'std::thread':
                return src          # move construction from a temporary thread object
            return self.k.new_thread_object(args[0], args[1:])
        it.ctor_hooks['std::thread'] = new_thread
        self.impl = it.new_record(I)
        it._keep.append(self.impl)
        for nm in ('curr_buffer_mutex_', 'full_buffers_mutex_', 'free_buffers_mutex_', 'buff_num_mutex_', 'full_buffers_cv_', 'free_buffers_cv_', 'backend_thread_'):
            self.impl[nm] = {'__cls__': 'std::sync', '__open__': True}
            it._keep.append(self.impl[nm])
        for nm in ('free_buffers_', 'full_buffers_'):
            if not isinstance(self.impl.get(nm), list):
                self.impl[nm] = []
        self.impl['cb_'] = self.sink
        self.impl['curr_buffer_'] = 0
        self.impl['buff_num_'] = 0
        self.impl['inited_'] = self.impl['stop_signal_'] = 0
        self.cfg = it.new_record('tbox::util::AsyncPipe::Config')
        it._keep.append(self.cfg)
        self.cfg.update(cfg)
        self.serial = 0

    def h_assert(self, it, f, st, a):
        it.fault(f, st, 'an assertion fails (abort)')
        raise minterp._Abort()

    def h_pop_front(self, it, f, st, a):
        v = minterp._vec(it, f, st)
        if not v:
            it.fault(f, st, 'pop_front on an empty sequence')
            return None
        v.pop(0)

    def sink(self, ptr, size):
        it = self.it
        self.in_sink += 1
        if self.in_sink > 1:
            self.problem = self.problem or 'two calls of the sink overlap'
        if isinstance(ptr, P) and isinstance(size, int) and size:
            cells = it.mem[ptr.r][ptr.o:ptr.o + size]
            if len(cells) != size:
                self.problem = self.problem or 'the sink is handed %d byte(s) of a block that holds %d' % (size, len(cells))
            self.blocks.append((list(cells), self.k.current.tid))
        self.k.reschedule('sink')
        self.in_sink -= 1

    def call(self, name, args=()):
        cands = [g for g in self.prog.by_name.get(I + '::' + name, ()) if g.body is not None and len(g.params) == len(args)]
        if len(cands) != 1:
            raise AnalysisBroken('AsyncPipe::Impl::%s/%d: %d candidate(s)' % (name, len(args), len(cands)))
        return self.it.call(cands[0], list(args), this=self.impl)

    def producer(self, pid, sizes):
        def body():
            for kk, n in enumerate(sizes):
                self.serial += 1
                name = 'src#%d' % self.serial
                section = n < 0         # a negative size: the append is made inside an appendLock() ... appendUnlock() section of the caller (as the trace sink does)
                n = abs(n)
                self.it.mem[name] = [(pid, kk, i) for i in range(n)]
                if section:
                    self.call('appendLock', [])
                    self.k.reschedule('in-section')
                    self.call('appendLockless', [P(name, 0), n])
                    self.k.reschedule('in-section')         # the caller may do more before it leaves the section
                    self.call('appendUnlock', [])
                else:
                    self.call('append', [P(name, 0), n])
                self.appended.append((pid, kk, n))
        return body


def _short(sched):
    t = ''.join(str(c) for c in sched)
    return t if len(t) <= 80 else t[:80] + '... (%d choices)' % len(t)


def run_once(prog, cfg, producers, schedule):
    b = Bench(prog, schedule, cfg)
    k, it = b.k, b.it
    verdict = None
    try:
        try:
            if not b.call('initialize', [it.ref(b.cfg)]):
                raise AnalysisBroken('AsyncPipe::initialize refused %s' % (cfg,))
            ths = [k.spawn(b.producer(pid, sizes), (), name='producer-%d' % pid) for pid, sizes in enumerate(producers)]
            k.park_main_until(lambda: all(t.done for t in ths), 'a producer never returns from append()')
            if not it.faults:
                before = list(b.appended)
                b.call('cleanup', [])
        except conc.Deadlock as e:
            if k.error is not None and 'does not terminate' not in str(k.error):
                raise k.error
            verdict = str(e) if k.error is None else None
        except AnalysisBroken as e:
            if 'does not terminate' not in str(e):
                raise
            k.error = e
        if k.error is not None and verdict is None:
            if 'does not terminate' in str(k.error):
                verdict = 'a thread loops without end (%s, more than 150000 interpreted steps for a few bytes)' % str(k.error).split(':')[0]
            else:
                raise k.error
        if verdict is None and it.faults:
            verdict = it.faults[0]
        if verdict is None:
            verdict = b.problem or judge(b, producers)
    finally:
        k.shutdown()
    return k.choices, verdict


def judge(b, producers):
    out = [c for blk, tid in b.blocks for c in blk]
    producers = [[abs(n) for n in sizes] for sizes in producers]
    want = sum(n for sizes in producers for n in sizes)
    bad = [c for c in out if not (isinstance(c, tuple) and len(c) == 3)]
    if bad:
        return 'the sink is handed %d byte(s) that nobody appended (uninitialised or stale buffer content)' % len(bad)
    if len(out) != want:
        return '%d byte(s) were appended before cleanup() and %d were delivered when it returned' % (want, len(out))
    if len(set(out)) != len(out):
        return 'the sink is handed the same appended byte twice'
    # every append contiguous and in order
    i = 0
    last = {}
    while i < len(out):
        pid, kk, off = out[i]
        n = producers[pid][kk]
        if off != 0 or out[i:i + n] != [(pid, kk, j) for j in range(n)]:
            return 'append #%d of producer %d is not delivered as one contiguous run (another append cuts into it, or its bytes are out of order)' % (kk, pid)
        if last.get(pid, -1) + 1 != kk:
            return 'producer %d: append #%d is delivered %s' % (pid, kk, 'before append #%d' % (last.get(pid, -1) + 1) if kk > last.get(pid, -1) + 1 else 'twice')
        last[pid] = kk
        i += n
    if any(tid != b.blocks[0][1] for blk, tid in b.blocks):
        return 'the sink runs on more than one thread'
    if b.blocks and b.blocks[0][1] == 0:
        return 'the sink runs on the thread that calls cleanup()'
    for t in b.k.threads[1:]:
        if not t.done:
            return '%s is still alive after cleanup() has returned' % t.name
    return None


CASES = [
    ({'buff_size': 4, 'buff_min_num': 1, 'buff_max_num': 1, 'interval': 1}, [[3, 6]]),
    ({'buff_size': 4, 'buff_min_num': 1, 'buff_max_num': 2, 'interval': 1}, [[3], [5]]),
    ({'buff_size': 2, 'buff_min_num': 1, 'buff_max_num': 1, 'interval': 1}, [[5], [1, 1]]),
    ({'buff_size': 3, 'buff_min_num': 2, 'buff_max_num': 3, 'interval': 1}, [[2, 2], [4]]),
    ({'buff_size': 8, 'buff_min_num': 1, 'buff_max_num': 1, 'interval': 1}, [[1], [2], [3]]),
    ({'buff_size': 8, 'buff_min_num': 1, 'buff_max_num': 2, 'interval': 1}, [[-3], [2]]),
    ({'buff_size': 4, 'buff_min_num': 1, 'buff_max_num': 1, 'interval': 1}, [[-2, -3]]),
    ({'buff_size': 2, 'buff_min_num': 1, 'buff_max_num': 2, 'interval': 1}, [[2, 2, 2], [2, 1]]),          # more buffers' worth than the limit: buffers must come back
]


def r11(ctx, prog):
    full = ctx.tier == 'thorough'
    ctx.rule('C10.R11', 'A10 the pipe over interleavings: %d configurations (buffer sizes 2..8, one to three buffers, one to three producers appending runs of 1..6 marked bytes, some '
             'longer than a buffer, some inside an appendLock() / appendUnlock() section) are interpreted on the syntax trees of AsyncPipe::Impl and its Buffer with the background thread and the producers as model threads, the four '
             'mutexes, try_lock, both condition variables (the time-out of wait_for is a choice of the schedule), join modelled, and every schedule with at most %d preemption(s) '
             'or time-outs enumerated: what the sink was handed when cleanup() returns is every appended byte exactly once, each append contiguous, each producer in its own order; '
             'sink calls do not overlap and run on the background thread; no write past a buffer; no schedule ends with nobody able to go on (a producer stuck in append(), a '
             'cleanup() that does not return)' % (len(CASES), 2 if full else 1), floor=1)
    if not any(g.name == I + '::threadFunc' for g in prog.funcs.values()):
        from tbxlint.facts import extract
        prog = extract(['util/async_pipe.cpp'])
    old_stack, old_rec = threading.stack_size(), sys.getrecursionlimit()
    threading.stack_size(256 * 1024 * 1024)
    sys.setrecursionlimit(max(old_rec, 20000))
    bad = None
    runs = 0
    try:
        for i, (cfg, producers) in enumerate(CASES):
            n, sched, why = conc.explore(lambda s_: run_once(prog, cfg, producers, s_), preempt_bound=(2 if full or i == 0 else 1), max_runs=8000)
            runs += n
            if why is not None:
                bad = (cfg, producers, sched, why)
                break
    finally:
        threading.stack_size(old_stack)
        sys.setrecursionlimit(old_rec)
    f = prog.fn1(I + '::threadFunc')
    ctx.ob('C10.R11', 'AsyncPipe|interleavings', bad is None, '%d schedules over %d configurations' % (runs, len(CASES)) if bad is None else
           'buffers of %d byte(s), %d..%d of them, producers appending %s, schedule %s: %s' % (bad[0]['buff_size'], bad[0]['buff_min_num'], bad[0]['buff_max_num'], bad[1],
                                                                                         _short(bad[2]), bad[3]), where=f.loc(f.body))
