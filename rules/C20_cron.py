"""C20 — the next instant of a cron expression (C20.R18).  Imported by rules/C20.py.

tbxlint/minterp.py interprets cron_next() of modules/alarm/3rd-party/ccronexpr.cpp (do_next, find_next, find_next_day, next_set_bit, add_to_field, reset_min, reset_all_min,
set_field, push_to_fields_arr, cron_get_bit, cron_time, cron_mktime) on parsed expressions (the bit tables of cron_expr, written by the harness the way cron_set_bit lays
them out: bit i of a table is bit i%8 of byte i/8) for instants around minute, hour, day, month, leap-day, year and century boundaries, with gmtime_r() and timegm() of the C
library as models of the harness (timegm normalises out-of-range fields and fills tm_wday, which the code relies on).  Each answer is compared with a search written
independently here: the earliest second strictly after the given one whose second, minute, hour, day of month, day of week and month are all in the tables (the library
requires day-of-month AND day-of-week); an expression without any matching day (30 February) must be refused with (time_t)-1, which CronAlarm turns into "no next instant".

The forward jumps of the C code (goto return_result / return_error) are executed by the interpreter subclass below."""
from tbxlint.facts import AnalysisBroken
from tbxlint import minterp
from tbxlint.minterp import P

SRC = 'alarm/3rd-party/ccronexpr.cpp'


class _Goto(Exception):
    def __init__(self, label):
        self.label = label


class GInterp(minterp.Interp):
    """goto to a label that is a statement of an enclosing block: execution continues in that block from the label"""
    def run(self, f, sid, env):
        st = f.s(sid)
        if st is None:
            return
        k = st['k']
        if k == 'GotoStmt':
            raise _Goto(st.get('label'))
        if k == 'LabelStmt':
            for c in st.get('ch', ()):
                self.run(f, c, env)
            return
        if k == 'CompoundStmt' and any((f.s(c) or {}).get('k') == 'LabelStmt' for c in st['ch']):
            i = 0
            ch = st['ch']
            while i < len(ch):
                try:
                    self.run(f, ch[i], env)
                    i += 1
                except _Goto as g:
                    tgt = [n for n, c in enumerate(ch) if (f.s(c) or {}).get('k') == 'LabelStmt' and f.s(c).get('label') == g.label]
                    if not tgt:
                        raise
                    self.steps += 1
                    if self.steps > self.max_steps:
                        raise AnalysisBroken('%s: the replay does not terminate' % f.short)
                    i = tgt[0]
            return
        return minterp.Interp.run(self, f, sid, env)


# ---- the calendar of the harness (proleptic Gregorian, days since 1970-01-01) ----------------------------------------------------------------

def days_from_civil(y, m, d):
    y -= m <= 2
    era = (y if y >= 0 else y - 399) // 400
    yoe = y - era * 400
    doy = (153 * (m + (-3 if m > 2 else 9)) + 2) // 5 + d - 1
    doe = yoe * 365 + yoe // 4 - yoe // 100 + doy
    return era * 146097 + doe - 719468


def civil_from_days(z):
    z += 719468
    era = (z if z >= 0 else z - 146096) // 146097
    doe = z - era * 146097
    yoe = (doe - doe // 1460 + doe // 36524 - doe // 146096) // 365
    y = yoe + era * 400
    doy = doe - (365 * yoe + yoe // 4 - yoe // 100)
    mp = (5 * doy + 2) // 153
    d = doy - (153 * mp + 2) // 5 + 1
    m = mp + (3 if mp < 10 else -9)
    return y + (m <= 2), m, d


def ts(y, mo, d, h=0, mi=0, s=0):
    return days_from_civil(y, mo, d) * 86400 + h * 3600 + mi * 60 + s


def reference_next(e, t, years=9):
    """earliest second > t matching the tables, or None when no day matches at all (two consecutive 29 Februaries are at most 8 years apart, so 9 years decide it)"""
    day0 = t // 86400
    for day in range(day0, day0 + 366 * years):
        y, m, d = civil_from_days(day)
        if (m - 1) not in e['months'] or d not in e['dom'] or ((day + 4) % 7) not in e['dow']:
            continue
        for h in sorted(e['hours']):
            for mi in sorted(e['minutes']):
                for s in sorted(e['seconds']):
                    cand = day * 86400 + h * 3600 + mi * 60 + s
                    if cand > t:
                        return cand
    return None


ALL = lambda n, lo=0: set(range(lo, n))
EXPRS = [
    ('0 */10 * * * *', dict(seconds={0}, minutes=set(range(0, 60, 10)), hours=ALL(24), dom=ALL(32, 1), dow=ALL(7), months=ALL(12))),
    ('0 30 6 * * *', dict(seconds={0}, minutes={30}, hours={6}, dom=ALL(32, 1), dow=ALL(7), months=ALL(12))),
    ('15,45 59 23 * * *', dict(seconds={15, 45}, minutes={59}, hours={23}, dom=ALL(32, 1), dow=ALL(7), months=ALL(12))),
    ('0 0 0 31 * *', dict(seconds={0}, minutes={0}, hours={0}, dom={31}, dow=ALL(7), months=ALL(12))),
    ('0 0 12 29 2 *', dict(seconds={0}, minutes={0}, hours={12}, dom={29}, dow=ALL(7), months={1})),
    ('0 0 8 * * 1-5', dict(seconds={0}, minutes={0}, hours={8}, dom=ALL(32, 1), dow={1, 2, 3, 4, 5}, months=ALL(12))),
    ('0 0 9 1 * 1', dict(seconds={0}, minutes={0}, hours={9}, dom={1}, dow={1}, months=ALL(12))),
    ('0 0 0 * 1 *', dict(seconds={0}, minutes={0}, hours={0}, dom=ALL(32, 1), dow=ALL(7), months={0})),
    ('30 * * * * 0', dict(seconds={30}, minutes=ALL(60), hours=ALL(24), dom=ALL(32, 1), dow={0}, months=ALL(12))),
    ('* * * * * *', dict(seconds=ALL(60), minutes=ALL(60), hours=ALL(24), dom=ALL(32, 1), dow=ALL(7), months=ALL(12))),
    ('0 0 0 30 2 *', dict(seconds={0}, minutes={0}, hours={0}, dom={30}, dow=ALL(7), months={1})),
    # lists in the lower fields under a restricted higher field (a lower field moved forward must restart when a higher one moves: D41), and a month entered from a 29th..31st
    ('10,40 5 * * * *', dict(seconds={10, 40}, minutes={5}, hours=ALL(24), dom=ALL(32, 1), dow=ALL(7), months=ALL(12))),
    ('*/7 */11 */5 * * *', dict(seconds=set(range(0, 60, 7)), minutes=set(range(0, 60, 11)), hours=set(range(0, 24, 5)), dom=ALL(32, 1), dow=ALL(7), months=ALL(12))),
    ('5,35 10,50 3,15 * * *', dict(seconds={5, 35}, minutes={10, 50}, hours={3, 15}, dom=ALL(32, 1), dow=ALL(7), months=ALL(12))),
    ('0 0 12 * 2 0', dict(seconds={0}, minutes={0}, hours={12}, dom=ALL(32, 1), dow={0}, months={1})),
    ('0 */15 8-17 * 2 0,6', dict(seconds={0}, minutes={0, 15, 30, 45}, hours=set(range(8, 18)), dom=ALL(32, 1), dow={0, 6}, months={1})),
]
SIZES = (('seconds', 8), ('minutes', 8), ('hours', 3), ('days_of_week', 1), ('days_of_month', 4), ('months', 2))
KEYS = {'seconds': 'seconds', 'minutes': 'minutes', 'hours': 'hours', 'days_of_week': 'dow', 'days_of_month': 'dom', 'months': 'months'}


def instants(tier):
    base = [ts(1970, 1, 1), ts(2023, 12, 31, 23, 59, 59), ts(2024, 2, 28, 23, 59, 59), ts(2024, 2, 29, 12, 0, 0), ts(2024, 3, 31, 0, 0, 0), ts(2025, 2, 28, 23, 59, 59),
            ts(2024, 6, 15, 6, 29, 59), ts(2024, 6, 15, 23, 59, 14), ts(2024, 9, 1, 8, 59, 59), ts(2038, 1, 19, 3, 14, 7), ts(2100, 2, 28, 23, 59, 59), ts(2099, 12, 31, 23, 59, 30)]
    out = []
    for b in base:
        for d in ((-1, 0, 1) if tier != 'thorough' else (-61, -2, -1, 0, 1, 2, 61, 3599, 86399)):
            if b + d >= 0:
                out.append(b + d)
    # instants in the middle of a minute, an hour, a day, on the 29th..31st of months followed by shorter ones
    mid = [ts(2024, 1, 31, 12, 3, 20), ts(2018, 6, 29, 10, 0, 0), ts(2024, 8, 30, 10, 0, 0), ts(2040, 3, 29, 12, 23, 43), ts(1986, 11, 25, 5, 54, 35), ts(2009, 4, 4, 14, 50, 19),
           ts(2023, 10, 31, 3, 10, 4), ts(2024, 5, 31, 15, 50, 36)]
    for b in mid:
        for d in ((0,) if tier != 'thorough' else (0, 7, 3600, 86400)):
            out.append(b + d)
    return out


class Bench:
    def __init__(self, prog):
        self.prog = prog
        hooks = {'malloc': self.h_malloc, 'free': self.h_free, 'memset': self.h_memset, 'gmtime_r': self.h_gmtime, 'timegm': self.h_timegm}
        self.it = GInterp(prog, {}, hooks=hooks, inline=('*',), max_steps=1000000)
        self.it.max_depth = 400          # the deepest answer of the grid nests 28 calls, the longest takes about 31000 steps
        self.n = 0

    def h_malloc(self, it, f, st, a):
        self.n += 1
        name = 'heap#%d' % self.n
        it.mem[name] = ['uninit'] * (a[0] // 4)          # the only allocations on this path are arrays of int
        return P(name, 0)

    def h_free(self, it, f, st, a):
        if isinstance(a[0], P):
            if a[0].r in it.freed:
                it.fault(f, st, '%s is freed twice' % a[0].r)
            it.freed.add(a[0].r)
        return None

    def h_memset(self, it, f, st, a):
        r = it.record_of(a[0])
        if r is None:
            return minterp.h_memset(it, f, st, a)
        for k in ('tm_sec', 'tm_min', 'tm_hour', 'tm_mday', 'tm_mon', 'tm_year', 'tm_wday', 'tm_yday', 'tm_isdst'):
            r[k] = a[1]
        return a[0]

    @staticmethod
    def fill(r, t):
        day, sod = t // 86400, t % 86400
        y, m, d = civil_from_days(day)
        r.update({'tm_sec': sod % 60, 'tm_min': sod // 60 % 60, 'tm_hour': sod // 3600, 'tm_mday': d, 'tm_mon': m - 1, 'tm_year': y - 1900, 'tm_wday': (day + 4) % 7,
                  'tm_yday': day - days_from_civil(y, 1, 1), 'tm_isdst': 0})

    def h_gmtime(self, it, f, st, a):
        t = it.load(f, st, a[0]) if isinstance(a[0], P) else None
        r = it.record_of(a[1])
        if not isinstance(t, int) or r is None:
            raise AnalysisBroken('gmtime_r: arguments the replay does not hold at %s' % f.loc(st['i']))
        self.fill(r, t)
        return a[1]

    def h_timegm(self, it, f, st, a):
        r = it.record_of(a[0])
        v = [r.get(k) for k in ('tm_year', 'tm_mon', 'tm_mday', 'tm_hour', 'tm_min', 'tm_sec')] if r is not None else [None]
        if not all(isinstance(x, int) for x in v):
            raise AnalysisBroken('timegm: a field of struct tm is not a number at %s (%s)' % (f.loc(st['i']), v))
        y, mo, d, h, mi, s = v
        y += 1900 + mo // 12
        mo = mo % 12
        t = (days_from_civil(y, mo + 1, 1) + d - 1) * 86400 + h * 3600 + mi * 60 + s
        self.fill(r, t)
        return t

    def expr(self, e):
        rec = {'__cls__': None, '__open__': True}
        for name, nbytes in SIZES:
            self.n += 1
            reg = 'cron:%s#%d' % (name, self.n)
            cells = [0] * nbytes
            for bit in e[KEYS[name]]:
                cells[bit // 8] |= 1 << (bit % 8)
            self.it.mem[reg] = cells
            rec[name] = P(reg, 0)
        self.it._keep.append(rec)
        return rec

    def next(self, e, t):
        g = self.prog.fn1('cron_next')
        rec = self.expr(e)
        self.it.faults = []
        self.it.steps = 0            # the budget of steps is per answer
        try:
            r = self.it.call(g, [self.it.ref(rec), t])
        except AnalysisBroken as ex:
            if 'does not terminate' not in str(ex):
                raise
            self.it.faults.append('the search has not ended after %d interpreted steps (the longest answer of the grid takes about 31000): %s' % (self.it.max_steps, ex))
            r = None
        return r


def r18(ctx, prog):
    from tbxlint.facts import extract
    if not any(g.name == 'cron_next' and g.body is not None for g in prog.funcs.values()):
        prog = extract([SRC])
    ins = instants(ctx.tier)
    ctx.rule('C20.R18', 'A10 the next instant of a cron expression by abstract replay: cron_next() of the bundled ccronexpr (do_next and its helpers, with gmtime_r/timegm as models of the '
             'harness) is interpreted on %d parsed expressions (every 10 minutes, a daily time, seconds lists at 23:59, day 31, 29 February, working days, day-of-month with '
             'day-of-week, a month, a week day every minute, every second, 30 February, lists of seconds / minutes / hours under a restricted minute / hour, week days of one month) x %d instants around minute, hour, day, month, leap-day, year and century boundaries '
             '(1970 to 2100): each answer is the earliest second strictly after the given one whose second, minute, hour, day of month, day of week and month are all in the '
             'tables, and an expression no day matches is refused with (time_t)-1; no fault (out-of-range table read, double free) on the way' % (len(EXPRS), len(ins)), floor=1)
    b = Bench(prog)
    bad = None
    far = None
    n = nfar = 0
    for name, e in EXPRS:
        for t in ins:
            want = reference_next(e, t)
            beyond = want is not None and civil_from_days(want // 86400)[0] - civil_from_days(t // 86400)[0] > 4
            if (far if beyond else bad) is not None:
                continue
            got = b.next(e, t)
            why = None
            if b.it.faults:
                why = str(b.it.faults[0])
            else:
                if isinstance(got, int) and got >= (1 << 63):
                    got = got - (1 << 64)
                if want is None and got != -1:
                    why = 'answers %s where no instant matches (expected (time_t)-1)' % got
                elif want is not None and got != want:
                    why = 'answers %s (%s), the earliest matching instant after it is %d (%s)' % (got, fmt(got), want, fmt(want))
            if beyond and (why is None or (got == -1 and not b.it.faults)):
                nfar += 1
                if why:
                    far = (name, t, why)         # refused: the horizon of the library (any other wrong answer for these instants is reported with the rest)
            else:
                n += 1
                if why:
                    bad = (name, t, why)
    f = prog.fn1('cron_next')
    ctx.ob('C20.R18', 'cron_next|values', bad is None, '%d answers' % n if bad is None else 'expression "%s" at %d (%s): %s' % (bad[0], bad[1], fmt(bad[1]), bad[2]), where=f.loc(f.body))
    # the instants whose next match lies more than four calendar years ahead (29 February across 2100, which is not a leap year) are judged apart: the library stops
    # searching after four years, a limitation listed in known_findings.txt, and any other wrong answer must still be reported above
    if nfar == 0:
        raise AnalysisBroken('r18: no instant of the grid has its next match more than four years ahead')
    ctx.ob('C20.R18', 'cron_next|match-more-than-4-years-ahead', far is None, '%d answers' % nfar if far is None else 'expression "%s" at %d (%s): %s' % (far[0], far[1], fmt(far[1]), far[2]),
           where=f.loc(f.body))


def fmt(t):
    if not isinstance(t, int) or t < 0:
        return '-'
    y, m, d = civil_from_days(t // 86400)
    s = t % 86400
    return '%04d-%02d-%02d %02d:%02d:%02d' % (y, m, d, s // 3600, s // 60 % 60, s % 60)
