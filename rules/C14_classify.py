"""C14 — what the protocol layer makes of a decoded JSON value (C14.R21).  Imported by rules/C14.py.

tbxlint/minterp.py interprets jsonrpc::Proto::onRecvJson and the util::json::GetField / Get helpers it uses; a JSON value is a value of the harness that answers the
queries of the JSON library (is_object, contains, at, operator[], is_null, is_number_integer, get<T>, iteration over an array) as the library defines them.  The two callbacks
are probes.  A reference written from JSON-RPC 2.0 and the header's description says, for each value, which callback is due with which arguments."""
from tbxlint.facts import AnalysisBroken
from tbxlint import minterp
from tbxlint.minterp import P, S

PROTO = 'tbox::jsonrpc::Proto'


class J:
    """a JSON value"""
    __slots__ = ('v',)

    def __init__(self, v):
        self.v = v

    def iter_values(self):
        if isinstance(self.v, list):
            return [J(x) for x in self.v]
        if isinstance(self.v, dict):
            return [J(x) for x in self.v.values()]
        return []

    def __repr__(self):
        return 'J(%r)' % (self.v,)

    def __eq__(self, o):
        return isinstance(o, J) and self.v == o.v and type(self.v) is type(o.v)

    def __hash__(self):
        return hash(repr(self.v))


def _j(it):
    x = it.cur_obj
    if not isinstance(x, J):
        raise AnalysisBroken('a JSON query on something the replay does not hold as a JSON value (%r)' % (x,))
    return x.v


def _key(it, k):
    t = str(k) if isinstance(k, S) else it.to_text(k)
    if t is None:
        raise AnalysisBroken('a JSON member name the replay cannot read')
    return t


def json_hooks():
    is_int = lambda v: isinstance(v, int) and not isinstance(v, bool)
    h = {
        'basic_json::is_object': lambda it, f, st, a: int(isinstance(_j(it), dict)),
        'basic_json::is_array': lambda it, f, st, a: int(isinstance(_j(it), list)),
        'basic_json::is_null': lambda it, f, st, a: int(_j(it) is None),
        'basic_json::is_string': lambda it, f, st, a: int(isinstance(_j(it), str)),
        'basic_json::is_boolean': lambda it, f, st, a: int(isinstance(_j(it), bool)),
        'basic_json::is_number': lambda it, f, st, a: int((is_int(_j(it)) or isinstance(_j(it), float))),
        'basic_json::is_number_integer': lambda it, f, st, a: int(is_int(_j(it))),
        'basic_json::is_number_unsigned': lambda it, f, st, a: int(is_int(_j(it)) and _j(it) >= 0),
        'basic_json::contains': lambda it, f, st, a: int(isinstance(_j(it), dict) and _key(it, a[0]) in _j(it)),
        'basic_json::basic_json': lambda it, f, st, a: (a[0] if a and isinstance(a[0], J) else J(None)),
    }

    def at(it, f, st, a):
        v = _j(it)
        k = _key(it, a[0]) if not isinstance(a[0], int) else a[0]
        if isinstance(v, dict) and k in v:
            return J(v[k])
        if isinstance(v, list) and isinstance(k, int) and 0 <= k < len(v):
            return J(v[k])
        if st.get('fn') == 'at':
            raise minterp.Throw(['nlohmann::detail::out_of_range', 'nlohmann::detail::exception', 'std::exception'], 'json at')
        if v is None or isinstance(v, dict):
            return J(None)          # operator[] on a const object with a missing key is undefined behaviour in the library; on null it yields null
        raise minterp.Throw(['nlohmann::detail::type_error', 'nlohmann::detail::exception', 'std::exception'], 'json operator[]')
    h['basic_json::at'] = at
    h['basic_json::operator[]'] = at

    def get(it, f, st, a):
        v = _j(it)
        if isinstance(v, str):
            return S(v)
        if isinstance(v, bool):
            return int(v)
        if isinstance(v, int):
            t = (st.get('ct') or st.get('t') or '')
            return minterp.wrap(v, t) if t in minterp.WIDTH else v
        return v
    h['basic_json::get'] = get
    return h


def reference(v):
    """[('request', id, method, params) | ('respond', id, code, result)] due for a decoded value"""
    out = []
    is_int32 = lambda x: isinstance(x, int) and not isinstance(x, bool) and -(1 << 31) <= x < (1 << 31)
    if isinstance(v, list):
        for x in v:
            if isinstance(x, dict):
                out += reference(x)
        return out
    if not isinstance(v, dict) or v.get('jsonrpc') != '2.0' or not isinstance(v.get('jsonrpc'), str):
        return out
    if 'method' in v:
        if isinstance(v['method'], str):
            out.append(('request', v['id'] if is_int32(v.get('id')) else 0, v['method'], v.get('params')))
    elif 'result' in v:
        if is_int32(v.get('id')):
            out.append(('respond', v['id'], 0, v['result']))
    elif 'error' in v:
        e = v['error']
        if isinstance(e, dict) and is_int32(e.get('code')):
            out.append(('respond', v['id'] if is_int32(v.get('id')) else 0, e['code'], None))
    return out


def values():
    ok = {'jsonrpc': '2.0'}
    m = lambda **kw: dict(ok, **kw)
    return [m(method='sum', id=3, params=[1, 2]), m(method='ping'), m(method='x', id='7'), m(method=5, id=1), m(id=4, result=8), m(id=4, result=None), m(id=4, result=0),
            m(id=4, result=False), m(id=4, result={}), m(result=1), m(id='4', result=1), m(id=1 << 40, result=1), m(id=9, error={'code': -32601, 'message': 'x'}),
            m(id=9, error={'message': 'x'}), m(id=9, error=None), m(error={'code': 5}), m(id=2),
            {'jsonrpc': '1.0', 'id': 1, 'result': 1}, {'id': 1, 'result': 1}, {'jsonrpc': 2.0, 'id': 1, 'result': 1}, 5, 'text', None, [], [m(id=1, result=None), 7, [m(id=2, result=2)],
            m(method='n')], m(method='both', id=1, result=5)]


def r21(ctx, prog):
    ctx.rule('C14.R21', 'A10 what is made of a decoded value, by abstract replay: Proto::onRecvJson with the GetField / Get helpers is interpreted on a list of JSON values (requests with and '
             'without id and params, replies whose result is null, 0, false or an object, replies with a missing, textual or 64-bit id, error replies with and without a code, wrong or missing version, scalars, arrays with nested arrays) against the queries of the JSON library: the request or reply callback '
             'runs exactly when JSON-RPC 2.0 makes the value a request or a reply — a reply whose result is null included — with the id, method, parameters, code and result of '
             'the value, once per member of a batch', floor=1)
    if not any(g.name == PROTO + '::onRecvJson' for g in prog.funcs.values()) or not any(g.name == 'tbox::util::json::GetField' for g in prog.funcs.values()):
        from tbxlint.facts import extract
        prog = extract('ALL')
    f = prog.fn1(PROTO + '::onRecvJson')
    bad = None
    vs = values()
    for v in vs:
        got = []
        hooks = dict(minterp.VECTOR_HOOKS)
        hooks.update(json_hooks())
        it = minterp.Interp(prog, {'str:empty': [0]}, hooks=hooks, inline=('*',), max_steps=400000)
        it.string_mode = True
        it.noeval = set(getattr(it, 'noeval', ())) | {'LogNotice', 'LogWarn', 'LogDbg', 'LogInfo'}
        rec = it.new_record(PROTO)
        it._keep.append(rec)
        unj = lambda x: x.v if isinstance(x, J) else x
        rec['recv_request_cb_'] = lambda i, m_, p_: got.append(('request', i, str(m_), unj(p_)))
        rec['recv_respond_cb_'] = lambda i, c, r: got.append(('respond', i, c, unj(r)))
        why = None
        try:
            it.call(f, [J(v)], this=rec)
        except minterp.Throw as ex:
            why = 'an exception (%s) escapes onRecvJson' % ex.types[0]
        if why is None and it.faults:
            why = it.faults[0]
        want = reference(v)
        if why is None and got != want:
            why = 'the callbacks see %s where %s is due' % (got or 'nothing', want or 'nothing')
        if why and bad is None:
            bad = (v, why)
    ctx.ob('C14.R21', 'Proto|classification', bad is None, '%d values' % len(vs) if bad is None else 'value %s: %s' % (bad[0], bad[1]), where=f.loc(f.body))
