"""C08 — cabinet tokens, pooled objects, shared fds (DESIGN §4 C08)."""
from tbxlint.facts import extract, AnalysisBroken, MODULES, instantiate_unit
from tbxlint import locks, q, own
from rules import C08_replay

CAB = 'tbox::cabinet::Cabinet<verif::Obj>'
POOL = 'tbox::ObjectPool<verif::Obj>'
FD = 'tbox::util::Fd'


def r1(ctx, prog):
    ctx.rule('C08.R1', 'A4: the generation counter only grows: every write to Cabinet::last_id_ is a pre-increment, or the reset to 0 that is guarded by '
                       'last_id_ == numeric_limits<Id>::max()', floor=2)
    n = 0
    for f in prog.methods_of(CAB):
        for st in f.stmts:
            if not st or st['k'] != 'MemberExpr' or not st.get('q', '').endswith('::last_id_'):
                continue
            if locks.classify_access(f, st['i']) != 'w':
                continue
            n += 1
            p_, _ = f.up(st['i'])
            ps = f.s(p_)
            ok, why = False, 'unrecognised write'
            if ps['k'] == 'UnaryOperator' and ps.get('op') == '++':
                ok, why = True, 'increment'
            elif ps['k'] == 'BinaryOperator' and ps.get('op') == '=' and f.s(f.strip_casts(ps['ch'][1])).get('cv') == 0:
                g = [c for c, k, b in f.cfg.controlling_branches(q.pt(f, ps)) if any(x.endswith('::last_id_') for x in q.subtree_fields(f, c)) and k == 0 and
                     f.s(f.strip_casts(c)).get('op') == '==' and any('max' in (cc.get('callee') or '') for cc in q.subtree_calls(f, c))]
                ok, why = bool(g), 'wrap-around reset guarded by last_id_ == max()' if g else 'counter rewound to 0 unconditionally: tokens handed out earlier become valid again for later objects'
            ctx.ob('C08.R1', 'Cabinet::%s|last_id_@%s' % (f.short, why.split(' ')[0]), ok, why, where=f.loc(st['i']))
    if n < 2:
        raise AnalysisBroken('expected >=2 writes to Cabinet::last_id_, found %d' % n)


def r2(ctx, prog):
    ctx.rule('C08.R2', 'A12+A4: free releases by token (never by the stored value), zeroes the id and links the cell in front of the free list; alloc writes id and pointer; '
                       'size() is the counter alloc/free step once; allocPos pops the free list or appends (the token guards themselves are decided by the replay C08.R10)', floor=5)
    # (the null / range / id guards in front of every access to the stored pointer, and the cell being the one at token.pos(), used to be matched here by shape;
    #  they are decided semantically — and independently of helpers — by the replay C08.R10)
    fr = prog.fn1(CAB + '::free')
    # ... but whether the entry is released must depend on the token only, never on the value that happens to be stored:
    # an entry holding nullptr (alloc() before update()) is a live entry
    for st in fr.stmts:
        if st and st['k'] == 'BinaryOperator' and st.get('op') == '=' and fr.path(st['ch'][0]) == 'cell.id':
            from tbxlint import rd as _rd
            bad = []
            for c, k, b in fr.cfg.controlling_branches(q.pt(fr, st)):
                roots = [c]
                for x in fr.walk(c):
                    sx = fr.stmts[x]
                    if sx['k'] == 'DeclRefExpr' and sx.get('dk') == 'Var':
                        roots += [d_['rhs'] for d_ in _rd.local_defs(fr, sx['d']) if d_['rhs'] is not None]
                dep_ptr = False
                for r_ in roots:
                    for x in fr.walk(r_):
                        sx = fr.stmts[x]
                        if sx['k'] == 'MemberExpr' and sx.get('n') == 'obj_ptr':
                            dep_ptr = True
                        if sx['k'] in q.CALL_KINDS and sx.get('fn') in ('at', 'operator[]') and sx.get('cls', '').startswith('tbox::cabinet::Cabinet<'):
                            dep_ptr = True
                if dep_ptr:
                    bad.append(fr.loc(c))
            ctx.ob('C08.R2', 'Cabinet::free|release-by-token', not bad,
                   'the entry is released whenever the token matches' if not bad else
                   'whether free() releases the entry depends on the stored pointer value (test at %s): a live entry that holds nullptr is never freed, keeps '
                   'resolving and size() stays too large' % bad[0], where=fr.loc(st['i']))
    zero = [st for st in fr.stmts if st and st['k'] == 'BinaryOperator' and st.get('op') == '=' and fr.path(st['ch'][0]) == 'cell.id' and fr.s(fr.strip_casts(st['ch'][1])).get('cv') == 0]
    link = [st for st in fr.stmts if st and st['k'] == 'BinaryOperator' and st.get('op') == '=' and fr.path(st['ch'][0]) == 'cell.next_free' and fr.path(st['ch'][1]) == 'first_free_']
    head = [st for st in fr.stmts if st and st['k'] == 'BinaryOperator' and st.get('op') == '=' and fr.path(st['ch'][0]) == 'first_free_' and fr.path(st['ch'][1]) == 'token.pos()']
    dec = [st for st in fr.stmts if st and st['k'] == 'UnaryOperator' and st.get('op') == '--' and fr.path(st['ch'][0]) == 'count_']
    saved = [st for st in fr.stmts if st and st['k'] == 'DeclStmt' and any('init' in d and (fr.path(d['init']) == 'cell.obj_ptr' or
             any(c.get('fn') == 'at' and c.get('cls', '').startswith('tbox::cabinet::Cabinet<') for c in q.subtree_calls(fr, d['init']))) for d in st['decls'])]
    ok = len(zero) == 1 and len(link) == 1 and len(head) == 1 and len(dec) == 1 and bool(saved) and \
        fr.cfg.dominates(q.pt(fr, saved[0]), q.pt(fr, link[0])) and fr.cfg.dominates(q.pt(fr, link[0]), q.pt(fr, head[0]))
    ctx.ob('C08.R2', 'Cabinet::free|invalidate+link', ok, 'pointer saved, id zeroed, cell linked in front of the free list, head updated, count_ decremented once', where=fr.loc(fr.body))
    al = prog.fn1(CAB + '::alloc')
    wid = [st for st in al.stmts if st and st['k'] == 'BinaryOperator' and st.get('op') == '=' and al.path(st['ch'][0]) == 'cell.id' and al.path(st['ch'][1]).endswith('.id()')]
    wpt = [st for st in al.stmts if st and st['k'] == 'BinaryOperator' and st.get('op') == '=' and al.path(st['ch'][0]) == 'cell.obj_ptr']
    inc = [st for st in al.stmts if st and st['k'] == 'UnaryOperator' and st.get('op') == '++' and al.path(st['ch'][0]) == 'count_']
    uses = [st.get('fn') for st in al.calls()]
    ctx.ob('C08.R2', 'Cabinet::alloc|fill', len(wid) == 1 and len(wpt) == 1 and len(inc) == 1 and 'allocId' in uses and 'allocPos' in uses,
           'new token = (allocId(), allocPos()); id and pointer written; count_ incremented once', where=al.loc(al.body))
    sz = prog.fn1(CAB + '::size')
    ctx.ob('C08.R2', 'Cabinet::size|counter', any(sz.path(r['val']) == 'count_' for r in q.returns(sz)), 'size() returns count_', where=sz.loc(sz.body))
    ap = prog.fn1(CAB + '::allocPos')
    reuse = [st for st in ap.stmts if st and st['k'] == 'BinaryOperator' and st.get('op') == '=' and ap.path(st['ch'][0]) == 'first_free_' and ap.path(st['ch'][1]) == 'cell.next_free']
    push = [st for st in ap.calls() if st.get('fn') == 'push_back' and 'obj' in st and ap.path(st['obj']) == 'cells_']
    ctx.ob('C08.R2', 'Cabinet::allocPos|free-list', len(reuse) == 1 and len(push) == 1 and
           any(any(x.endswith('first_free_') for x in q.subtree_fields(ap, c)) for c, br in q.lexical_guards(ap, reuse[0]['i'])),
           'pops the free list when non-empty, otherwise appends a cell', where=ap.loc(ap.body))


def r3(ctx, prog):
    ctx.rule('C08.R3', 'A6 type rule (whole program): objects of a type managed by an ObjectPool<T> are never created with new nor destroyed with delete; '
                       'ObjectPool::alloc runs exactly one placement-new and free exactly one destructor call, before the block is recycled', floor=5)
    managed = own.managed_types(prog)
    pooled = {t for t, k in managed.items() if 'pool' in k}
    if len(pooled) < 5:
        raise AnalysisBroken('expected >=5 pooled types in the program, found %s' % sorted(pooled))
    viol = {}
    for f in prog.funcs.values():
        if (prog.outermost(f).cls or '').startswith('tbox::ObjectPool<'):
            continue
        for st in f.stmts:
            if st and st['k'] == 'CXXNewExpr' and st.get('cat') in pooled and not st.get('pl'):
                viol.setdefault(st['cat'], []).append('new at ' + f.loc(st['i']))
            if st and st['k'] == 'CXXDeleteExpr' and st.get('cdt') in pooled:
                viol.setdefault(st['cdt'], []).append('delete at ' + f.loc(st['i']))
    for t in sorted(pooled):
        ctx.ob('C08.R3', 'pooled:%s|no-new-delete' % t, t not in viol, 'never new\'ed/deleted outside its pool' if t not in viol else '; '.join(viol[t][:3]))
    al = prog.fn1(POOL + '::alloc')
    news = [st for st in al.stmts if st and st['k'] == 'CXXNewExpr']
    ok = len(news) == 1 and news[0].get('pl') == 1 and not al.cfg.exists_path(al.cfg.entry_point(), 'exit', avoid=q.pts(al, news)) and not al.cfg.exists_path(q.pt(al, news[0]), q.pt(al, news[0]))
    ctx.ob('C08.R3', 'ObjectPool::alloc|one-ctor', ok, 'exactly one placement-new on every path', where=al.loc(al.body))
    reuse = [st for st in al.stmts if st and st['k'] == 'BinaryOperator' and st.get('op') == '=' and al.path(st['ch'][0]) == 'free_header_' and al.path(st['ch'][1]) == 'block.next']
    ctx.ob('C08.R3', 'ObjectPool::alloc|unlink', len(reuse) == 1 and al.cfg.dominates(q.pt(al, reuse[0]), q.pt(al, news[0])) is not None and
           not al.cfg.exists_path(q.pt(al, news[0]), q.pt(al, reuse[0])), 'a cached block is unlinked from the free list before it is constructed into', where=al.loc(al.body))
    # alloc() constructs and never destroys: it reaches no destructor call of the pooled type, neither directly nor through the pool's own methods
    dtor_in = lambda g: [st for st in g.stmts if st and st['k'] == 'CXXMemberCallExpr' and (st.get('fn') or '').startswith('~')]
    reach = [al] + list(q.transitive_callees(prog, al, within=lambda h: (prog.outermost(h).cls or '').startswith('tbox::ObjectPool<')))
    culprit = [(g, d_) for g in reach for d_ in dtor_in(g)]
    ctx.ob('C08.R3', 'ObjectPool::alloc|no-dtor', not culprit, 'alloc() reaches no destructor call' if not culprit else
           'alloc() reaches the destructor call at %s (through %s): on that path a destructor runs for an object whose constructor did not complete — not one '
           'constructor and one destructor per alloc/free pair' % (culprit[0][0].loc(culprit[0][1]['i']), culprit[0][0].short), where=al.loc(al.body))
    fr = prog.fn1(POOL + '::free')
    dt = [st for st in fr.stmts if st and st['k'] == 'CXXMemberCallExpr' and (st.get('fn') or '').startswith('~')]
    thread = [st for st in fr.stmts if st and st['k'] == 'BinaryOperator' and st.get('op') == '=' and fr.path(st['ch'][0]) == 'block.next']
    rel = [st for st in fr.stmts if st and st['k'] == 'CallExpr' and st.get('callee') == 'free']
    ok = len(dt) == 1 and not fr.cfg.exists_path(fr.cfg.entry_point(), 'exit', avoid=q.pts(fr, dt)) and all(fr.cfg.dominates(q.pt(fr, dt[0]), q.pt(fr, x)) for x in thread + rel) and bool(thread) and bool(rel)
    ctx.ob('C08.R3', 'ObjectPool::free|one-dtor-first', ok, 'exactly one destructor call, before the block is threaded into the free list or released', where=fr.loc(fr.body))
    ctx.stats['pooled_types'] = sorted(pooled)


def r4(ctx, prog):
    ctx.rule('C08.R4', 'A4 pairing: Fd copies increment the reference count before sharing the record; the destructor decrements once and closes only '
                       'at zero and fd >= 0; close() marks the descriptor closed; moves only swap', floor=6)
    copies = [f for f in prog.methods_of(FD) if (f.d.get('ctor') and f.params and f.params[0]['ct'] == 'const tbox::util::Fd &') or
              (f.short == 'operator=' and f.params and f.params[0]['ct'] == 'const tbox::util::Fd &')]
    if len(copies) != 2:
        raise AnalysisBroken('Fd copy constructor / copy assignment not found (%d)' % len(copies))
    for f in copies:
        sh = [st for st in f.stmts if st and st['k'] == 'BinaryOperator' and st.get('op') == '=' and f.path(st['ch'][0]) == 'detail_' and f.path(st['ch'][1]) == 'other.detail_']
        inc = [st for st in f.stmts if st and st['k'] == 'UnaryOperator' and st.get('op') == '++' and f.path(st['ch'][0]) == 'other.detail_.ref_count']
        ok = len(sh) == 1 and len(inc) == 1 and f.cfg.dominates(q.pt(f, inc[0]), q.pt(f, sh[0])) and q.must_follow(f, q.pt(f, inc[0]), q.pts(f, sh))
        ctx.ob('C08.R4', '%s(%s)|ref-then-share' % (f.name, 'copy' if f.d.get('ctor') else 'assign'), ok, 'ref_count incremented exactly when the record is shared', where=f.loc(f.body))
        if f.short == 'operator=':
            rs = q.calls(f, callee=FD + '::reset')
            ctx.ob('C08.R4', '%s|release-old' % f.name, bool(rs) and bool(sh) and f.cfg.dominates(q.pt(f, rs[0]), q.pt(f, sh[0])), 'the previous record is released before taking the new one', where=f.loc(f.body))
    d = [f for f in prog.methods_of(FD) if f.d.get('dtor')][0]
    dec = [st for st in d.stmts if st and st['k'] == 'UnaryOperator' and st.get('op') == '--' and d.path(st['ch'][0]) == 'detail_.ref_count']
    cl = [st for st in d.stmts if st and ((st['k'] == 'CallExpr' and st.get('callee') == 'close') or (st['k'] == 'CXXOperatorCallExpr' and st.get('op') == '()' and 'close_func' in d.path(st['obj'])))]
    dl = [st for st in d.stmts if st and st['k'] == 'CXXDeleteExpr']
    ok = len(dec) == 1 and len(cl) == 2 and len(dl) == 1
    if ok:
        for c in cl + dl:
            gs = d.cfg.controlling_branches(q.pt(d, c))
            z = any(q.edge_says(d, g, k, lambda l: l.endswith('detail_.ref_count'), ('==',), lambda r: r == '0') for g, k, b in gs)
            ok = ok and z and d.cfg.dominates(q.pt(d, dec[0]), q.pt(d, c))
        for c in cl:
            gs = d.cfg.controlling_branches(q.pt(d, c))
            # "the descriptor is valid" in any spelling (>= 0, > -1, != -1): the edge is taken for 0, 1, 2 and not for -1
            def valid_edge(g, k):
                isfd = lambda sx: sx['k'] == 'MemberExpr' and sx.get('n') == 'fd'
                if not any(isfd(d.stmts[x]) for x in d.walk(g)):
                    return False
                vec = [q.eval_expr(d, g, lambda sx, v=v: v if isfd(sx) else None, signed=True) for v in (-1, 0, 1, 2)]
                return None not in vec and [bool(x) == (k == 0) for x in vec] == [False, True, True, True]
            ok = ok and any(valid_edge(g, k) for g, k, b in gs)
    ctx.ob('C08.R4', '%s|last-release-closes' % d.name, ok, 'one decrement; close and delete only under ref_count == 0 (close also under fd >= 0)', where=d.loc(d.body))
    c = prog.fn1(FD + '::close')
    mark = [st for st in c.stmts if st and st['k'] == 'BinaryOperator' and st.get('op') == '=' and c.path(st['ch'][0]) == 'detail_.fd' and c.s(c.strip_casts(st['ch'][1])).get('cv') == -1]
    cls_ = [st for st in c.stmts if st and ((st['k'] == 'CallExpr' and st.get('callee') == 'close') or (st['k'] == 'CXXOperatorCallExpr' and st.get('op') == '()' and 'close_func' in c.path(st['obj'])))]
    ok = len(mark) == 1 and len(cls_) == 2 and all(q.must_follow(c, q.pt(c, x), q.pts(c, mark)) for x in cls_) and \
        all(any('detail_.fd' in q.subtree_paths(c, g) and k == 0 for g, k, b in c.cfg.controlling_branches(q.pt(c, x))) for x in cls_)
    ctx.ob('C08.R4', '%s|marks-closed' % c.name, ok, 'close() closes only when fd >= 0 and then stores fd = -1 (the last release does not close again)', where=c.loc(c.body))
    for f in prog.methods_of(FD):
        is_move = (f.d.get('ctor') or f.short == 'operator=') and f.params and f.params[0]['ct'] == 'tbox::util::Fd &&'
        if is_move or f.short in ('swap', 'reset'):
            touches = [st for st in f.stmts if st and st['k'] == 'MemberExpr' and st.get('n') == 'ref_count']
            ctx.ob('C08.R4', '%s(%s)|no-count' % (f.name, 'move' if is_move else f.short), not touches, 'does not touch ref_count (ownership is transferred by swapping records)', where=f.loc(f.body))


def r5(ctx, prog):
    ctx.rule('C08.R5', 'A6 deferred-capture (whole program): no task deferred to a loop captures a raw pointer to an object that is still registered in a '
                       'cabinet/pool (ownership must have been taken out: Cabinet::free result or swap-out)', floor=15)
    managed = own.managed_types(prog)
    funcs = [f for f in prog.funcs.values() if f.file.startswith(MODULES)]
    n = 0
    for f, lam, call in own.deferred_lambdas(prog, funcs):
        n += 1
        bad = []
        for c in lam.get('caps', ()):
            if c.get('this') or 'ct' not in c:
                continue
            pt = own.pointee(c['ct'])
            if pt and pt in managed:
                org = own.capture_origin(f, c['d'])
                if org not in own.OWNED:
                    bad.append('%s (%s*, origin %s)' % (c['n'], pt.split('::')[-1], org))
        ctx.ob('C08.R5', '%s|deferred@%s' % (locks.site_name(prog, f), f.stmts[lam['i']]['l'] - f.line), not bad,
               'captures no registered managed pointer' if not bad else 'deferred task captures %s' % ', '.join(bad), where=f.loc(lam['i']))
    ctx.stats['deferred_tasks'] = n


def r7(ctx, prog):
    ctx.rule('C08.R7', 'A7 live dispatch in Cabinet::foreach ("a token resolves to the object until freed and to nothing afterwards", also while iterating with removal): '
             'the callback receives the pointer read from the live cell in the iteration that found the cell occupied (id != 0) — not a pointer copied out earlier, which a '
             'previous callback may have freed or replaced', floor=1)
    fs = [f for f in prog.funcs.values() if f.name.startswith('tbox::cabinet::Cabinet<') and f.short == 'foreach' and not f.parent_usr]
    if not fs:
        raise AnalysisBroken('no instantiation of Cabinet::foreach in the analysed units')
    f = sorted(fs, key=lambda g: g.name)[0]
    pname = f.params[0]['n'] if f.params else 'func'
    invs = [st for st in f.stmts if st and st['k'] in q.CALL_KINDS and 'obj' in st and f.path(st['obj']) == pname] + \
           [st for st in f.stmts if st and st['k'] == 'CallExpr' and f.path(st.get('calleeexpr')) == pname]
    if not invs:
        raise AnalysisBroken('Cabinet::foreach: invocation of the callback not found')
    for iv in invs:
        a = iv['args'][0] if iv.get('args') else None
        ap = f.path(a) if a is not None else '?'
        root = ap.split('.')[0].rstrip('[]')
        # the argument's root must be an element of the live cells_: a range variable over cells_, or cells_[...]
        live = False
        for l in [st for st in f.stmts if st and st['k'] == 'CXXForRangeStmt']:
            if (f.field_of(l['range']) or '').endswith('::cells_') and iv['i'] in set(f.walk(l['body'])):
                rv = [d for st in f.stmts if st and st['k'] == 'DeclStmt' for d in st['decls'] if d.get('d') == l.get('lvd')]
                if rv and rv[0].get('n') == root:
                    live = True
        if ap.startswith('cells_[') or ap.startswith('cells_.at('):
            live = True
        elem = ap[:-len('.obj_ptr')] if ap.endswith('.obj_ptr') else root
        occ = any(q.edge_holds(f, c, k, elem + '.id', '!=', '0') for c, k, b in f.cfg.controlling_branches(q.pt(f, iv))) if live else False
        ctx.ob('C08.R7', 'Cabinet::foreach|live-cell', live and occ and ap.endswith('obj_ptr'),
               'callback receives %s of the live cell under %s.id != 0' % (ap, root) if live and occ else
               'the callback is handed %s, which does not come from the live cell being visited: an entry freed or updated by an earlier callback of the same walk is '
               'still delivered with its stale pointer' % ap, where=f.loc(iv['i']))


INVALIDATING = ('swap', 'clear', 'erase', 'resize', 'shrink_to_fit', 'assign', 'operator=', 'pop_back', 'push_back', 'emplace_back', 'insert', 'emplace', 'reserve')


def r8(ctx, prog):
    ctx.rule('C08.R8', 'A7 storage stability under the documented use ("removal is allowed while iterating"): Cabinet::foreach walks cells_ by range-for / iterators, so '
             'Cabinet::free — the operation a callback may perform — only reads and writes elements of cells_ and never moves, shrinks or releases the vector', floor=1)
    fe = [f for f in prog.funcs.values() if f.name.startswith('tbox::cabinet::Cabinet<') and f.short == 'foreach' and not f.parent_usr]
    fr = [f for f in prog.funcs.values() if f.name.startswith('tbox::cabinet::Cabinet<') and f.short == 'free' and not f.parent_usr]
    if not fe or not fr:
        raise AnalysisBroken('no instantiation of Cabinet::foreach/free in the analysed units')
    by_iter = any(st and st['k'] == 'CXXForRangeStmt' and (g.field_of(st['range']) or '').endswith('::cells_') for g in fe for st in g.stmts) or \
        any(st.get('fn') in ('begin', 'end') and (g.field_of(st.get('obj')) or '').endswith('::cells_') for g in fe for st in g.calls())
    f = sorted(fr, key=lambda g: g.name)[0]
    bad = []
    for c in f.calls():
        on_cells = (c.get('obj') is not None and (f.field_of(c['obj']) or '').endswith('::cells_')) or \
            any((f.field_of(a) or '').endswith('::cells_') for a in c.get('args', []))
        if on_cells and c.get('fn') in INVALIDATING:
            bad.append(c)
    ok = not (by_iter and bad)
    ctx.ob('C08.R8', 'Cabinet::free|cells-stable', ok, 'free() touches cells_ only through element access' if ok else
           'Cabinet::free() calls %s on cells_ (%s) while foreach() iterates that vector by reference: a callback that frees the last live entry releases the array under the '
           'running loop, which goes on reading freed cells' % (bad[0].get('fn'), f.loc(bad[0]['i'])), where=f.loc(bad[0]['i']) if bad else f.loc(f.body))


def r9(ctx, prog):
    ctx.rule('C08.R9', 'A12 sentinel agreement by folding: "no object" is id 0 everywhere (Token::isNull / operator bool, the occupied test of Cabinet::foreach, the marker written '
             'by free()), and a descriptor value is valid exactly when it is >= 0 with -1 as the only "no descriptor" value — every comparison of Token::id_, Cell::id or a '
             'descriptor with a constant is folded over a small domain and must split it exactly there (otherwise the first token handed out reads as null, or descriptor '
             '0 is never closed)', floor=6)
    n = 0
    # token
    for f in prog.funcs.values():
        if f.cls != 'tbox::cabinet::Token' or f.parent_usr:
            continue
        if f.short in ('isNull', 'operator bool'):
            rets = q.returns(f)
            if len(rets) != 1 or rets[0].get('val') is None:
                continue
            n += 1
            want_null = f.short == 'isNull'
            bad = [v for v in range(0, 4) if bool(q.eval_expr(f, rets[0]['val'], lambda sx, v=v: v if (sx['k'] == 'MemberExpr' and sx.get('n') == 'id_') else None)) != ((v == 0) == want_null)]
            ctx.ob('C08.R9', 'Token::%s' % f.short, not bad, 'null exactly for id 0' if not bad else
                   'Token::%s answers wrongly for id %d: id 0 is what reset(), the default constructor and Cabinet::free() write, and allocId() never hands it out' % (f.short, bad[0]), where=f.loc(rets[0]['i']))
    # cabinet: occupied tests on Cell::id against a constant
    for f in prog.funcs.values():
        if not f.name.startswith('tbox::cabinet::Cabinet<tbox::event::') or f.parent_usr:
            continue
        for st in f.stmts:
            if st and st['k'] == 'BinaryOperator' and st.get('op') in ('==', '!=', '<', '>', '<=', '>='):
                flds = [f.stmts[x] for x in f.walk(st['i']) if f.stmts[x]['k'] == 'MemberExpr' and f.stmts[x].get('n') == 'id' and (f.stmts[x].get('q') or '').endswith('Cell::id')]
                other_const = any((f.s(c) or {}).get('cv') is not None for c in st['ch'])
                if len(flds) == 1 and other_const:
                    n += 1
                    vec = tuple(bool(q.eval_expr(f, st['i'], lambda sx, v=v: v if (sx['k'] == 'MemberExpr' and sx.get('n') == 'id') else None)) for v in range(0, 4))
                    ok = vec in ((True, False, False, False), (False, True, True, True))
                    ctx.ob('C08.R9', '%s|cell-id-test@%s' % (f.short, f.loc(st['i']).split(':')[-1]), ok, 'the cell is told free/occupied exactly at id 0' if ok else
                           'the test of Cell::id against a constant does not separate 0 from the ids in use (truth for id 0..3: %s)' % (vec,), where=f.loc(st['i']))
    # descriptors
    FD = 'tbox::util::Fd'
    for f in prog.funcs.values():
        if prog.outermost(f).cls != FD:
            continue
        for st in f.stmts:
            if st and st['k'] == 'BinaryOperator' and st.get('op') in ('==', '!=', '<', '>', '<=', '>='):
                is_fd = lambda sx: (sx['k'] == 'MemberExpr' and sx.get('n') == 'fd') or (sx['k'] == 'DeclRefExpr' and sx.get('n') == 'fd' and sx.get('dk') in ('ParmVar', 'Var'))
                subj = [f.stmts[x] for x in f.walk(st['i']) if is_fd(f.stmts[x])]
                const = [c for c in st['ch'] if q.eval_expr(f, c, lambda sx: None, signed=True) is not None]
                if len(subj) == 1 and const:
                    n += 1
                    vec = tuple(bool(q.eval_expr(f, st['i'], lambda sx, v=v: v if is_fd(sx) else None, signed=True)) for v in (-1, 0, 1, 2))
                    ok = vec in ((True, False, False, False), (False, True, True, True))
                    ctx.ob('C08.R9', '%s|fd-test@%s' % (locks.site_name(prog, f), f.loc(st['i']).split(':')[-1]), ok, 'splits descriptors at -1 | 0' if ok else
                           'the test does not separate "no descriptor" (-1) from the valid descriptors 0, 1, 2, ... (truth for -1, 0, 1, 2: %s): descriptor 0 is treated as absent '
                           '(never closed), or -1 as present' % (vec,), where=f.loc(st['i']))
    if n < 6:
        raise AnalysisBroken('expected >= 6 sentinel tests (Token, Cell::id, Fd), found %d' % n)


def r6(ctx, prog):
    ctx.rule('C08.R6', 'A9d (whole program): a token look-up may answer "nothing" — every pointer obtained from Cabinet::at/free/operator[] is '
                       'null-tested before it is dereferenced, also inside deferred tasks that capture it', floor=25)
    from rules.C14 import null_guarded
    n = 0
    for f in prog.funcs.values():
        if not f.file.startswith(MODULES):
            continue
        for st in f.stmts:
            if not st or st['k'] != 'DeclStmt':
                continue
            for d in st['decls']:
                if 'init' not in d:
                    continue
                c = f.s(f.strip_casts(d['init']))
                if not (c and c['k'] in q.CALL_KINDS and c.get('fn') in ('free', 'at', 'operator[]') and c.get('cls', '').startswith('tbox::cabinet::Cabinet<')):
                    continue
                n += 1
                bad = []
                for g in prog.family(f):
                    lam_sites = [x for x in f.stmts if x and x['k'] == 'LambdaExpr' and x.get('fn') == g.usr] if g is not f else []
                    for u in g.stmts:
                        if not (u and u['k'] == 'DeclRefExpr' and (u.get('d') == d['d'] if g is f else u.get('n') == d['n'] and u.get('dk') == 'Var')):
                            continue
                        p_, _ = g.up(u['i'])
                        ps = g.s(p_)
                        deref = ps is not None and ((ps['k'] == 'MemberExpr' and ps.get('arrow')) or (ps['k'] == 'UnaryOperator' and ps.get('op') == '*') or
                                                    (ps['k'] == 'CXXMemberCallExpr' and g.strip_casts(ps.get('obj', -1)) == u['i']))
                        if not deref:
                            continue
                        pt = g.cfg.point_of(u['i'])
                        if g is f:
                            ok = pt is not None and null_guarded(g, pt, d['d'])
                        else:
                            ok = any(f.cfg.point_of(x['i']) and null_guarded(f, f.cfg.point_of(x['i']), d['d']) for x in lam_sites) or \
                                (pt is not None and null_guarded(g, pt, u.get('d')))
                        if not ok:
                            bad.append(g.loc(u['i']))
                ctx.ob('C08.R6', '%s|%s' % (locks.site_name(prog, f), d['n']), not bad,
                       'every dereference of %s is behind a null test' % d['n'] if not bad else
                       '%s comes from Cabinet::%s() and is dereferenced at %s without a null test (the token may already have been freed by someone else)' % (d['n'], c['fn'], bad[0]),
                       where=f.loc(st['i']))
    ctx.stats['cabinet_lookups'] = n


def run(ctx):
    prog = extract('ALL', extra_units=[instantiate_unit()])
    ctx.guard(r1, ctx, prog)
    ctx.guard(r2, ctx, prog)
    ctx.guard(r3, ctx, prog)
    ctx.guard(r4, ctx, prog)
    ctx.guard(r5, ctx, prog)
    ctx.guard(r6, ctx, prog)
    ctx.guard(r7, ctx, prog)
    ctx.guard(r8, ctx, prog)
    ctx.guard(r9, ctx, prog)
    ctx.guard(C08_replay.r10, ctx, prog, CAB)
    return prog
