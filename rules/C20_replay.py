"""C20 — next-instant computations replayed against a brute-force calendar (C20.R14).  Imported by rules/C20.py.

WeeklyAlarm / OneshotAlarm / WorkdayAlarm::calculateNextLocalTimeSec(now, &next) and WorkdayCalendar::isWorkay() are pure integer code.  tbxlint/minterp.py interprets
their syntax trees (after initialize(), also interpreted, so that the week mask is built by the code under analysis) for a grid of configurations and instants, and
each answer is compared with the definition: the earliest instant strictly after `now` whose second-of-day is the configured one and whose day is enabled
(1 January 1970 is a Thursday).  Nothing of the repository is compiled or run."""
from tbxlint.facts import AnalysisBroken
from tbxlint import minterp
from tbxlint.minterp import P

A = 'tbox::alarm::'
DAY, WEEK = 86400, 7 * 86400


def weekday(t):
    return (t // DAY + 4) % 7          # 0 = Sunday


def interp(prog, text=False):
    hooks = dict(minterp.VECTOR_HOOKS)
    if not text:
        hooks.update({'c_str': lambda it, f, st, a: it.cur_obj})
        return minterp.Interp(prog, {'str:empty': [0]}, hooks=hooks, inline=('*',))
    # the mask as a std::string with its member functions, and std::bitset<N>(text) / to_ulong() / test() as the library defines them (the leftmost character is the highest bit)
    hooks.update({'to_ulong': lambda it, f, st, a: it.cur_obj.get('v') if isinstance(it.cur_obj, dict) else it.record_of(it.cur_obj)['v'],
                  'to_ullong': lambda it, f, st, a: it.cur_obj.get('v') if isinstance(it.cur_obj, dict) else it.record_of(it.cur_obj)['v'],
                  'test': lambda it, f, st, a: ((it.cur_obj.get('v') if isinstance(it.cur_obj, dict) else it.record_of(it.cur_obj)['v']) >> a[0]) & 1})
    it = minterp.Interp(prog, {'str:empty': [0]}, hooks=hooks, inline=('*',))
    it.string_mode = True
    it.globals['std::basic_string<char>::npos'] = minterp.NPOS

    def h_bitset(it_, f, st, args):
        t = it_.to_text(args[0]) if args else ''
        if t is None and args and isinstance(args[0], int):
            v = args[0]
        elif t is None or any(c not in '01' for c in t):
            raise AnalysisBroken('std::bitset built from something the replay does not hold as text of 0/1 (%s)' % f.loc(st['i']))
        else:
            v = int(t, 2) if t else 0
        r = {'__cls__': None, '__open__': True, 'v': v}
        it_._keep.append(r)
        return r
    it.ctor_hooks['std::bitset'] = h_bitset
    return it


def call(it, cls, rec, name, args):
    g = it.find_method(cls, name, len(args))
    if g is None:
        raise AnalysisBroken('%s::%s/%d not found' % (cls, name, len(args)))
    return it.call(g, list(args), this=rec)


def next_of(it, cls, rec, now):
    it.mem['out'] = ['uninit']
    ok = call(it, cls, rec, 'calculateNextLocalTimeSec', [now, P('out', 0)])
    return int(bool(ok)), it.mem['out'][0]


def brute(now, sod, enabled, horizon_days):
    d0 = now // DAY
    for d in range(d0, d0 + horizon_days + 1):
        t = d * DAY + sod
        if t > now and enabled(d):
            return t
    return None


def r14(ctx, prog):
    ctx.rule('C20.R14', 'A10 next instant by abstract replay: initialize() and calculateNextLocalTimeSec() of the weekly, one-shot and workday alarms (with WorkdayCalendar::isWorkay) are '
             'interpreted for a grid of week masks / calendars, seconds-of-day {0, 1, 43200, 86399} and instants around every midnight and around the configured second over two '
             'weeks; each answer equals the earliest instant strictly after now with that second-of-day on an enabled day (1970-01-01 being a Thursday), and "no such instant" is '
             'answered exactly when no day is enabled', floor=3)
    base = 1_700_000_000 - (1_700_000_000 % WEEK)      # a week boundary in 2023
    sods = (0, 1, 43200, 86399)
    bad = {}
    runs = {'weekly': 0, 'oneshot': 0, 'workday': 0}

    def instants(sod):
        out = set()
        for d in range(0, 15):
            for off in (-1, 0, 1, sod - 1, sod, sod + 1, 40000):
                out.add(base + d * DAY + off)
        return sorted(out)
    # weekly
    W = A + 'WeeklyAlarm'
    for mask in ('1000000', '0100000', '0000001', '0111110', '1000001', '1111111', '0010100', '0000000'):
        for sod in sods:
            it = interp(prog)
            rec = it.new_record(W)
            it._keep.append(rec)
            rec['state_'] = 0
            it.mem['mask'] = [ord(c) for c in mask] + [0]
            it.mem['str:mask'] = it.mem['mask']
            try:
                okinit = call(it, W, rec, 'initialize', [sod, P('str:mask', 0)])
            except AnalysisBroken:
                # initialize() uses the mask through more of std::string than at()/size(): interpret it on text
                it = interp(prog, text=True)
                rec = it.new_record(W)
                it._keep.append(rec)
                rec['state_'] = 0
                okinit = call(it, W, rec, 'initialize', [sod, minterp.S(mask)])
            if not okinit:
                bad.setdefault('weekly', 'initialize(%d, "%s") is refused' % (sod, mask))
                continue
            for now in instants(sod):
                runs['weekly'] += 1
                ok, nxt = next_of(it, W, rec, now)
                want = brute(now, sod, lambda d: mask[(d + 4) % 7] == '1', 8)
                if it.faults:
                    bad.setdefault('weekly', it.faults[0])
                elif (want is None) != (not ok) or (want is not None and nxt != want):
                    bad.setdefault('weekly', 'mask "%s", second %d of the day, now = week start %+d s: the alarm answers %s where the next enabled instant is %s' %
                                   (mask, sod, now - base, 'next = now %+d s' % (nxt - now) if ok and isinstance(nxt, int) else 'none', 'now %+d s' % (want - now) if want is not None else 'none'))
    # one-shot
    O = A + 'OneshotAlarm'
    for sod in sods:
        it = interp(prog)
        rec = it.new_record(O)
        it._keep.append(rec)
        rec['state_'] = 0
        if not call(it, O, rec, 'initialize', [sod]):
            bad.setdefault('oneshot', 'initialize(%d) is refused' % sod)
            continue
        for now in instants(sod):
            runs['oneshot'] += 1
            ok, nxt = next_of(it, O, rec, now)
            want = brute(now, sod, lambda d: True, 2)
            if it.faults or not ok or nxt != want:
                bad.setdefault('oneshot', it.faults[0] if it.faults else 'second %d of the day, now = week start %+d s: the alarm answers now %+d s where now %+d s is due' %
                               (sod, now - base, (nxt - now) if isinstance(nxt, int) else -1, want - now))
    # workday
    WD, CAL = A + 'WorkdayAlarm', A + 'WorkdayCalendar'
    d0 = base // DAY
    for wmask, special, workday in ((0b0111110, {}, 1), (0b0111110, {}, 0), (0b0111110, {d0 + 1: 0, d0 + 6: 1}, 1), (0b1000001, {d0 + 2: 1}, 0), (0, {d0 + 9: 1}, 1)):
        for sod in (0, 43200, 86399):
            it = interp(prog)
            cal = it.new_record(CAL)
            it._keep.append(cal)
            wf = [fd['n'] for fd in prog.classes[CAL]['fields'] if (fd.get('ct') or '') in ('unsigned char', 'unsigned int', 'int')]
            mf = [fd['n'] for fd in prog.classes[CAL]['fields'] if (fd.get('ct') or '').startswith('std::map<')]
            if len(wf) != 1 or len(mf) != 1:
                raise AnalysisBroken('WorkdayCalendar: week mask / special days fields not identified')
            cal[wf[0]] = wmask
            cal[mf[0]] = {'__map__': True}
            cal[mf[0]].update(special)
            rec = it.new_record(WD)
            it._keep.append(rec)
            rec['state_'] = 0
            if not call(it, WD, rec, 'initialize', [sod, it.ref(cal), workday]):
                bad.setdefault('workday', 'initialize() is refused')
                continue

            def is_work(d, wmask=wmask, special=special):
                return bool(special[d]) if d in special else bool(wmask & (1 << ((d % 7 + 4) % 7)))
            for now in instants(sod):
                runs['workday'] += 1
                ok, nxt = next_of(it, WD, rec, now)
                want = brute(now, sod, lambda d: is_work(d) == bool(workday), 366)
                if it.faults or (want is None) != (not ok) or (want is not None and nxt != want):
                    bad.setdefault('workday', it.faults[0] if it.faults else 'week mask %s, %d special day(s), %s alarm at second %d, now = week start %+d s: the alarm answers %s where %s is due' %
                                   (bin(wmask), len(special), 'workday' if workday else 'rest-day', sod, now - base,
                                    'now %+d s' % (nxt - now) if ok and isinstance(nxt, int) else 'none', 'now %+d s' % (want - now) if want is not None else 'none'))
    for kind, cls in (('weekly', W), ('oneshot', O), ('workday', WD)):
        f = prog.fn1(cls + '::calculateNextLocalTimeSec')
        if runs[kind] < 50:
            raise AnalysisBroken('%s alarm: only %d instants replayed' % (kind, runs[kind]))
        ctx.ob('C20.R14', '%s|next-instant' % f.name, kind not in bad, '%d instants agree with the brute-force calendar' % runs[kind] if kind not in bad else bad[kind], where=f.loc(f.body))
