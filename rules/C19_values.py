"""C19 — AES-128 and the serializer replayed on concrete values against independent references (C19.R19, C19.R20).  Imported by rules/C19.py.

tbxlint/minterp.py interprets crypto::AES (constructor, setKey, keyExpansion, cipher, invcipher and the round functions, with the constant tables of the unit as read-only
regions) on concrete bytes; the reference is AES-128 written from FIPS-197 in this file (S-box generated from the field inverse and the affine map).  One AES object is
re-keyed through a sequence of keys — the same key, a reversed one, the byte transpose of the previous one, unrelated ones — because the object keeps the expanded key.
util::Serializer / Deserializer are interpreted the same way: the block is a region, the vector form a growing one."""
from tbxlint.facts import AnalysisBroken
from tbxlint import minterp
from tbxlint.minterp import P

AES = 'tbox::crypto::AES'


# ---- AES-128 after FIPS-197 ---------------------------------------------------------------------------------------------------------
def _xt(a):
    a <<= 1
    return (a ^ 0x11b) & 0xff if a & 0x100 else a


def _mul(a, b):
    r = 0
    while b:
        if b & 1:
            r ^= a
        a = _xt(a)
        b >>= 1
    return r


def _sbox():
    inv = [0] * 256
    for a in range(1, 256):
        for b in range(1, 256):
            if _mul(a, b) == 1:
                inv[a] = b
                break
    out = []
    for a in range(256):
        x = inv[a]
        y = x
        for sh in (1, 2, 3, 4):
            y ^= ((x << sh) | (x >> (8 - sh))) & 0xff
        out.append(y ^ 0x63)
    return out


SBOX = _sbox()
INV = [0] * 256
for _i, _v in enumerate(SBOX):
    INV[_v] = _i


def expand(key):
    w = [list(key[4 * i:4 * i + 4]) for i in range(4)]
    rc = 1
    for i in range(4, 44):
        t = list(w[i - 1])
        if i % 4 == 0:
            t = [SBOX[t[1]] ^ rc, SBOX[t[2]], SBOX[t[3]], SBOX[t[0]]]
            rc = _xt(rc)
        w.append([w[i - 4][j] ^ t[j] for j in range(4)])
    return w


def encrypt(key, block):
    w = expand(key)
    s = [[block[4 * c + r] for c in range(4)] for r in range(4)]

    def ark(rnd):
        for r in range(4):
            for c in range(4):
                s[r][c] ^= w[4 * rnd + c][r]
    ark(0)
    for rnd in range(1, 11):
        for r in range(4):
            for c in range(4):
                s[r][c] = SBOX[s[r][c]]
        for r in range(1, 4):
            s[r] = s[r][r:] + s[r][:r]
        if rnd != 10:
            for c in range(4):
                a = [s[r][c] for r in range(4)]
                s[0][c] = _mul(a[0], 2) ^ _mul(a[1], 3) ^ a[2] ^ a[3]
                s[1][c] = a[0] ^ _mul(a[1], 2) ^ _mul(a[2], 3) ^ a[3]
                s[2][c] = a[0] ^ a[1] ^ _mul(a[2], 2) ^ _mul(a[3], 3)
                s[3][c] = _mul(a[0], 3) ^ a[1] ^ a[2] ^ _mul(a[3], 2)
        ark(rnd)
    return [s[r][c] for c in range(4) for r in range(4)]


def r19(ctx, prog):
    ctx.rule('C19.R19', 'A10 AES-128 by abstract replay on concrete bytes: one AES object is keyed and re-keyed through sequences of keys (the FIPS-197 example key, the same key again, its '
             'reverse, the byte transpose of the key it holds, all-zero, all-ones, a counting key) and after every setKey() encrypts blocks (the FIPS-197 example, zeros, a counting '
             'block); every cipher text equals that of AES-128 written independently from FIPS-197, and invcipher() gives the plain text back', floor=1)
    if not any(g.name == AES + '::keyExpansion' for g in prog.funcs.values()):
        from tbxlint.facts import extract
        prog = extract(['crypto/aes.cpp'])
    mem = {}
    for name, gs in prog.globals.items():
        for g in gs:
            if (g.get('file') or '').endswith('crypto/aes.cpp') and g.get('vals') is not None:
                mem['g:' + g['n']] = list(g['vals'])
    if not mem:
        raise AnalysisBroken('no constant table of crypto/aes.cpp was read')
    fips_key = list(range(16))
    fips_pt = [0x00, 0x11, 0x22, 0x33, 0x44, 0x55, 0x66, 0x77, 0x88, 0x99, 0xaa, 0xbb, 0xcc, 0xdd, 0xee, 0xff]
    if encrypt(fips_key, fips_pt) != [0x69, 0xc4, 0xe0, 0xd8, 0x6a, 0x7b, 0x04, 0x30, 0xd8, 0xcd, 0xb7, 0x80, 0x70, 0xb4, 0xc5, 0x5a]:
        raise AnalysisBroken('the reference AES of the checker does not reproduce the FIPS-197 C.1 vector')
    tr = lambda k: [k[4 * (i % 4) + i // 4] for i in range(16)]
    abcd = [ord(c) for c in 'ABCDABCDABCDABCD']
    sequences = [[fips_key, fips_key, fips_key[::-1], tr(fips_key[::-1]), [0] * 16, [255] * 16],
                 [abcd, tr(abcd), abcd, [7] * 16, tr([7] * 16)],
                 [[(37 * i + 11) & 0xff for i in range(16)], tr([(37 * i + 11) & 0xff for i in range(16)]), tr(tr([(37 * i + 11) & 0xff for i in range(16)]))]]
    blocks = [fips_pt, [0] * 16, list(range(16, 32))] if ctx.tier == 'thorough' else [fips_pt]
    bad = None
    n = 0
    for seq in sequences:
        it = minterp.Interp(prog, dict(mem), hooks={'memcmp': minterp.h_memcmp, 'memcpy': minterp.h_memcpy, 'memset': minterp.h_memset}, inline=('*',), max_steps=5000000)
        obj = it.new_record(AES)
        it._keep.append(obj)
        serial = [0]

        def region(vals):
            serial[0] += 1
            it.mem['buf#%d' % serial[0]] = list(vals)
            return P('buf#%d' % serial[0], 0)
        first = True
        for key in seq:
            if first:
                ctor = [g for g in prog.by_name.get(AES + '::AES', ()) if g.d.get('ctor') and len(g.params) == 1 and g.body is not None]
                if len(ctor) != 1:
                    raise AnalysisBroken('AES(const uint8_t*): %d candidate(s)' % len(ctor))
                it.run_ctor(ctor[0], ctor[0].stmts[0], obj, AES, ctor[0], [region(key)])
                first = False
            else:
                it.call(prog.fn1(AES + '::setKey'), [region(key)], this=obj)
            for blk in blocks:
                n += 1
                out = region(['uninit'] * 16)
                it.call(prog.fn1(AES + '::cipher'), [region(blk), out], this=obj)
                got = list(it.mem[out.r])
                want = encrypt(key, blk)
                why = None
                if it.faults:
                    why = it.faults[0]
                elif got != want:
                    why = 'cipher() gives %s where AES-128 gives %s' % (' '.join('%02x' % x if isinstance(x, int) else '??' for x in got[:8]) + ' ..', ' '.join('%02x' % x for x in want[:8]) + ' ..')
                else:
                    back = region(['uninit'] * 16)
                    it.call(prog.fn1(AES + '::invcipher'), [region(want), back], this=obj)
                    if it.faults:
                        why = it.faults[0]
                    elif list(it.mem[back.r]) != blk:
                        why = 'invcipher() does not give the plain text back'
                if why and bad is None:
                    bad = (seq.index(key), key, why)
    f = prog.fn1(AES + '::keyExpansion')
    ctx.ob('C19.R19', 'AES|replay', bad is None, '%d blocks under %d keys set one after the other on the same objects' % (n, sum(len(s_) for s_ in sequences)) if bad is None else
           'key no. %d set on the object (%s): %s' % (bad[0] + 1, ' '.join('%02x' % x for x in bad[1]), bad[2]), where=f.loc(f.body))


# ---- the serializer and the deserializer on values -------------------------------------------------------------------------------------

SER = 'tbox::util::Serializer'
DES = 'tbox::util::Deserializer'
WIDTHS = {'uint8_t': 1, 'uint16_t': 2, 'uint32_t': 4, 'uint64_t': 8, 'unsigned char': 1, 'unsigned short': 2, 'unsigned int': 4, 'unsigned long': 8}


def ref_bytes(items, big):
    out = []
    for w, v in items:
        if w == 'raw':
            out += list(v)
        else:
            bs = [(v >> (8 * i)) & 0xff for i in range(w)]
            out += bs[::-1] if big else bs
    return out


def r20(ctx, prog):
    ctx.rule('C19.R20', 'A10 the serializer and the deserializer by abstract replay on values: messages of 1-, 2-, 4- and 8-byte integers (0, 1, the byte pattern 0x0102.., all ones) and a raw '
             'run, in both byte orders, are written by the interpreted Serializer into a fresh vector, into a vector that already holds a longer old message, and into a fixed block '
             'of exactly the size needed and of one byte less: the bytes written are those of the reference encoding, pos() and the size of the vector are exactly its length (no stale '
             'tail), a block that is too small makes the append that does not fit answer false without writing past the block; the interpreted Deserializer reads the same values '
             'back from those bytes and answers false at the end', floor=1)
    need = [SER + '::extendSize', DES + '::fetch']
    if not all(any(g.name == n_ for g in prog.funcs.values()) for n_ in need):
        from tbxlint.facts import extract
        prog = extract(['util/serializer.cpp'])

    def by_width(cls, name, w):
        c = [g for g in prog.by_name.get(cls + '::' + name, ()) if g.body is not None and len(g.params) == 1 and WIDTHS.get(g.params[0]['t'].replace('&', '').replace('const ', '').strip()) == w]
        if len(c) != 1:
            raise AnalysisBroken('%s::%s for %d byte(s): %d candidate(s)' % (cls, name, w, len(c)))
        return c[0]
    messages = [[(1, 0x7f), (2, 0x0102), (4, 0x01020304), (8, 0x0102030405060708)], [(8, (1 << 64) - 1), (1, 0), (2, 0xffff), ('raw', [9, 8, 7])], [(4, 1), (4, 0)], [(2, 0x8001)], [('raw', [1, 2, 3, 4, 5])]]
    bad = None
    n = 0
    for big in (True, False):
        for msg in messages:
            want = ref_bytes(msg, big)
            for mode in ('fresh-vector', 'used-vector', 'exact-block', 'short-block'):
                n += 1
                hooks = dict(minterp.VECTOR_HOOKS)
                hooks.update({'memcpy': minterp.h_memcpy, 'resize': None, 'data': None})
                it = minterp.Interp(prog, {}, hooks=hooks, inline=('*',), max_steps=400000)
                blk = [0xEE] * (len(want) + 7) if mode == 'used-vector' else []
                it.mem['blk'] = blk

                def h_resize(it_, f, st, a, blk=blk):
                    m = a[0]
                    if not isinstance(m, int) or m > 1 << 20:
                        raise AnalysisBroken('resize to a size the replay cannot use')
                    del blk[m:]
                    blk.extend(['uninit'] * (m - len(blk)))
                it.hooks['resize'] = h_resize
                it.hooks['data'] = lambda it_, f, st, a: P('blk', 0)
                it.hooks['capacity'] = lambda it_, f, st, a: len(it_.mem['blk'])        # the least the library guarantees
                it.hooks['reserve'] = lambda it_, f, st, a: None
                it.hooks['size'] = lambda it_, f, st, a: len(it_.mem['blk']) if (it_.cur_obj is it_.mem['blk'] or (isinstance(it_.cur_obj, P) and it_.cur_obj.r == 'blk') or not isinstance(it_.cur_obj, (list, dict))) else minterp._mlen(minterp._vec(it_, f, st))
                ser = it.new_record(SER)
                it._keep.append(ser)
                endian = 0 if big else 1
                cap = None
                if mode in ('fresh-vector', 'used-vector'):
                    ctor = [g for g in prog.by_name.get(SER + '::Serializer', ()) if g.d.get('ctor') and g.body is not None and len(g.params) == 2 and 'vector' in g.params[0]['t']]
                    args = [blk, endian]
                else:
                    cap = len(want) - (1 if mode == 'short-block' else 0)
                    it.mem['blk'] = blk = ['uninit'] * cap + ['guard']
                    ctor = [g for g in prog.by_name.get(SER + '::Serializer', ()) if g.d.get('ctor') and g.body is not None and len(g.params) == 3]
                    args = [P('blk', 0), cap, endian]
                if len(ctor) != 1:
                    raise AnalysisBroken('Serializer constructor (%s): %d candidate(s)' % (mode, len(ctor)))
                it.run_ctor(ctor[0], ctor[0].stmts[0], ser, SER, ctor[0], args)
                why = None
                answers = []
                for w, v in msg:
                    if w == 'raw':
                        it.mem['src'] = list(v)
                        g = [x for x in prog.by_name.get(SER + '::append', ()) if x.body is not None and len(x.params) == 2]
                        r = it.call(g[0], [P('src', 0), len(v)], this=ser)
                    else:
                        r = it.call(by_width(SER, 'append', w), [v], this=ser)
                    answers.append(bool(r))
                    if it.faults:
                        break
                blk = it.mem['blk']
                if it.faults:
                    why = it.faults[0]
                elif mode == 'short-block':
                    fit = 0
                    expect = []
                    for w, v in msg:
                        size = len(v) if w == 'raw' else w
                        ok = fit + size <= cap
                        expect.append(ok)
                        if ok:
                            fit += size
                    if answers != expect:
                        why = 'with a block one byte too small the appends answer %s where %s is due' % (answers, expect)
                    elif blk[cap] != 'guard':
                        why = 'a byte is written past the end of the block'
                else:
                    pos = ser.get('pos_')
                    if not all(answers):
                        why = 'an append that fits answers false'
                    elif pos != len(want):
                        why = 'pos() is %s after a message of %d byte(s)' % (pos, len(want))
                    elif mode != 'exact-block' and len(blk) != len(want):
                        why = 'the vector holds %d byte(s) after a message of %d was written into it (pos() says %s): the tail is not part of the message' % (len(blk), len(want), pos)
                    elif list(blk[:len(want)]) != want:
                        why = 'the bytes written are %s where the encoding is %s' % (blk[:len(want)], want)
                    else:
                        # read it back
                        it.mem['rd'] = list(want)
                        des = it.new_record(DES)
                        it._keep.append(des)
                        dct = [g for g in prog.by_name.get(DES + '::Deserializer', ()) if g.d.get('ctor') and g.body is not None and len(g.params) == 3]
                        if len(dct) != 1:
                            raise AnalysisBroken('Deserializer constructor: %d candidate(s)' % len(dct))
                        it.run_ctor(dct[0], dct[0].stmts[0], des, DES, dct[0], [P('rd', 0), len(want), endian])
                        for w, v in msg:
                            if w == 'raw':
                                it.mem['dst'] = ['uninit'] * len(v)
                                g = [x for x in prog.by_name.get(DES + '::fetch', ()) if x.body is not None and len(x.params) == 2]
                                r = it.call(g[0], [P('dst', 0), len(v)], this=des)
                                got = list(it.mem['dst'])
                                v2 = list(v)
                            else:
                                it.mem['cell'] = ['uninit']
                                r = it.call(by_width(DES, 'fetch', w), [('ref', P('cell', 0))], this=des)
                                got, v2 = it.mem['cell'][0], v
                            if it.faults:
                                why = it.faults[0]
                                break
                            if not r or got != v2:
                                why = 'the deserializer reads %s back where %s was written' % (got if r else 'nothing', v2)
                                break
                        if why is None:
                            it.mem['cell'] = ['uninit']
                            if it.call(by_width(DES, 'fetch', 1), [('ref', P('cell', 0))], this=des) and not it.faults:
                                why = 'the deserializer reads a byte past the end of the message'
                            elif it.faults:
                                why = it.faults[0]
                if why and bad is None:
                    bad = (msg, big, mode, why)
    f = prog.fn1(SER + '::extendSize')
    ctx.ob('C19.R20', 'Serializer|replay', bad is None, '%d messages x modes' % n if bad is None else
           'message %s, %s-endian, %s: %s' % (bad[0], 'big' if bad[1] else 'little', bad[2], bad[3]), where=f.loc(f.body))
