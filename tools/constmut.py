#!/usr/bin/env python3
"""Blind-spot finder by boundary mutation: for every comparison in a property's anchored sources, shift its integer constant by one or toggle the strictness
of the operator, run the property's quick check on a scratch copy, and list the mutants on which the check stays silent.  A survivor is not necessarily a
violation of the property (many boundary shifts are harmless or unreachable) — it is a place to look at.  Usage: tools/constmut.py C13 [file-substring]"""
import sys, os, re, json, subprocess, shutil, concurrent.futures
sys.path.insert(0, os.path.dirname(os.path.abspath(__file__)))
from mutest import make_scratch, VERIF

CMP = re.compile(r'(?<![<>=!\-+*/&|%^])(<=|>=|<|>)(?![<>=])')
NUM = re.compile(r'(?<![\w.])(\d+)(?![\w.])')


def anchored(prop):
    for l in open(os.path.join(VERIF, 'properties.jsonl')):
        d = json.loads(l)
        if d['id'] == prop:
            return [f for f in d['anchors']['files'] if f.endswith(('.cpp', '.hpp', '.h'))]
    return []


def mutants(path, rel):
    out = []
    lines = open(path).read().split('\n')
    for i, ln in enumerate(lines):
        code = ln.split('//')[0]
        if not re.search(r'\b(if|while|for|return)\b|\?', code) or code.lstrip().startswith(('#', '*', '/*')):
            continue
        if 'template' in code or 'include' in code or '<<' in code or '>>' in code or '->' in code and not CMP.search(code.replace('->', '  ')):
            pass
        safe = code.replace('->', '  ').replace('<<', '  ').replace('>>', '  ')
        for m in CMP.finditer(safe):
            # skip template angle brackets: require a space or digit/paren around
            a, b = m.span()
            if not (safe[max(0, a - 1)] in ' )]' or safe[b:b + 1] in ' ('):
                continue
            op = m.group(1)
            new = {'<': '<=', '<=': '<', '>': '>=', '>=': '>'}[op]
            out.append((rel, i, a, b, new, 'line %d: %s -> %s' % (i + 1, op, new)))
        if CMP.search(safe) or '==' in safe or '!=' in safe:
            for m in NUM.finditer(code):
                v = int(m.group(1))
                if v > 100000:
                    continue
                for nv in (v + 1, v - 1):
                    if nv < 0:
                        continue
                    out.append((rel, i, m.start(1), m.end(1), str(nv), 'line %d: %d -> %d' % (i + 1, v, nv)))
    return out


def run_one(prop, mut):
    rel, i, a, b, new, desc = mut
    d = make_scratch()
    try:
        p = os.path.join(d, rel)
        lines = open(p).read().split('\n')
        lines[i] = lines[i][:a] + new + lines[i][b:]
        open(p, 'w').write('\n'.join(lines))
        env = dict(os.environ, TBX_REPO=d, TBX_EVIDENCE_DIR=d + '/evidence')
        r = subprocess.run([os.path.join(VERIF, 'check'), prop], capture_output=True, text=True, env=env, cwd=VERIF)
        fired = sorted(set(re.findall(r'violation (C\d+\.\w+)', r.stdout)))
        return rel, desc, r.returncode, fired, lines[i].strip()[:110]
    finally:
        shutil.rmtree(d, ignore_errors=True)


def main():
    prop = sys.argv[1]
    sub = sys.argv[2] if len(sys.argv) > 2 else ''
    ms = []
    for rel in anchored(prop):
        if sub and sub not in rel:
            continue
        path = os.path.join('/repo', rel)
        if os.path.exists(path):
            ms += mutants(path, rel)
    print('%s: %d boundary mutants' % (prop, len(ms)))
    surv = 0
    with concurrent.futures.ThreadPoolExecutor(max_workers=12) as ex:
        for rel, desc, rc, fired, text in ex.map(lambda m: run_one(prop, m), ms):
            if rc == 0:
                surv += 1
                print('SURVIVED %s %s   | %s' % (rel, desc, text))
            elif rc == 2:
                print('BROKEN   %s %s   | %s' % (rel, desc, text))
    print('%d of %d survived' % (surv, len(ms)))


if __name__ == '__main__':
    main()
