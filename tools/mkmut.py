"""helper to author mutation patches: mut(prop, name, file, old, new, expect, desc) — or a list of (file, old, new)"""
import difflib, os
VERIF = os.path.dirname(os.path.dirname(os.path.abspath(__file__)))

def mut(prop, name, edits, expect, desc, old=None, new=None):
    if isinstance(edits, str):
        edits = [(edits, old, new)]
    out = '# expect: %s\n# desc: %s\n' % (expect, desc)
    for file, o, n in edits:
        p = '/repo/modules/' + file
        s = open(p).read()
        assert s.count(o) >= 1, 'pattern not found in %s for %s' % (file, name)
        t = s.replace(o, n, 1)
        d = difflib.unified_diff(s.splitlines(True), t.splitlines(True), 'a/modules/' + file, 'b/modules/' + file)
        out += ''.join(d)
    os.makedirs(os.path.join(VERIF, 'fixtures/mutations', prop), exist_ok=True)
    open(os.path.join(VERIF, 'fixtures/mutations', prop, name + '.patch'), 'w').write(out)
