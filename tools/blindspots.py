#!/usr/bin/env python3
"""Which functions of a property's anchored files does its check never put an obligation on?  (a map of blind spots, not a verdict)
usage: tools/blindspots.py C06"""
import sys, os, json, importlib
V = os.path.dirname(os.path.dirname(os.path.abspath(__file__)))
sys.path.insert(0, V)
os.environ.setdefault('TBX_EVIDENCE_DIR', '/var/tmp/blind_ev')
from tbxlint.report import Ctx
from tbxlint.facts import MODULES

prop = sys.argv[1]
anchors = []
for l in open(V + '/properties.jsonl'):
    p = json.loads(l)
    if p['id'] == prop:
        anchors = list(p.get('anchors', {}).get('files', []))
files = set()
for a in anchors:
    a = a.split(':')[0].split('#')[0]
    if a.endswith(('.cpp', '.hpp', '.h', '.cc')):
        files.add(a)
mod = importlib.import_module('rules.' + prop)
ctx = Ctx(prop, 'quick')
prog = mod.run(ctx)
hits = {}
for o in ctx.obligations:
    w = o.get('where') or ''
    if ':' in w:
        f, ln = w.rsplit(':', 1)
        try:
            hits.setdefault(f, set()).add(int(ln))
        except ValueError:
            pass
    hits.setdefault('sites', set()).add(o['site'].split('|')[0])
print('anchored files:', sorted(files))
for f in sorted(prog.funcs.values(), key=lambda f: (f.file, f.line)):
    rel = f.file.replace('/repo/', '').replace(os.environ.get('TBX_REPO', '/repo') + '/', '')
    if not any(rel.endswith(a) or a.endswith(rel) for a in files) or f.parent_usr or len(f.stmts) < 8:
        continue
    end = max([st.get('el', st.get('l', 0)) for st in f.stmts if st] + [f.line])
    lines = hits.get(rel, set())
    touched = any(f.line <= ln <= end for ln in lines) or f.name.replace(' ', '') in hits.get('sites', ())
    if not touched:
        print('  untouched: %-70s %s:%d-%d (%d stmts)' % (f.name, rel, f.line, end, len(f.stmts)))
