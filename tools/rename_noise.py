#!/usr/bin/env python3
"""Rename-robustness self-test: copy /repo/modules, rename (whole word) every local variable / parameter name that can be renamed safely by
text in each anchored source file, and run every check on the copy — all must stay silent.  usage: tools/rename_noise.py [--keep] [Cxx ...]"""
import os, re, sys, json, subprocess, shutil
V = os.path.dirname(os.path.dirname(os.path.abspath(__file__)))
sys.path.insert(0, V); sys.path.insert(0, V + '/tools')
from mutest import make_scratch, run_check
os.environ['TBX_NO_ALIAS'] = '1'
from tbxlint.facts import extract, MODULES

KEYWORDS = set('''alignas alignof and asm auto bool break case catch char class const constexpr continue decltype default delete do double else enum explicit
export extern false float for friend goto if inline int long mutable namespace new noexcept not nullptr operator or private protected public register return
short signed sizeof static struct switch template this throw true try typedef typeid typename union unsigned using virtual void volatile while override final
size_t ssize_t uint8_t uint16_t uint32_t uint64_t int8_t int16_t int32_t int64_t string std tbox'''.split())


LITERAL = re.compile(r'//[^\n]*|/\*.*?\*/|"(?:\\.|[^"\\\n])*"|\'(?:\\.|[^\'\\\n])*\'|^[ \t]*#[^\n]*', re.S | re.M)


def sub_code(src, pat, repl):
    """substitute only in code: string and character literals, comments and preprocessor lines stay as they are (a renamed local must not rename the
    protocol field "id" in a string)"""
    out, pos = [], 0
    for m in LITERAL.finditer(src):
        out.append(pat.sub(repl, src[pos:m.start()]))
        out.append(m.group(0))
        pos = m.end()
    out.append(pat.sub(repl, src[pos:]))
    return ''.join(out)


def main():
    keep = '--keep' in sys.argv
    props = [a for a in sys.argv[1:] if a.startswith('C')]
    allp = [json.loads(l) for l in open(V + '/properties.jsonl')]
    files = set()
    for p in allp:
        if props and p['id'] not in props:
            continue
        for f in p.get('anchors', {}).get('files', []):
            if f.endswith(('.cpp', '.hpp', '.h')) and not f.endswith('_test.cpp'):
                files.add(f)
    prog = extract('ALL')
    by_file = {}
    for f in prog.funcs.values():
        rel = f.file.replace('/repo/', '')
        if rel not in files:
            continue
        for p_ in f.params:
            if p_.get('n'):
                by_file.setdefault(rel, set()).add(p_['n'])
        for st in f.stmts:
            if st and st['k'] == 'DeclStmt':
                for d in st.get('decls', ()):
                    if d.get('dk') == 'Var' and d.get('n') and not d['n'].startswith('__'):
                        by_file.setdefault(rel, set()).add(d['n'])
    d = make_scratch()
    total = 0
    for rel, names in sorted(by_file.items()):
        path = os.path.join(d, rel)
        src = open(path, encoding='utf-8', errors='surrogateescape').read()
        code = re.sub(r'//[^\n]*|/\*.*?\*/|"(?:\\.|[^"\\])*"', ' ', src, flags=re.S)
        done = []
        for n in sorted(names):
            if n in KEYWORDS or len(n) < 2 or not re.match(r'^[A-Za-z_]\w*$', n):
                continue
            # not renamed when the same word is also a member / function / type / macro in this file
            if re.search(r'(\.|->|::)\s*%s\b' % re.escape(n), code) or re.search(r'\b%s\s*\(' % re.escape(n), code) or re.search(r'\b%s\s*::' % re.escape(n), code) or \
               re.search(r'\b(struct|class|enum|using|typedef|#define)\s+%s\b' % re.escape(n), code) or re.search(r'\[[^\]]*[&=,\s]%s\s*=' % re.escape(n), code):
                continue
            pat = re.compile(r'(?<![\w.>:])%s\b(?!\s*\()' % re.escape(n))
            src = sub_code(src, pat, n + '_rn')
            done.append(n)
        open(path, 'w', encoding='utf-8', errors='surrogateescape').write(src)
        total += len(done)
    print('renamed %d names in %d files; scratch %s' % (total, len(by_file), d))
    # units that no longer parse are restored (a textual rename can hit something it should not)
    probe = 'import sys; sys.path.insert(0, %r)\nfrom tbxlint.facts import extract\ntry:\n    extract("ALL")\nexcept Exception as e:\n    print(str(e)[:6000])' % V
    for rounds in range(40):
        r = subprocess.run([sys.executable, '-c', probe], capture_output=True, text=True, env=dict(os.environ, TBX_REPO=d))
        txt = r.stdout + r.stderr
        bad = set(re.findall(r'extractor failed on (\S+?):', txt)) | set(re.findall(r'(/\S+?\.(?:cpp|hpp|h)):\d+:\d+: (?:fatal )?error', txt))
        bad = {b for b in bad if '/modules/' in b}
        if not bad:
            break
        for b in bad:
            rel = b[b.index('/modules/') + 1:]
            # the error may sit in a header included by the unit: restore the file named in the diagnostic, else the unit
            if os.path.exists('/repo/' + rel):
                shutil.copy('/repo/' + rel, os.path.join(d, rel))
                print('  restored (textual rename broke it):', rel)
    env_alias = dict(os.environ)
    env_alias.pop('TBX_NO_ALIAS', None)
    os.environ.pop('TBX_NO_ALIAS', None)
    rc_all = 0
    for p in allp:
        if props and p['id'] not in props:
            continue
        rc, rules, out = run_check(p['id'], d)
        print('%s rc=%d %s' % (p['id'], rc, sorted(rules)))
        if rc != 0:
            rc_all = 1
            for l in out.splitlines():
                if 'violation' in l or 'broken' in l.lower():
                    print('   ', l[:260])
    if keep:
        print('kept', d)
    else:
        shutil.rmtree(d, ignore_errors=True)
    return rc_all


if __name__ == '__main__':
    sys.exit(main())
