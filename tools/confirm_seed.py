#!/usr/bin/env python3
"""Confirm a seeded change: tools/confirm_seed.py <ID> <variant-dir>
 1. scratch worktree of /repo HEAD, apply patch.diff
 2. build the affected modules' existing test targets there and run them (known sandbox-dependent / timing-flaky tests excluded)
 3. build+run the demonstration against the patched tree (must fail) and against /repo (must pass)
 4. run our quick checks against the patched sources (scratch copy; /repo untouched) and record which rules fire
Writes <variant-dir>/confirm.json; removes the worktree."""
import json, os, re, subprocess, sys, shutil, time

ID, vdir = sys.argv[1], os.path.abspath(sys.argv[2])
VERIF = os.path.dirname(os.path.dirname(os.path.abspath(__file__)))
wt = '/tmp/cw-%s-%s' % (ID, os.path.basename(vdir))
EXCLUDE = 'DnsRequest.request_*:Uart.echo:fs.MakeDirectory:SleepAction.*:LoopAction.SleepActionForever:TimerEvent.Precision:TimerFd.Precision:*Benchmark*'

def sh(cmd, cwd=None, timeout=1800):
    r = subprocess.run(cmd, shell=True, cwd=cwd, capture_output=True, text=True, timeout=timeout)
    return r.returncode, (r.stdout + r.stderr)

res = {'property': ID, 'variant': os.path.basename(vdir)}
subprocess.run('git -C /repo worktree remove --force %s' % wt, shell=True, capture_output=True)
rc, out = sh('git -C /repo worktree add --detach %s HEAD' % wt)
try:
    rc, out = sh('git apply %s/patch.diff' % vdir, cwd=wt)
    res['patch_applies'] = rc == 0
    patch = open(vdir + '/patch.diff').read()
    mods = sorted(set(re.findall(r'^\+\+\+ b/modules/([a-z_]+)/', patch, re.M)))
    res['modules'] = mods
    # existing tests
    rc, out = sh('cmake -G Ninja -S %s -B %s/_b > /dev/null 2>&1' % (wt, wt))
    tests = {}
    ok_all = True
    for m in mods:
        tgt = 'tbox_%s_test' % m
        rc, out = sh('cmake --build %s/_b --target %s -j16 2>&1 | tail -5' % (wt, tgt))
        binp = '%s/_b/modules/%s/%s' % (wt, m, tgt)
        if not os.path.exists(binp):
            # modules without a test target (main) or whose test target does not compile on the pinned tree (base):
            # the library target must still build
            rc2, out2 = sh('cmake --build %s/_b --target tbox_%s -j16 2>&1 | tail -3' % (wt, m))
            tests[m] = {'note': 'no runnable test target for this module; library target build rc=%d' % rc2}
            ok_all = ok_all and rc2 == 0
            continue
        rc, out = sh('%s --gtest_filter=-%s 2>&1 | tail -6' % (binp, EXCLUDE), cwd=os.path.dirname(binp), timeout=900)
        m_ = re.search(r'\[  PASSED  \] (\d+) tests', out)
        failed = re.findall(r'\[  FAILED  \] (\S+)', out)
        tests[m] = {'rc': rc, 'passed': int(m_.group(1)) if m_ else None, 'failed': sorted(set(failed))}
        ok_all = ok_all and rc == 0
    res['existing_tests'] = tests
    res['existing_tests_pass'] = ok_all
    # demo: patched must fail, unpatched must pass
    def run_demo(tree, tag):
        d = '/tmp/cw-demo-%s-%s-%s' % (ID, os.path.basename(vdir), tag)
        shutil.rmtree(d, ignore_errors=True)
        shutil.copytree(vdir, d)
        rc, out = sh('bash ./build.sh %s 2>&1 | tail -5' % tree, cwd=d, timeout=1200)
        if not os.path.exists(d + '/demo'):
            shutil.rmtree(d, ignore_errors=True)
            return {'build_rc': rc, 'error': out[-400:]}
        t0 = time.time()
        try:
            rc2, out2 = sh('./demo 2>&1 | tail -8', cwd=d, timeout=300)
            r = subprocess.run('./demo', shell=True, cwd=d, capture_output=True, text=True, timeout=300)
            rc2 = r.returncode
        except subprocess.TimeoutExpired:
            rc2, out2 = 124, 'timeout'
        shutil.rmtree(d, ignore_errors=True)
        return {'rc': rc2, 'tail': out2[-500:], 'secs': round(time.time() - t0, 1)}
    res['demo_patched'] = run_demo(wt, 'p')
    res['demo_unpatched'] = run_demo('/repo', 'u')
    res['demo_discriminates'] = res['demo_patched'].get('rc', 0) != 0 and res['demo_unpatched'].get('rc', 1) == 0
finally:
    subprocess.run('git -C /repo worktree remove --force %s' % wt, shell=True, capture_output=True)
    shutil.rmtree(wt, ignore_errors=True)
# our checks on a scratch copy
sys.path.insert(0, os.path.join(VERIF, 'tools'))
from mutest import make_scratch, run_check
d = make_scratch()
try:
    subprocess.run(['patch', '-p1', '-s', '-d', d, '-i', vdir + '/patch.diff'], capture_output=True)
    fired = {}
    props = [ID] + [p for p in (sys.argv[3].split(',') if len(sys.argv) > 3 else [])]
    for p in props:
        rc, rules, out = run_check(p, d)
        fired[p] = {'rc': rc, 'rules': sorted(rules)}
    res['checks'] = fired
    res['caught'] = any(v['rc'] == 1 for v in fired.values())
finally:
    shutil.rmtree(d, ignore_errors=True)
json.dump(res, open(vdir + '/confirm.json', 'w'), indent=1)
print(json.dumps({k: res[k] for k in ('property', 'variant', 'patch_applies', 'existing_tests_pass', 'demo_discriminates', 'caught')}), res.get('checks'))
