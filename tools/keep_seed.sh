#!/bin/bash
# tools/keep_seed.sh <ID> <variant> : re-confirm a seeded change and keep it under /verif/seeded/<ID>/<variant>/
set -e
ID=$1; V=$2; SRC=${SEED_BASE:-/tmp/seeded}/$ID/$V; DST=/verif/seeded/$ID/$V
/verif/tools/confirm_seed.py $ID $SRC $3 | tail -1
mkdir -p $DST
for f in $SRC/*; do
  case "$(basename $f)" in demo|*.o|*.a|a.out|repro_*|test_*bin*) continue;; esac
  if [ -f "$f" ] && [ $(stat -c %s "$f") -lt 300000 ] && ! file "$f" | grep -q ELF; then cp "$f" $DST/; fi
done
for extra in ${SEED_BASE:-/tmp/seeded}/$ID/*.sh; do [ -f "$extra" ] && cp "$extra" /verif/seeded/$ID/ || true; done
