#!/usr/bin/env python3
"""Regenerate fixtures/names.json (reference names of parameters and locals, see tbxlint/names.py) from the current /repo tree.
Run after every fix commit to /repo — the table describes the reference tree the rule tables were confirmed on."""
import sys, os, json
V = os.path.dirname(os.path.dirname(os.path.abspath(__file__)))
sys.path.insert(0, V)
os.environ['TBX_NO_ALIAS'] = '1'
from tbxlint.facts import extract, instantiate_unit
from tbxlint import names
prog = extract('ALL', extra_units=[instantiate_unit()])
tab = names.describe(prog)
json.dump(tab, open(names.TABLE, 'w'), indent=0, sort_keys=True)
print('%d function signatures recorded' % len(tab))
