#!/usr/bin/env python3
"""Regenerate the seeded-change table of DESIGN.md §10.5 from seeded/*/meta.json, seeded/after.json and a fresh tools/recheck_seeds.py run."""
import json, os, re, subprocess, glob
V = os.path.dirname(os.path.dirname(os.path.abspath(__file__)))
after = json.load(open(V + '/seeded/after.json'))
out = subprocess.run([V + '/tools/recheck_seeds.py'], capture_output=True, text=True).stdout
rows, n_first = [], 0
for l in out.splitlines():
    m = re.match(r'(C\d+)/([a-z]) (\S+)\s*(.*)', l)
    if not m:
        continue
    pid, v, verdict, rules = m.groups()
    t = json.load(open('%s/seeded/%s/%s/meta.json' % (V, pid, v)))['title'].replace('|', '/')
    if len(t) > 150:
        t = t[:147] + '...'
    k = '%s/%s' % (pid, v)
    n_first += k not in after
    rows.append('| %s | %s | %s | %s |' % (k, t, rules.replace(',', ', ') if verdict == 'caught' else verdict, 'after: ' + after[k] if k in after else 'first'))
tab = '| seed | change (title given by its author) | caught by | |\n|------|--------|-----------|--|\n' + '\n'.join(rows) + '\n'
p = V + '/DESIGN.md'
s = open(p).read()
a = s.index('| seed | change (title given by its author) | caught by | |')
b = s.index('\n\n', a)
s = s[:a] + tab + s[b + 1:]
s = re.sub(r'\d+ of \d+ were caught as the checks stood; the \d+ misses', '%d of %d were caught as the checks stood; the %d misses' % (n_first, len(rows), len(rows) - n_first), s)
open(p, 'w').write(s)
print(len(rows), 'seeds,', n_first, 'caught first;', sum(1 for r in rows if '| caught' in r or 'MISSED' in r or 'DOES-NOT' in r), 'not caught now')
