#!/bin/sh
# run every mutant and behaviour-preserving variant of the given properties: tools/mutall.sh C14 C15 ...
cd "$(dirname "$0")/.."
for id in "$@"; do
  ls fixtures/mutations/$id/*.patch fixtures/equivalent/$id/*.patch 2>/dev/null | xargs -P8 -I{} sh -c "python3 tools/mutest.py $id {} 2>&1 | grep -E '^(CAUGHT|MISSED|SILENT|FALSE-ALARM|PATCH-FAILED)'"
done
