#!/usr/bin/env python3
"""Checker self-test: apply a mutation patch to a scratch copy of /repo/modules and run a
check against the copy (sources are only parsed, never built or run).

usage: tools/mutest.py <prop> <patch> [--expect RULE[,RULE]] [--keep]
The patch may start with '# expect: C05.R1[,C05.R2]' and '# desc: ...' lines.
exit 0 = the check fired on the mutant and named an expected rule; 1 = it did not.
'# expect: none' marks an equivalent variant (fixtures/equivalent/<prop>/): a behaviour-preserving edit on which the check must exit 0."""
import os, sys, subprocess, shutil, tempfile, json, re

VERIF = os.path.dirname(os.path.dirname(os.path.abspath(__file__)))


def make_scratch():
    d = tempfile.mkdtemp(prefix='tbxmut.', dir=os.environ.get('TMPDIR', '/var/tmp'))
    shutil.copytree('/repo/modules', d + '/modules', symlinks=True)
    os.symlink('/repo/3rd-party', d + '/3rd-party')
    return d


def run_check(prop, repo, tier='quick'):
    env = dict(os.environ, TBX_REPO=repo, TBX_EVIDENCE_DIR=repo + '/evidence')
    r = subprocess.run([os.path.join(VERIF, 'check'), prop, '--tier', tier], capture_output=True, text=True, env=env, cwd=VERIF)
    rules = set(re.findall(r'^\s+violation (\S+) at', r.stdout, re.M))
    return r.returncode, rules, r.stdout


def mutest(prop, patch, expect=None, keep=False, quiet=False):
    text = open(patch).read()
    m = re.search(r'^# expect: (.+)$', text, re.M)
    if expect is None and m:
        expect = m.group(1).strip()
    exp = set(x.strip() for x in expect.split(',')) if expect else set()
    d = make_scratch()
    try:
        r = subprocess.run(['patch', '-p1', '-s', '-d', d, '-i', os.path.abspath(patch)], capture_output=True, text=True)
        if r.returncode != 0:
            print('PATCH-FAILED %s: %s' % (patch, r.stdout + r.stderr))
            return 2, set()
        rc, rules, out = run_check(prop, d)
        if exp == {'none'}:
            # equivalent variant: a behaviour-preserving edit; the check must stay silent (exit 0)
            ok = rc == 0
            tag = 'SILENT' if ok else 'FALSE-ALARM'
        else:
            ok = rc == 1 and (not exp or (exp & rules))
            tag = 'CAUGHT' if ok else 'MISSED'
        if not quiet:
            print('%s %s rc=%d fired=%s expected=%s' % (tag, os.path.basename(patch), rc, sorted(rules), sorted(exp)))
            if not ok:
                print(out[-3000:])
        return (0 if ok else 1), rules
    finally:
        if not keep:
            shutil.rmtree(d, ignore_errors=True)
        else:
            print('kept', d)


if __name__ == '__main__':
    a = sys.argv[1:]
    exp = None
    if '--expect' in a:
        exp = a[a.index('--expect') + 1]
    rc, _ = mutest(a[0], a[1], exp, keep='--keep' in a)
    sys.exit(rc)
