#!/usr/bin/env python3
"""apply one or more patches to a scratch copy of /repo/modules and run checks there: tools/trypatch.py C03[,C04] p1.diff [p2.diff ...]"""
import sys, os, subprocess, shutil
sys.path.insert(0, os.path.dirname(os.path.abspath(__file__)))
from mutest import make_scratch, VERIF
props = sys.argv[1].split(',')
d = make_scratch()
try:
    for p in sys.argv[2:]:
        r = subprocess.run(['patch', '-p1', '-s', '-d', d, '-i', os.path.abspath(p)], capture_output=True, text=True)
        if r.returncode:
            print('PATCH FAILED', p, r.stdout, r.stderr)
    for prop in props:
        env = dict(os.environ, TBX_REPO=d, TBX_EVIDENCE_DIR=d + '/evidence')
        r = subprocess.run([os.path.join(VERIF, 'check'), prop], capture_output=True, text=True, env=env, cwd=VERIF)
        print(r.stdout[-6000:], r.stderr[-2000:], 'rc=', r.returncode)
finally:
    shutil.rmtree(d, ignore_errors=True)
