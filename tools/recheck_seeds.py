#!/usr/bin/env python3
"""For every kept seeded change: does patch.diff still apply to /repo HEAD, and does the property's check (quick tier, scratch copy,
sources only parsed) report a violation?  usage: tools/recheck_seeds.py [ID ...]"""
import os, sys, glob, json, subprocess, concurrent.futures
sys.path.insert(0, os.path.dirname(os.path.abspath(__file__)))
from mutest import make_scratch, run_check, VERIF
import shutil


def one(d):
    pid, var = d.split('/')[-2:]
    patch = os.path.join(d, 'patch.diff')
    r = subprocess.run(['git', '-C', '/repo', 'apply', '--check', patch], capture_output=True, text=True)
    if r.returncode != 0:
        return pid, var, 'DOES-NOT-APPLY', []
    s = make_scratch()
    try:
        subprocess.run(['patch', '-p1', '-s', '-d', s, '-i', patch], check=True, capture_output=True)
        rc, rules, out = run_check(pid, s)
        return pid, var, 'caught' if rc == 1 else 'MISSED(rc=%d)' % rc, sorted(rules)
    finally:
        shutil.rmtree(s, ignore_errors=True)


if __name__ == '__main__':
    ids = sys.argv[1:]
    dirs = sorted(d for d in glob.glob(os.path.join(VERIF, 'seeded', 'C*', '*')) if os.path.isdir(d) and (not ids or d.split('/')[-2] in ids))
    with concurrent.futures.ThreadPoolExecutor(max_workers=4) as ex:
        res = list(ex.map(one, dirs))
    bad = 0
    for pid, var, verdict, rules in res:
        print('%s/%s %-16s %s' % (pid, var, verdict, ','.join(rules)))
        bad += verdict != 'caught'
    sys.exit(1 if bad else 0)
