#!/bin/sh
# quick tier of every property, one line each (run after touching a shared engine): tools/quick_all.sh
cd "$(dirname "$0")/.."
for i in 01 02 03 04 05 06 07 08 09 10 11 12 13 14 15 16 17 18 19 20; do
  ./check C$i > /var/tmp/quick_C$i.out 2>&1; rc=$?
  echo "C$i rc=$rc $(head -1 /var/tmp/quick_C$i.out | cut -c1-80)"
  [ $rc -ne 0 ] && grep -E "^  (violation|analysis-broken)" /var/tmp/quick_C$i.out | cut -c1-300
done
