#!/usr/bin/env python3
"""Blind-spot finder by statement deletion: every single-line expression statement (a call, an assignment, an increment) in a property's anchored .cpp files is
commented out in turn, the quick check runs on a scratch copy, and the deletions on which the check stays silent are listed.  Like tools/constmut.py this is a
map of places to look at, not a verdict.  Usage: tools/stmtdel.py C20 [file-substring]"""
import sys, os, re, json, subprocess, shutil, concurrent.futures
sys.path.insert(0, os.path.dirname(os.path.abspath(__file__)))
from mutest import make_scratch, VERIF
from constmut import anchored

STMT = re.compile(r'^\s+(?!return\b|break\b|continue\b|case\b|default\b|else\b|if\b|for\b|while\b|do\b|switch\b|using\b|typedef\b|static\b|const\b|auto\b|delete\b|throw\b|goto\b)'
                  r'[A-Za-z_:\*\(\+\-][^;{}]*;\s*(//.*)?$')
DECL = re.compile(r'^\s+(?:unsigned |signed |struct |std::|tbox::|[A-Z][A-Za-z_]*(?:::[A-Za-z_]+)* |u?int\d*_t |s?size_t |bool |char |int |long |short |double |float )[^=;()]*[=;]')
LOGS = re.compile(r'^\s+(Log[A-Z][a-z]+|LogErrno|RECORD_|TBOX_ASSERT|LogUndo|\(void\))')


def candidates(path, rel):
    out = []
    for i, ln in enumerate(open(path).read().split('\n')):
        if STMT.match(ln) and not DECL.match(ln) and not LOGS.match(ln) and ln.count('(') == ln.count(')'):
            out.append((rel, i, ln.strip()[:100]))
    return out


def run_one(prop, cand):
    rel, i, text = cand
    d = make_scratch()
    try:
        p = os.path.join(d, rel)
        lines = open(p).read().split('\n')
        lines[i] = re.sub(r'^(\s+)(.*)$', r'\1;  // \2', lines[i])
        open(p, 'w').write('\n'.join(lines))
        env = dict(os.environ, TBX_REPO=d, TBX_EVIDENCE_DIR=d + '/evidence')
        r = subprocess.run([os.path.join(VERIF, 'check'), prop], capture_output=True, text=True, env=env, cwd=VERIF)
        return rel, i + 1, text, r.returncode
    finally:
        shutil.rmtree(d, ignore_errors=True)


def main():
    prop = sys.argv[1]
    sub = sys.argv[2] if len(sys.argv) > 2 else ''
    cs = []
    for rel in anchored(prop):
        if rel.endswith('.cpp') and (not sub or sub in rel) and os.path.exists(os.path.join('/repo', rel)):
            cs += candidates(os.path.join('/repo', rel), rel)
    print('%s: %d statement deletions' % (prop, len(cs)))
    surv = 0
    with concurrent.futures.ThreadPoolExecutor(max_workers=10) as ex:
        for rel, line, text, rc in ex.map(lambda c: run_one(prop, c), cs):
            if rc == 0:
                surv += 1
                print('SURVIVED %s:%d   | %s' % (rel, line, text))
            elif rc == 2:
                print('BROKEN   %s:%d   | %s' % (rel, line, text))
    print('%d of %d survived' % (surv, len(cs)))


if __name__ == '__main__':
    main()
