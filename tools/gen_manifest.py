#!/usr/bin/env python3
"""Regenerate MANIFEST.json from the table below (claimed checks must be silent on the current tree)."""
import json, os
V = os.path.dirname(os.path.dirname(os.path.abspath(__file__)))
ids = [json.loads(l)['id'] for l in open(V + '/properties.jsonl')]

NOTE = ('Trusted base: clang 14 Sema + CFG builder as driven by engine/tbxfacts.cc; the per-property rule tables (thread roles, rule slots, '
        'exception tables, each entry confirmed by reading and carrying a reason); the USER model for callbacks. Not decided: everything the '
        'DESIGN.md section lists under "Not decided" (value-level and environment-level behaviour).')

CLAIMS = {
 'C01': ('A1 lockset/thread-role race freedom of the cross-thread queue and wake-up token, A3 swap+acknowledge atomicity, A4 no-lost-wake-up '
         'shape of producers and loop start, drain-on-exit reachability in both back-ends and destructors, copy-before-invoke / one-pop-per-invoke, '
         'FIFO container discipline and cancel routing by id parity, task invocation only on loop-role functions, role closure over every loop-written field with run() handing over to runNext() only behind the role test, running batch always finished (must-fact), wake-up token reset with the channel and with every read that empties the eventfd, stable removal in cancel() (the eraser only looks, compacts and erases), no lost wake-up at the consumer (dataflow of "queue known empty" / "wake-up known pending": one of them at every exit of the handler)', '§4 C01, §10.3 D25',
         'lockset + CFG path rules over clang AST/CFG'),
 'C03': ('A7 snapshot-dispatch re-validation in both back-ends, record re-resolution per ready descriptor, A8 no throwing look-up in the dispatch '
         'loops, no iterate-while-mutate over fd_events, one-shot-before-callback, epoll/select sibling agreement, interest-set table (counter stepped under the matching events_ bit, epoll mask / select sets requested iff counter > 0, kernel-bit to tbox-bit translation incl. HUP->read, epoll_ctl ADD/MOD/DEL by old/new mask), dispatch coverage by finite folding (exact index ranges of both dispatch loops, select scan gate, only negative descriptors skipped, record recycled exactly at count 0), the dispatch loop\'s guard reference dropped under the key the record is registered under, enable()/disable()/reloadEpoll() of both back-ends replayed from every start state (kinds 1..7, counters 0..2, enabled or not) against the counter protocol and a model of the kernel registration (epoll_ctl operations legal, registered mask = kinds with a positive counter)', '§4 C03, §10.7',
         're-entrancy/invalidation rules + exception-escape analysis over clang AST/CFG'),
 'C04': ('A6 callee allow-list of the async signal handler, chaining/fan-out shape, save/restore pairing of the disposition, signal table only under '
         'lock + blocked signals, one-shot ordering, subscriber snapshot re-validation, enable() rollback, idempotent subscription (unique-key subscriber set or enable() guard), installed action has constant flags/mask, deferred destruction of the pipe event names the taken-out object', '§4 C04',
         'callee allow-list + pairing/path rules over clang AST/CFG'),
 'C05': ('A1 lockset/thread-role race freedom incl. cond-var flag discipline (static form of "cleanup terminates"), A3 take→mark-running atomicity, '
         'completion protocol (body on worker role, main_cb only via runInLoop after the body), cancel/cleanup shapes, join protocol, priority/FIFO shape, '
         'worker bound, no lock held across task bodies/join, main_cb only into Loop::runInLoop and no loop-thread-only entry in the worker role, retire decision atomic with leaving threads_cabinet, cleanup leaves the pool not-ready on every path after raising the stop flag, every walk over the priority levels covers exactly 0..size-1, exactly min_thread_num resident workers', '§4 C05, §10.3 D24', 'lockset + atomic-region + CFG path rules over clang AST/CFG'),
 'C09': ('A1 lock discipline of logging globals and sink level tables, dispatch only under the global lock (call-graph who-may-call), atomic two-part '
         'append, filter-before-output, truncation marking agreement over sinks, back-end re-framing guards, roll-over/disable ordering, no re-logging from sinks, record completeness (every formatter prints every field; thread id and time obtained in the call itself), level clamped into the level tables (interval abstract interpretation), async record framing exact at both boundaries, text handled iff text_len >= 1, sink registration sentinel, cached time-stamp text rebuilt exactly when the seconds differ (finite folding), a batch is never continued after the file was closed', '§4 C09',
         'lockset + who-may-call + CFG path rules over clang AST/CFG'),
 'C10': ('A1 pairwise common-lock race freedom with producer/backend/owner roles and thread phases, whole-append critical section incl. every external '
         'appendLockless caller, one critical section for a whole datum, FIFO hand-over and reset-after-callback, back-pressure guards, cleanup/quit-path flush order, acyclic lock order and no wait-for cycle (no role blocks on a mutex another role holds while waiting for it), chunk-copy arithmetic of the pipe buffer by linear forms per reaching definition (inside block and datum, min(request, free), size_ advanced by what was copied), chunk loop runs exactly while the remainder is > 0, stop flag tested under the lock before every backend wait, relative counters of initialize() reset by cleanup(), a queued full buffer is announced to the backend before the producer can block for a free one (may-dataflow; flag-carried announcements understood)', '§4 C10, §10.7',
         'lockset + lock-order + CFG path rules over clang AST/CFG'),
 'C11': ('hook-balance on every path of initialize/start (own hook matched by state advance or rollback, children rolled back in reverse), gated single '
         'stop/cleanup hooks, pre-order/reverse-order iteration (reverse iterators or down-counting index), required-only abort read off branch edges, every child swept unconditionally by stop/cleanup, stop()/cleanup() refuse only on the module\'s own state, Main()/Start()/Stop() sequencing', '§4 C11',
         'typestate-style path rules over clang AST/CFG'),
}
CLAIMS.update({
 'C02': ('A13 heap-protocol typestate of timer_min_heap_ over every function touching it (HEAP at exits/user callbacks/front reads, one comparator ordering by '
         'deadline), not-before-deadline test folded with C type widths over deadlines up to 2^33 ms either side (reached exactly when now >= expired), fresh-interval / re-arm-by-interval data dependence, callback copied before recycling and no use after it, '
         'synchronous token free + deferred record free, one-shot ordering, TimerEventImpl enabled<=>registered, deadline base is a pure fresh clock reading, synchronous disable() before any deferred TimerEvent delete, every path of initialize()/destructor disables an enabled timer, repeat-count protocol replayed (r invocations then removal, 0 never; one-shot=1, persistent=0)', '§4 C02',
         'typestate dataflow (heap protocol) + CFG path rules + finite folding/replay of counter tests over clang AST/CFG'),
 'C06': ('write-arming invariant (running and queued => write event armed) decided at every state-changing site, remainder arithmetic shape of send(), '
         'completion reported only where the queue is known empty (every reporting site, deferred closures included), receive-side commit/spill shape and commit-then-hand-over on every path, read/write result trichotomy and threshold/arming predicates by finite folding, destruction only through deferred tasks at the in-callback sites, the close report reached from the read side only (who-may-call over the whole call graph), the wrappers relay and do not filter (TcpConnection forwards every stream operation to its BufferedFd with its own parameters and returns its answer; TcpServer wires each connection to handlers bound to its token and the handlers invoke the user\'s callbacks once; TcpClient remembers settings and replays them on every new connection; closes reported exactly once when a callback is set); plus the util::Buffer window arithmetic (C07 rules run as C06.B1-B4, the send/receive queues are Buffers)', '§4 C06, §10.6',
         'typestate-style site rules + ownership (deferred delete) rules over clang AST/CFG'),
 'C12': ('A8 no exception escapes the receive path (call-graph scan with try map, presence proofs by reaching definitions), fail verdicts only on a complete '
         'line and cursor-update shapes, no dispatch after a close-marked request, single commit per request by construction, in-order flush shape, boundary agreement of every comparison with close_index, no read-side shutdown while responses are owed (teardown chain re-derived each run), no unbounded stack allocation on the receive path, per-request parser state re-initialised at each request, any transport shutdown only in the send-complete callback, receive threshold of the resumable parser folds to 0 or 1, consume/flush pairing in the server (parsed bytes consumed, one send per advance, sent-then-erased on every path), no reset of a stage-filled member inside its re-enterable stage, reserve/resize with an input-derived count counted as a thrower', '§4 C12',
         'exception-escape analysis + reaching definitions + CFG path rules over clang AST/CFG'),
 'C13': ('A8 no exception escapes the input path (telnet, raw TCP, terminal), no access to an empty history, deferred tasks capture tokens not pooled pointers, '
         'cursor-update guards, prompt/history-cap shape, telnet framing length tests, bounded history recursion, no unbounded stack allocation (VLA/alloca) on the input path; range/presence proofs require the container to be unchanged between proof and use; key decoding transition table read off the scanner vs the xterm/VT220 reference encodings, key-result to handler dispatch table (the stop result included), no implicit narrowing of strtol-family results (A9g), receive thresholds of the three front ends fold to 0 or 1, telnet text marked read is delivered on every path to every exit, key-scanner typestate across strings, pointers into the telnet buffer formed only under a matching length test, text branch iff at least one byte, history navigation replayed over a grid of lengths and positions, every editing handler replayed against a reference line editor (line, cursor, std::string preconditions), Enter leaves a fresh line, client/session maps lose an entry only together with the connection, one end per work list in the tree walk', '§4 C13, §10.7',
         'exception-escape analysis + ownership/deferred-capture + CFG path rules over clang AST/CFG'),
 'C14': ('A8 framing/dispatch never throw (parse only inside CatchThrow, typed json access under type tests), no narrow length sum, fetchNoCopy result proven '
         'non-null or tested, resumable-framing return discipline, complete-then-erase with sibling agreement, no container handle live across the user callback, '
         'bounded recursion, FindEndPos scan guards, TimeoutMonitor count/timer protocol (count changes only with the ring, timer disabled only on a fresh zero test, nothing decided from a pre-callback value), no unbounded stack allocation, no narrow integer get<T>() without a range test (A9g for JSON), owner re-installs the monitor callback on re-initialisation, framing state reset on consuming/failing exits, encoder/decoder agreement on every refusal (reasons classified, length bounds folded from both guards), no scanner error value answered with "need more data", exact completeness boundaries of the header framing (linear proofs) and of the raw framing against the scanner\'s contract, request id counter only ever incremented, completion chain wired end to end (one id for store/watch/send; watcher installed, started and handlers registered on every successful initialize(); result/error/request relayed with the id, code and members read from the message; completion handlers look the callback up under their id and pass the relayed values resp. the time-out code)', '§4 C14, §10.3 D33', 'exception-escape + input-hardening + re-entrancy rules over clang AST/CFG'),
 'C15': ('every datagram-filled local initialised or status-checked, reported values control dependent on successful reads, bounded compression recursion, '
         'deserializer bounds-check/width/advance agreement over all readers, complete-then-erase of lookups, no exception on the datagram path, TimeoutMonitor count/timer protocol (both sides), no unbounded stack allocation, receive length bounded by the receive buffer, reported Result fresh per datagram, no deserializer status dropped on the datagram path, fresh request ids, registry completeness (request registers, deleteRequest erases), record/result discipline (payload read after the length field, every type branch consumes, byte order restored, non-success status on error paths), writes into fixed local arrays proven in bounds, RFC 1035 wire-format conformance of the parser\'s own expressions by finite-domain folding (reply bit, rcode, terminator, compression tag/target, exact trip counts), recursion bound at most 1024 levels', '§4 C15',
         'input-hardening (def/use + guard) rules + sibling agreement over clang AST/CFG'),
 'C16': ('re-entrancy counter bracket around every user function (abstract counter dataflow), state writes only behind the re-entrancy test, transition step '
         'order, delegation/handler/route precedence with first-match scan shape, enter/exit and sub-machine start/stop pairing, definition calls rejected while running, transition target read from the live route after the guard/action callbacks (late binding), definition semantics (re-registration replaces by assignment, the shared built-in terminal state is referred to by run() only)', '§4 C16',
         'counter dataflow + CFG order/pairing rules over clang AST/CFG'),
})
CLAIMS.update({
 'C08': ('generation counter only grows, token/range/id guards agree over at/update/free and free-list threading, pooled types never new/delete (whole program) with '
         'one placement-new / one destructor per alloc/free, Fd reference-count pairing and close marking, no deferred task captures a still-registered managed pointer '
         '(whole program), foreach hands callbacks the live cell\'s pointer, Cabinet::free never moves or releases the cell array, ObjectPool::alloc reaches no destructor, sentinel agreement by folding (token id 0, descriptor -1|0), every history of the cabinet of up to 5 (thorough: 6) operations replayed on its syntax trees against a reference map (stale, null and forged tokens; at/free/update act exactly on live tokens; no token issued twice; size(); no vector access outside the cell array)', '§4 C08, §10.7', 'type rules + guard/pairing path rules over clang AST/CFG (templates via explicit instantiation TU)'),
 'C17': ('lifecycle propagation matrix over every composite and child field (delete/reset/install/ready/stop-pause-resume), base-hook must-call on every override, '
         'notifications only as cancellable deferred tasks cancelled by stop/reset/destructor, base lifecycle gates and single onFinal, held-back child results in '
         'serial composites, stop propagation not filtered by a running-test, reset loops range over all children, the held-back test answers \'act\' only while running, leaf resource matrix (events an action arms are disarmed on stop/reset/pause), reset-before-rerun, child look-ups only under i < size and child loops over exactly 0..size-1 (finite folding), repeat count-down replayed, replay fidelity of held-back results (closure re-enters the handler with its own unmodified parameters, nothing applied before the held-back test), every run armed with the configured time-out', '§4 C17', 'sibling-agreement matrix + must-call/path rules over clang AST/CFG'),
 'C18': ('waiters re-register before every wait, wake-up conditional only on the waiter queue, cancellation test between wait and resource, broadcast/condition '
         'post shapes, scheduler cleanup/switch/schedule shapes, every routine-destroying site resumes the joiner, cancel exit withdraws the waiter token and passes on a wake-up addressed to it, success exit only through a re-test of the resource after wait(), a "post already pending" flag believed only where the posted function clears it, semaphore availability predicate (must-fact count_ >= 1 at the take, folded edges; pass-on iff available), no routine pointer looked up before a context switch dereferenced after it', '§4 C18', 'CFG path rules over clang AST/CFG (templates via explicit instantiation TU)'),
 'C19': ('constant tables equal tables generated from the standards\' formulae (Base64, CRC-16/32, AES S-box/inverse/Rcon, MD5 constants/shifts/order/state/padding, '
         'scalable-integer ranges), every constant-table subscript in range by interval evaluation, serializer/deserializer width and byte-order agreement, '
         'capacity test before stores, digit validation, no carry lost in the 16-bit one\'s-complement checksum (interval abstract interpretation of the accumulator), AES round/permutation/matrix structure vs FIPS-197 (index expressions evaluated over finite domains), MD5::update width agreement (carry test and block loop) and single input cursor, no wrapped remaining-length re-read in the CRC/checksum loops, residue-class walk of the Base64 decoding loop (every store offset below the capacity DecodeLength guarantees for that residue), linear bound proofs 0 <= index <= size-1 for every indexed access through a (ptr,size) buffer, state-machine walk of the Base64 encoder against the folded EncodeLength, cached-pointer freshness in the Serializer, no lenient library number parser in a digit decoder, bulk accesses (memcpy & co.) through (ptr,size) buffers proven inside them, MD5 message schedule replayed over byte provenance (the blocks compressed are the RFC 1321 padded message for every length 0..200 and split into updates), Base64 caller-buffer encoder replayed over byte provenance (reads/stores inside the buffers, RFC 4648 grouping and padding, refusal when one character short)', '§4 C19, §10.3 D30, §10.7', 'constant-table conformance + interval evaluation/abstract interpretation (incl. replay over a byte-provenance domain) + sibling agreement over clang AST/CFG'),
 'C20': ('seconds->milliseconds conversion wide enough for the operand\'s type range, re-arm before callback, next instant depends on max(now, previous target), '
         'time-zone symmetry, running<=>armed, out-parameter/strictly-after discipline of every calculateNextLocalTimeSec, day scans offer a full period of strictly-future days (interval abstract interpretation of the loop counter), rounding direction of the wait, no live iteration over the calendar\'s watcher list, the search floor is a fired instant (never an armed one), sentinel discipline for cron_next, who-may-arm (nothing arms an alarm that is not running), zone selection by a flag and not by the offset value, configuration ranges / weekday-mask construction / scan alignment / clock-read test by finite folding, every successful arming programs the timer in that call, the wait is measured from the clock values as read, every true return of a next-instant computation justified', '§4 C20, §10.3 D31/D32',
         'interval evaluation/abstract interpretation + data-dependence/path rules over clang AST/CFG'),
})
CLAIMS['C07'] = ('index arithmetic of the byte buffer decided by linear constant propagation (every field an affine form over its entry value, relational '
                 'merges): 0 <= read <= write <= size re-established on every path class of every index-writing method; every internal memcpy/memmove inside source '
                 'and destination bounds, reading exactly the source\'s readable window, with exit indices denoting exactly the copied bytes; ensureWritableSize '
                 'postcondition (room >= n, readable length unchanged); append/fetch reserve-copy-commit and min-copy-consume shapes; copy independence incl. self-assignment alias safety; strong guarantee on allocation failure (nothing released or overwritten before a throwing new[]); postconditions of the primitives (hasWritten/hasRead/hasReadAll, the four accessors); no unsigned wrap-around in any sum, doubling or difference (the assumption under which the proofs reason over the integers, discharged per operation). FIFO equality of contents decided for every history of up to 4 (thorough: 6) operations over a grid of sizes and capacities by replaying the syntax trees of util::Buffer against a reference queue, every byte a marker of its own (window contents, fetch results, copy independence, moved-from emptiness, no access outside a block or to deleted storage); for longer histories it rests on the per-operation proofs above'
                 '', '§10.6 (replaces the not-applicable of §5)',
                 'linear (affine) constant propagation + sign decision over chain slacks, on the clang CFG; abstract replay of short histories over byte provenance')
FOLDING = {'C02', 'C03', 'C04', 'C05', 'C06', 'C08', 'C09', 'C10', 'C12', 'C13', 'C14', 'C15', 'C17', 'C18', 'C19', 'C20'}
NA = {
 'C07_old': 'every clause is value-level (byte equality, index arithmetic of the three-way space policy): needs a relational numeric domain or a solver, '
        'outside the static-analysis family as available here (DESIGN.md §5)',
}

checks = []
for i in ids:
    if i in CLAIMS:
        text, ref, tech = CLAIMS[i]
        if i in FOLDING and 'folding' not in tech:
            tech += ' + finite-domain constant folding / replay of the guards, loops and small handlers found in the code'
        checks.append({
            'property_id': i,
            'quick_cmd': './check %s --tier quick' % i,
            'thorough_cmd': './check %s --tier thorough' % i,
            'evidence_file': 'evidence/%s.json' % i,
            'replay_cmd_template': 'cat {path}',
            'engine': 'tbxlint',
            'level_claimed': {'category': 'other',
                              'text': 'Static rule conformance, decided for every path/call site of the current source: ' + text +
                                      '. This decides the named structural clauses (necessary conditions of the property), not the behaviour itself; '
                                      'obligations = rule x site, all must be discharged.',
                              'design_ref': 'DESIGN.md ' + ref},
            'level_note': NOTE,
            'technique': 'static analysis: ' + tech,
        })
na = [{'property_id': i, 'reason': NA.get(i, 'check not yet implemented/validated on the current tree (DESIGN.md §9 build order)')} for i in ids if i not in CLAIMS]
m = {
 'version': 1,
 'setup_cmd': './setup.sh',
 'hooks': {'guard': 'CPP_TBOX_VERIF', 'enable': 'none needed: the analysis parses the unmodified sources with the real build flags',
           'baseline_off_cmd': 'cmake -G Ninja -S /repo -B /repo/_build && cmake --build /repo/_build -j16 -- -k 0 ; ctest --test-dir /repo/_build -j8 --timeout 900',
           'source_commits': [], 'add_only': True},
 'engines': [{'name': 'tbxlint', 'path': 'engine/tbxfacts.cc + tbxlint/ + rules/', 'serves_properties': sorted(CLAIMS),
              'kind_free_text': 'clang-14 LibTooling fact extractor (typed AST + CFG with implicit destructors) and Python rule engines: lockset/thread roles, '
                                'atomic regions, lock order, dominator/path rules, exception escape, reaching definitions, re-entrancy/invalidation, ownership'}],
 'checks': checks,
 'not_applicable': na,
 'notes': 'exit 0 = all obligations hold; exit 1 + VIOLATION line = a rule instance fails at a named site (replay file = JSON report); exit 2 = analysis broken '
          '(anchor vanished / instance floor not met / unit failed to parse). fixtures/mutations/<id>/*.patch are the checker self-test mutants and fixtures/equivalent/<id>/*.patch behaviour-preserving variants that must stay silent (tools/mutest.py; both run by the thorough tier); seeded/<id>/ holds independent seeded changes with demonstrations (tools/recheck_seeds.py).',
}
json.dump(m, open(V + '/MANIFEST.json', 'w'), indent=1)
print('claimed:', sorted(CLAIMS), 'n/a:', len(na))
