"""helper to author behaviour-preserving variants (must stay silent): eq(prop, name, [(file, old, new), ...], desc).
Several edits may touch the same file; they are applied in order.  mut() in mkmut.py authors the violating counterpart."""
import difflib, os
VERIF = os.path.dirname(os.path.dirname(os.path.abspath(__file__)))


def patch_text(edits, header):
    out = header
    files = {}
    order = []
    for file, o, n in edits:
        if file not in files:
            files[file] = open('/repo/modules/' + file).read()
            order.append(file)
        s = files[file]
        assert s.count(o) >= 1, 'pattern not found in %s: %r' % (file, o[:60])
        files[file] = s.replace(o, n, 1)
    for file in order:
        s = open('/repo/modules/' + file).read()
        d = difflib.unified_diff(s.splitlines(True), files[file].splitlines(True), 'a/modules/' + file, 'b/modules/' + file)
        out += ''.join(d)
    return out


def eq(prop, name, edits, desc):
    os.makedirs(os.path.join(VERIF, 'fixtures/equivalent', prop), exist_ok=True)
    open(os.path.join(VERIF, 'fixtures/equivalent', prop, name + '.patch'), 'w').write(patch_text(edits, '# expect: none\n# desc: %s\n' % desc))


def mut(prop, name, edits, expect, desc):
    os.makedirs(os.path.join(VERIF, 'fixtures/mutations', prop), exist_ok=True)
    open(os.path.join(VERIF, 'fixtures/mutations', prop, name + '.patch'), 'w').write(patch_text(edits, '# expect: %s\n# desc: %s\n' % (expect, desc)))
