"""Linear bound proofs for indexed stores:  0 <= idx <= cap - 1  at a store  P[idx] = ...  through a caller's buffer.

The value of an expression is an affine form over
  * parameters (symbols, unsigned ones non-negative),
  * 'cur:<name>' — the *current* value of a local that has several definitions (a loop counter, a cursor).

Facts g >= 0 come from
  * the controlling branch edges of the store — a fact mentioning cur:v is only used when the same definitions of v reach the
    condition and the store (nothing redefines v in between),
  * monotone locals: a local whose definitions are one initialiser/assignment E plus only decrements gives E - cur:v >= 0,
    only increments gives cur:v - E >= 0 (E evaluated where it was assigned; its own cur: symbols must be stable up to the store).

The decision `form >= 0` is affine.nonneg: the form minus at most DEPTH facts must have only non-negative coefficients over
non-negative symbols.  No path enumeration, no solver.  Casts are transparent: the callers state the assumption that indices
fit their types (the rule instances here are byte counts of at most the buffer size)."""
from .affine import Aff
from . import rd, q

DEPTH = 3
CASTS = ('ParenExpr', 'ExprWithCleanups', 'MaterializeTemporaryExpr', 'ConstantExpr', 'CXXBindTemporaryExpr', 'ImplicitCastExpr', 'CStyleCastExpr',
         'CXXStaticCastExpr', 'CXXReinterpretCastExpr', 'CXXFunctionalCastExpr', 'CXXConstCastExpr')


def form(f, e, p, depth=0):
    """Aff or None; locals with one reaching definition are followed, others are cur:<name>"""
    if e is None or e < 0 or depth > 10:
        return None
    st = f.stmts[e]
    k = st['k']
    if st.get('cv') is not None and k != 'DeclRefExpr':
        return Aff(st['cv'])
    if k in CASTS:
        return form(f, st['ch'][0], p, depth + 1) if st.get('ch') else None
    if k == 'DeclRefExpr':
        if st.get('dk') == 'ParmVar':
            defs = rd.local_defs(f, st['d'])
            if all(d['kind'] == 'param' for d in defs):
                return Aff.sym(st['n'])
            return Aff.sym('cur:' + st['n'])
        if st.get('dk') == 'Var' and not st.get('gl'):
            defs = rd.local_defs(f, st['d'])
            r = sorted(rd.reaching(f, st['d'], p)) if p is not None else []
            if len(defs) == 1 and len(r) == 1 and defs[0]['kind'] in ('init', '=') and defs[0]['rhs'] is not None and defs[0]['point'] is not None:
                rs = f.s(f.strip_casts(defs[0]['rhs']))
                if rs is not None and rs['k'] not in q.CALL_KINDS:
                    v = form(f, defs[0]['rhs'], defs[0]['point'], depth + 1)
                    if v is not None and stable_syms(f, v, defs[0]['point'], p):
                        return v
            return Aff.sym('cur:' + st['n'])
        return None
    if k == 'BinaryOperator' and st.get('op') in ('+', '-'):
        a, b = form(f, st['ch'][0], p, depth + 1), form(f, st['ch'][1], p, depth + 1)
        if a is None or b is None:
            return None
        return a + b if st['op'] == '+' else a - b
    if k == 'BinaryOperator' and st.get('op') == '*':
        a, b = form(f, st['ch'][0], p, depth + 1), form(f, st['ch'][1], p, depth + 1)
        if a is not None and b is not None and a.is_const():
            return b.scale(a.c)
        if a is not None and b is not None and b.is_const():
            return a.scale(b.c)
        return None
    if k == 'UnaryOperator' and st.get('op') in ('++', '--'):
        # value of the expression: post = old value, pre = new value
        inner = form(f, st['ch'][0], p, depth + 1)
        if inner is None:
            return None
        if st.get('post'):
            return inner
        return inner + Aff(1 if st['op'] == '++' else -1)
    return None


def _decl_by_name(f, name):
    for st in f.stmts:
        if st and st['k'] == 'DeclRefExpr' and st.get('n') == name and st.get('dk') in ('Var', 'ParmVar'):
            return st['d']
    return None


def stable_syms(f, a, p_from, p_to):
    """every cur: symbol of `a` has the same reaching definitions at both points"""
    if p_from is None or p_to is None:
        return False
    for s_ in a.t:
        if s_.startswith('cur:'):
            d = _decl_by_name(f, s_[4:])
            if d is None or rd.reaching(f, d, p_from) != rd.reaching(f, d, p_to):
                return False
    return True


def cond_facts(f, cond, k, p):
    """facts g >= 0 on edge k of a comparison, usable at p"""
    cs = f.s(f.strip_casts(cond))
    taken = (k == 0)
    while cs is not None and cs['k'] == 'UnaryOperator' and cs.get('op') == '!':
        taken = not taken
        cs = f.s(f.strip_casts(cs['ch'][0]))
    if cs is None or cs['k'] != 'BinaryOperator' or cs.get('op') not in ('<', '<=', '>', '>=', '=='):
        return []
    cp = f.cfg.point_of(cs['i'])
    if cp is None:
        cp = f.cfg.point_of(cond)
    a, b = form(f, cs['ch'][0], cp), form(f, cs['ch'][1], cp)
    if a is None or b is None:
        return []
    op = cs['op'] if taken else {'<': '>=', '<=': '>', '>': '<=', '>=': '<', '==': '!='}[cs['op']]
    out = {'>=': [a - b], '>': [a - b - Aff(1)], '<=': [b - a], '<': [b - a - Aff(1)], '==': [a - b, b - a], '!=': []}[op]
    if op == '!=':
        # an unsigned quantity different from 0 is at least 1
        pos = unsigned_syms(f)
        for x, y in ((a, b), (b, a)):
            if y.is_const() and y.c == 0 and len(x.t) == 1 and x.c == 0 and list(x.t.values()) == [1] and list(x.t)[0] in pos:
                out = [x - Aff(1)]
    return [g for g in out if stable_syms(f, g, cp, p)]


def align_facts(f, p, facts):
    """(x & M) == 0 with M = 2^k - 1 on an edge that holds at p, together with x >= 1, gives x >= M + 1"""
    out = []
    for cond, k, b in f.cfg.controlling_branches(p):
        cs = f.s(f.strip_casts(cond))
        taken = (k == 0)
        while cs is not None and cs['k'] == 'UnaryOperator' and cs.get('op') == '!':
            taken = not taken
            cs = f.s(f.strip_casts(cs['ch'][0]))
        if cs is None:
            continue
        mask = None
        if cs['k'] == 'BinaryOperator' and cs.get('op') in ('==', '!=') and (f.s(cs['ch'][1]) or {}).get('cv') == 0:
            inner = f.s(f.strip_casts(cs['ch'][0]))
            zero_edge = taken == (cs['op'] == '==')
        else:
            inner = cs
            zero_edge = not taken         # `if (x & M)` : the false edge has (x & M) == 0
        while inner is not None and inner['k'] == 'ParenExpr':
            inner = f.s(f.strip_casts(inner['ch'][0]))
        if inner is None or inner['k'] != 'BinaryOperator' or inner.get('op') != '&' or not zero_edge:
            continue
        m = (f.s(inner['ch'][1]) or {}).get('cv')
        cp = f.cfg.point_of(inner['i']) or f.cfg.point_of(cond)
        x = form(f, inner['ch'][0], cp)
        if m is None or x is None or m < 1 or (m & (m + 1)) != 0 or not stable_syms(f, x, cp, p):
            continue
        if decide(x - Aff(1), facts, unsigned_syms(f)):
            out.append(x - Aff(m + 1))
    return out


def monotone_facts(f, p):
    """facts from locals that only ever move one way"""
    out = []
    seen = set()
    for st in f.stmts:
        if not st or st['k'] != 'DeclRefExpr' or st.get('dk') not in ('Var',) or st.get('gl') or st['d'] in seen:
            continue
        seen.add(st['d'])
        defs = rd.local_defs(f, st['d'])
        base = [d for d in defs if d['kind'] in ('init', '=')]
        steps = [d for d in defs if d['kind'] not in ('init', '=')]
        if len(base) != 1 or not steps or base[0]['rhs'] is None or base[0]['point'] is None:
            continue
        if p is None or not rd.reaching(f, st['d'], p):
            continue
        kinds = set()
        for d in steps:
            if d['kind'] in ('++',):
                kinds.add('+')
            elif d['kind'] in ('--',):
                kinds.add('-')
            elif d['kind'] in ('+=', '-=') and d['rhs'] is not None and (f.s(d['rhs']) or {}).get('cv') is not None and f.s(d['rhs'])['cv'] >= 0:
                kinds.add('+' if d['kind'] == '+=' else '-')
            else:
                kinds.add('?')
        if len(kinds) != 1 or '?' in kinds:
            continue
        e = form(f, base[0]['rhs'], base[0]['point'])
        if e is None or not stable_syms(f, e, base[0]['point'], p):
            continue
        cur = Aff.sym('cur:' + st['n'])
        out.append(cur - e if '+' in kinds else e - cur)
    return out


def case_facts(f, cond, k, b, p):
    """the edge of a switch into `case v:` says  condition == v"""
    blk = f.cfg.blocks[b]
    if blk.tk != 'SwitchStmt' or k >= len(blk.succ) or blk.succ[k] is None:
        return []
    lab = f.s(f.cfg.blocks[blk.succ[k]].label) if f.cfg.blocks[blk.succ[k]].label is not None else None
    if lab is None or lab['k'] != 'CaseStmt' or not isinstance(lab.get('v'), int):
        return []
    cp = f.cfg.point_of(cond)
    a = form(f, cond, cp)
    if a is None:
        return []
    return [g for g in (a - Aff(lab['v']), Aff(lab['v']) - a) if stable_syms(f, g, cp, p)]


def facts_at(f, p):
    out = []
    for cond, k, b in f.cfg.controlling_branches(p):
        out += cond_facts(f, cond, k, p)
        out += case_facts(f, cond, k, b, p)
    out += monotone_facts(f, p)
    out += min_facts(f, p)
    out += align_facts(f, p, out)
    return out


def unsigned_syms(f):
    """symbols whose C type is unsigned: their values are >= 0 without a fact"""
    out = set()
    for p_ in f.params:
        if 'unsigned' in (p_.get('ct') or p_.get('t') or ''):
            out.add(p_['n'])
            out.add('cur:' + p_['n'])
    for st in f.stmts:
        if st and st['k'] == 'DeclStmt':
            for d in st['decls']:
                if 'unsigned' in (d.get('ct') or d.get('t') or '') or (d.get('t') or '') in ('size_t', 'uint8_t', 'uint16_t', 'uint32_t', 'uint64_t'):
                    out.add('cur:' + d['n'])
    return out


def decide(g, facts, pos, depth=DEPTH):
    """g >= 0 ?  g minus at most `depth` facts must have a non-negative constant, non-negative coefficients on the symbols in `pos`
    (known >= 0) and no other symbol left."""
    if g is None:
        return False
    if g.c >= 0 and all((v >= 0 and s_ in pos) for s_, v in g.t.items()):
        return True
    if depth > 0:
        for h in facts:
            # only facts that remove something we cannot otherwise justify
            if any(s_ in g.t for s_ in h.t) and decide(g - h, facts, pos, depth - 1):
                return True
    return False


def _min_call(f, e):
    x = f.s(f.strip_casts(e)) if e is not None else None
    while x is not None and x['k'] in CASTS and x.get('ch'):
        x = f.s(f.strip_casts(x['ch'][0]))
    if x is not None and x['k'] in q.CALL_KINDS and (x.get('callee') or '').startswith('std::min') and len(x.get('args', [])) == 2:
        return x
    return None


def min_facts(f, p):
    """a local defined once as std::min(a, b) is <= a and <= b"""
    out = []
    for st in f.stmts:
        if st and st['k'] == 'DeclStmt':
            for d in st['decls']:
                if 'init' not in d:
                    continue
                defs = rd.local_defs(f, d['d'])
                c = _min_call(f, d['init'])
                if c is None or len(defs) != 1 or defs[0]['point'] is None or not rd.reaching(f, d['d'], p):
                    continue
                for a in c['args']:
                    v = form(f, a, defs[0]['point'])
                    if v is not None and stable_syms(f, v, defs[0]['point'], p):
                        out.append(v - Aff.sym('cur:' + d['n']))
    return out


def opaque_guards(f, p, idx_syms, cap_syms):
    """controlling conditions of p that could relate the index to the capacity but yield no affine fact: the condition mentions an index variable
    and also the capacity — directly, or through a local whose definition is a call involving the capacity.  With one of these present a failed
    proof is 'cannot decide', not a violation."""
    strip = lambda ss: {s_[4:] if s_.startswith('cur:') else s_ for s_ in ss}
    inames, cnames = strip(idx_syms), strip(cap_syms)
    out = []
    for cond, k, b in f.cfg.controlling_branches(p):
        refs = [f.stmts[x] for x in f.walk(cond) if f.stmts[x]['k'] == 'DeclRefExpr']
        if not any(r.get('n') in inames for r in refs) or cond_facts(f, cond, k, p):
            continue
        if any(f.stmts[x]['k'] == 'BinaryOperator' and f.stmts[x].get('op') == '&' and (f.s(f.stmts[x]['ch'][1]) or {}).get('cv') is not None for x in f.walk(cond)):
            continue        # a mask test: understood by align_facts (it contributes only together with x >= 1)
        capy = any(r.get('n') in cnames for r in refs)
        for r in refs:
            if r.get('dk') == 'Var' and not r.get('gl'):
                for d in rd.local_defs(f, r['d']):
                    if d['rhs'] is not None and any(f.stmts[y]['k'] == 'DeclRefExpr' and f.stmts[y].get('n') in cnames for y in f.walk(d['rhs'])) and _min_call(f, d['rhs']) is None:
                        capy = True
        if capy:
            out.append(cond)
    return out


def prove_index(f, idx, cap_form, p):
    """(lower_ok, upper_ok, idx form, facts used)"""
    v = form(f, idx, p)
    if v is None:
        return False, False, None, []
    facts = facts_at(f, p)
    pos = unsigned_syms(f)
    lo = decide(v, facts, pos)
    hi = decide(cap_form - v - Aff(1), facts, pos)
    return lo, hi, v, facts
