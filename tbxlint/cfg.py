"""CFG utilities over the extractor's per-function CFG: program points, dominators,
post-dominators, avoiding-path queries and a small forward dataflow solver."""
from collections import deque


class Block:
    __slots__ = ('id', 'el', 'succ', 'pred', 'cond', 'term', 'tk', 'label', 'noret', 'looptarget')

    def __init__(self, d):
        self.id = d['id']
        self.el = d['el']
        self.succ = [s[0] if (s[0] is not None and s[1]) else None for s in d['succ']]
        self.pred = []
        self.cond = d.get('cond')
        self.term = d.get('term')
        self.tk = d.get('tk')
        self.label = d.get('label')
        self.noret = d.get('noret', False)
        self.looptarget = d.get('looptarget')


class CFG:
    def __init__(self, func):
        self.f = func
        d = func.d['cfg']
        self.ok = d.get('ok', False)
        self.blocks = {}
        if not self.ok:
            return
        for b in d['blocks']:
            blk = Block(b)
            # for `if (a && b)` clang reports the whole `a && b` as the condition of the block that
            # evaluates `b` (terminator = the IfStmt): the value branched on there is the right-most leaf
            if blk.cond is not None and blk.term is not None and blk.term != blk.cond:
                c = blk.cond
                while True:
                    st = func.stmts[func.strip(c)]
                    if st['k'] == 'BinaryOperator' and st.get('op') in ('&&', '||'):
                        c = st['ch'][1]
                    else:
                        break
                blk.cond = func.strip(c)
            if blk.cond is not None:
                # LIKELY(x)/UNLIKELY(x) = __builtin_expect(!!(x), c): the value branched on is x
                for _ in range(3):
                    st = func.stmts[func.strip_casts(blk.cond)] if func.strip_casts(blk.cond) is not None else None
                    if st is not None and st['k'] == 'CallExpr' and st.get('callee') == '__builtin_expect' and st.get('args'):
                        inner = func.strip_casts(st['args'][0])
                        neg = 0
                        while inner is not None and func.stmts[inner]['k'] == 'UnaryOperator' and func.stmts[inner].get('op') == '!':
                            neg += 1
                            inner = func.strip_casts(func.stmts[inner]['ch'][0])
                        if inner is not None and neg % 2 == 0:
                            blk.cond = inner
                            continue
                    break
            self.blocks[b['id']] = blk
        self.entry = d['entry']
        self.exit = d['exit']
        for b in self.blocks.values():
            for s in b.succ:
                if s is not None:
                    self.blocks[s].pred.append(b.id)
        # stmt id -> first program point
        self.pos = {}
        for b in self.blocks.values():
            for i, e in enumerate(b.el):
                if e[0] == 'S':
                    self.pos.setdefault(e[1], (b.id, i))
                elif e[0] == 'I':
                    self.pos.setdefault(e[2], (b.id, i))
        self._dom = None
        self._pdom = None
        self._reach_cache = {}

    # ---- iteration ---------------------------------------------------------
    def points(self):
        for b in self.blocks.values():
            for i, e in enumerate(b.el):
                yield (b.id, i), e

    def stmt_points(self):
        """((block, idx), stmt dict) for statement elements, in block order"""
        st = self.f.stmts
        for b in self.blocks.values():
            for i, e in enumerate(b.el):
                if e[0] == 'S':
                    yield (b.id, i), st[e[1]]
                elif e[0] == 'I':
                    yield (b.id, i), st[e[2]]

    def point_of(self, sid):
        """program point of statement sid; if the statement itself is not an element
        (e.g. compound statements) the point of its first descendant that is."""
        if sid in self.pos:
            return self.pos[sid]
        for x in self.f.walk(sid):
            if x in self.pos:
                return self.pos[x]
        return None

    def last_point_of(self, sid):
        """latest point (in its block) among sid and descendants — where the whole
        expression has been evaluated. For a full expression this is sid itself."""
        if sid in self.pos:
            return self.pos[sid]
        return self.point_of(sid)

    # ---- dominators ----------------------------------------------------------
    def _compute_dom(self, entry, succ_of, pred_of):
        ids = list(self.blocks)
        # reachable set from entry along succ_of
        order = []
        seen = {entry}
        dq = deque([entry])
        while dq:
            x = dq.popleft()
            order.append(x)
            for s in succ_of(x):
                if s is not None and s not in seen:
                    seen.add(s)
                    dq.append(s)
        dom = {x: set(order) for x in order}
        dom[entry] = {entry}
        changed = True
        while changed:
            changed = False
            for x in order:
                if x == entry:
                    continue
                ps = [p for p in pred_of(x) if p in dom]
                if not ps:
                    continue
                new = set.intersection(*[dom[p] for p in ps]) | {x}
                if new != dom[x]:
                    dom[x] = new
                    changed = True
        return dom

    @property
    def dom(self):
        if self._dom is None:
            self._dom = self._compute_dom(self.entry, lambda x: self.blocks[x].succ, lambda x: self.blocks[x].pred)
        return self._dom

    @property
    def pdom(self):
        if self._pdom is None:
            self._pdom = self._compute_dom(self.exit, lambda x: self.blocks[x].pred,
                                           lambda x: [s for s in self.blocks[x].succ if s is not None])
        return self._pdom

    def dominates(self, p, q):
        """program point p dominates q (every path entry->q passes p)"""
        if p[0] == q[0]:
            return p[1] <= q[1]
        return q[0] in self.dom and p[0] in self.dom[q[0]]

    def postdominates(self, p, q):
        """every path q->exit passes p"""
        if p[0] == q[0]:
            return p[1] >= q[1]
        return q[0] in self.pdom and p[0] in self.pdom[q[0]]

    # ---- reachability with avoidance ----------------------------------------
    def exists_path(self, src, dst, avoid=(), src_inclusive=False, edge_filter=None):
        """Is there a CFG path from just after point `src` (or from `src` itself when
        src_inclusive) to point `dst` that touches no point in `avoid`?
        dst == 'exit' means the exit block. `edge_filter(block, succ_index)` may veto edges."""
        avoid_by_block = {}
        for a in avoid:
            avoid_by_block.setdefault(a[0], []).append(a[1])
        dst_block = self.exit if dst == 'exit' else dst[0]
        dst_idx = -1 if dst == 'exit' else dst[1]

        def scan(bid, start):
            """walk block bid from element index start: 'hit' if dst is reached first,
            'blocked' if an avoided point comes first, 'through' if the block end is reached"""
            av = min((x for x in avoid_by_block.get(bid, ()) if x >= start), default=None)
            if dst != 'exit' and bid == dst_block and dst_idx >= start:
                if av is None or dst_idx < av:
                    return 'hit'
                return 'blocked'
            if av is not None:
                return 'blocked'
            if dst == 'exit' and bid == dst_block:
                return 'hit'
            return 'through'

        sb, si = src
        r = scan(sb, si if src_inclusive else si + 1)
        if r == 'hit':
            return True
        if r == 'blocked':
            return False
        seen = set()
        dq = deque()
        for k, s in enumerate(self.blocks[sb].succ):
            if s is not None and (edge_filter is None or edge_filter(sb, k)):
                dq.append(s)
        while dq:
            b = dq.popleft()
            if b in seen:
                continue
            seen.add(b)
            r = scan(b, 0)
            if r == 'hit':
                return True
            if r == 'blocked':
                continue
            for k, s in enumerate(self.blocks[b].succ):
                if s is not None and s not in seen and (edge_filter is None or edge_filter(b, k)):
                    dq.append(s)
        return False

    def entry_point(self):
        return (self.entry, -1)

    def reachable_blocks(self, frm):
        seen = {frm}
        dq = deque([frm])
        while dq:
            x = dq.popleft()
            for s in self.blocks[x].succ:
                if s is not None and s not in seen:
                    seen.add(s)
                    dq.append(s)
        return seen

    def back_edges(self):
        """(src, dst) edges where dst dominates src"""
        out = []
        for b in self.blocks.values():
            for s in b.succ:
                if s is not None and b.id in self.dom and s in self.dom[b.id]:
                    out.append((b.id, s))
        return out

    # ---- branch conditions ---------------------------------------------------
    def control_dep(self, p):
        """Branches on which point p is control dependent, as a list of
        (cond stmt id, polarity) where polarity is the successor index (0 = true edge)
        through which p is reached exclusively. Computed from post-dominance: block X with
        two+ successors controls p iff p's block post-dominates some successor of X but
        does not post-dominate X itself."""
        out = []
        pb = p[0]
        for b in self.blocks.values():
            succ = [s for s in b.succ]
            if len([s for s in succ if s is not None]) < 2 or b.cond is None:
                continue
            if b.id != pb and b.id in self.pdom and pb in self.pdom[b.id]:
                continue  # p post-dominates the branch: not controlled by it
            if b.id == pb:
                continue
            for k, s in enumerate(succ):
                if s is None:
                    continue
                if s == pb or (s in self.pdom and pb in self.pdom[s]):
                    out.append((b.cond, k, b.id))
        return out

    def controlling_branches(self, p):
        """Dominating guards of point p: (cond stmt id, successor index, block) for every
        conditional edge that every path entry -> p must take (removing the edge makes p
        unreachable).  Successor index 0 is the true edge of an if/loop condition."""
        key = ('g', p)
        if key in self._reach_cache:
            return self._reach_cache[key]
        out = []
        entry = self.entry_point()
        for b in self.blocks.values():
            if b.cond is None or len([s for s in b.succ if s is not None]) < 2:
                continue
            if b.id not in self.dom.get(p[0], ()):  # the branch block itself must dominate p
                continue
            if b.id == p[0]:
                continue
            for k, s in enumerate(b.succ):
                if s is None:
                    continue
                if not self.exists_path(entry, p, edge_filter=lambda bb, kk, b=b, k=k: not (bb == b.id and kk == k)):
                    out.append((b.cond, k, b.id))
        self._reach_cache[key] = out
        return out

    # ---- forward dataflow -----------------------------------------------------
    def forward(self, init, transfer, join, edge=None, top=None):
        """Generic forward analysis. `transfer(point, elem, state) -> state`,
        `join(a, b) -> state`, optional `edge(block, succ_index, state) -> state or None`
        (None = edge infeasible). Returns (state_at_entry_of_block, state_before_point)."""
        inn = {self.entry: init}
        work = deque([self.entry])
        before = {}
        while work:
            bid = work.popleft()
            st = inn[bid]
            b = self.blocks[bid]
            for i, e in enumerate(b.el):
                before[(bid, i)] = st
                st = transfer((bid, i), e, st)
            before[(bid, len(b.el))] = st
            for k, s in enumerate(b.succ):
                if s is None:
                    continue
                out = edge(b, k, st) if edge else st
                if out is None:
                    continue
                if s not in inn:
                    inn[s] = out
                    work.append(s)
                else:
                    j = join(inn[s], out)
                    if j != inn[s]:
                        inn[s] = j
                        if s not in work:
                            work.append(s)
        return inn, before
