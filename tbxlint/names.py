"""Rename-robustness layer.

Rules name local variables and parameters the way the pinned tree does ('cell.id', 'conn.res_index', 'wsize').  A rename of a
local is behaviour-preserving and must not raise an alarm, so before any rule runs every function's locals/parameters are mapped
back to their *reference names*: fixtures/names.json records, per function signature, the parameter names and the (type, name)
list of its locals in declaration order as they are on the reference tree (regenerate with tools/gen_names.py after a fix commit).
A function is re-aliased only when its parameter types and the type sequence of its locals are exactly those of the reference —
i.e. for pure renames; any structural change leaves the names as they are in the source."""
import json, os

VERIF = os.path.dirname(os.path.dirname(os.path.abspath(__file__)))
TABLE = os.path.join(VERIF, 'fixtures', 'names.json')
SKIP_PREFIX = ('__',)


def _norm_type(t):
    """type text used for matching; the size expression of a variable-length array names a variable, so only its presence is kept"""
    import re
    t = (t or '').replace('const ', '').replace(' const', '').strip()
    return re.sub(r'\[[^\]\d][^\]]*\]', '[*]', t)


def signature(prog, f):
    top = f
    chain = []
    while top.parent_usr and top.parent_func is not None:
        sibs = sorted([g for g in prog.lambdas_of.get(top.parent_func.key, [])], key=lambda g: (g.line, g.usr))
        chain.append('#L%d' % sibs.index(top) if top in sibs else '#L?')
        top = top.parent_func
    return '%s(%s)%s' % (top.name, ';'.join(_norm_type(p.get('ct') or p.get('t')) for p in top.params), ''.join(reversed(chain)))


def locals_of(f):
    out = []
    for st in f.stmts:
        if st and st['k'] == 'DeclStmt':
            for d in st.get('decls', ()):
                if d.get('dk') == 'Var' and d.get('n') and not d['n'].startswith(SKIP_PREFIX):
                    out.append((d['d'], _norm_type(d.get('ct') or d.get('t')), d['n']))
    return out


def describe(prog):
    tab = {}
    for f in prog.funcs.values():
        sig = signature(prog, f)
        if '#L?' in sig:
            continue
        e = {'params': [[_norm_type(p.get('ct') or p.get('t')), p['n']] for p in f.params], 'locals': [[t, n] for d, t, n in locals_of(f)]}
        if sig in tab and tab[sig] != e:
            tab[sig] = None         # ambiguous signature (overload sets with equal parameter types): never aliased
        else:
            tab.setdefault(sig, e)
    return {k: v for k, v in tab.items() if v}


def apply(prog):
    """rewrite names in place; returns the number of re-aliased variables"""
    if not os.path.exists(TABLE):
        return 0
    ref = json.load(open(TABLE))
    per_tu = {}     # tu -> {decl id: reference name}
    changed = 0
    for f in prog.funcs.values():
        e = ref.get(signature(prog, f))
        if not e:
            continue
        cur_p = [[_norm_type(p.get('ct') or p.get('t')), p['n']] for p in f.params]
        cur_l = locals_of(f)
        if [t for t, n in cur_p] != [t for t, n in e['params']] or [t for d, t, n in cur_l] != [t for t, n in e['locals']]:
            continue
        m = per_tu.setdefault(f.tu, {})
        for p, (t, n) in zip(f.params, e['params']):
            if p['n'] != n and p.get('n'):
                m[p['d']] = n
        for (d, t, cn), (rt, rn) in zip(cur_l, e['locals']):
            if cn != rn:
                m[d] = rn
    for f in prog.funcs.values():
        m = per_tu.get(f.tu)
        if not m:
            continue
        for p in f.params:
            if p.get('d') in m:
                p['n'] = m[p['d']]
                changed += 1
        for st in f.stmts:
            if not st:
                continue
            if st['k'] == 'DeclRefExpr' and st.get('d') in m and st.get('dk') in ('Var', 'ParmVar'):
                st['n'] = m[st['d']]
            elif st['k'] == 'DeclStmt':
                for d in st.get('decls', ()):
                    if d.get('d') in m:
                        d['n'] = m[d['d']]
                        changed += 1
            elif st['k'] == 'LambdaExpr':
                for c in st.get('caps', ()):
                    if c.get('d') in m:
                        c['n'] = m[c['d']]
        f.__dict__.pop('_alias_cache', None)
    return changed
