"""A8 — exception escape analysis over the call graph (no EH edges in the CFG: reasoning
is done on the lexical try map and the call chain)."""
from .facts import AnalysisBroken
from . import q

STD_EXC = {
    # type -> ancestors (most derived first)
    'std::invalid_argument': ['std::logic_error', 'std::exception'],
    'std::out_of_range': ['std::logic_error', 'std::exception'],
    'std::length_error': ['std::logic_error', 'std::exception'],
    'std::domain_error': ['std::logic_error', 'std::exception'],
    'std::logic_error': ['std::exception'],
    'std::runtime_error': ['std::exception'],
    'std::range_error': ['std::runtime_error', 'std::exception'],
    'std::overflow_error': ['std::runtime_error', 'std::exception'],
    'std::bad_function_call': ['std::exception'],
    'std::bad_alloc': ['std::exception'],
    'nlohmann::json::exception': ['std::exception'],
    'nlohmann::json::parse_error': ['nlohmann::json::exception', 'std::exception'],
    'nlohmann::json::type_error': ['nlohmann::json::exception', 'std::exception'],
    'nlohmann::json::out_of_range': ['nlohmann::json::exception', 'std::exception'],
    'std::exception': [],
}

STOX = ('std::stoi', 'std::stol', 'std::stoll', 'std::stoul', 'std::stoull', 'std::stof', 'std::stod', 'std::stold')
AT_CONTAINERS = ('std::map<', 'std::unordered_map<', 'std::vector<', 'std::deque<', 'std::array<', 'std::basic_string<',
                 'std::__cxx11::basic_string<')
STR_POS_FUNCS = {'substr': 0, 'erase': 0, 'insert': 0, 'replace': 0, 'compare': 0, 'copy': 2}


def norm_handler(t):
    t = t.replace('const ', '').replace('&', '').replace('class ', '').strip()
    if t.startswith('nlohmann::') and 'exception' in t:
        return 'nlohmann::json::exception'
    if t.startswith('nlohmann::') and 'parse_error' in t:
        return 'nlohmann::json::parse_error'
    return t


def covers(handler, exc):
    if handler == '...':
        return True
    h = norm_handler(handler)
    if h == exc:
        return True
    return h in STD_EXC.get(exc, ['std::exception'])


def is_string_cls(cls):
    return cls.startswith('std::basic_string<') or cls.startswith('std::__cxx11::basic_string<')


def _size_like(f, e, depth=0, prog=None, assume=frozenset()):
    """the expression is built from constants and sizes of existing objects (x.size(), x.length(), x.capacity(), sizeof) with + - * / only, or is a
    local/parameter holding such a value (parameters named like a size of data already received are accepted: data_size, len, size)"""
    if e is None or depth > 8:
        return False
    st = f.s(f.strip_casts(e))
    if st is None:
        return False
    if st.get('cv') is not None:
        return True
    k = st['k']
    if k in ('ParenExpr', 'ExprWithCleanups', 'MaterializeTemporaryExpr', 'CXXBindTemporaryExpr'):
        return _size_like(f, st['ch'][0], depth + 1, prog, assume)
    if k in q.CALL_KINDS and st.get('fn') in ('size', 'length', 'capacity') and not st.get('args'):
        return True
    if k in q.CALL_KINDS and (st.get('callee') or '').startswith(('std::min', 'std::max')):
        return any(_size_like(f, a, depth + 1, prog, assume) for a in st.get('args', [])) if (st.get('callee') or '').startswith('std::min') else \
            all(_size_like(f, a, depth + 1, prog, assume) for a in st.get('args', []))
    if k == 'BinaryOperator' and st.get('op') in ('+', '-', '*', '/', '%', '>>'):
        return _size_like(f, st['ch'][0], depth + 1, prog, assume) and _size_like(f, st['ch'][1], depth + 1, prog, assume)
    if k == 'UnaryExprOrTypeTraitExpr':
        return True
    if k == 'DeclRefExpr' and st.get('dk') == 'ParmVar':
        # the length of a buffer the caller already holds
        return 'size' in (st.get('n') or '') or 'len' in (st.get('n') or '')
    if k == 'MemberExpr' and st.get('mk') == 'field' and prog is not None and (f.cls or prog.outermost(f).cls) and depth < 6:
        # a cursor/length field of the object: every assignment in its class gives it a constant, a size-like value, or advances it by one
        base = f.s(f.strip_casts(st['ch'][0])) if st.get('ch') else None
        if base is None or base['k'] == 'CXXThisExpr':
            fq = st.get('q') or ''
            if fq in assume:
                return True         # induction: the field is size-like if every assignment keeps it so, given that it is
            seen = False
            for g in prog.methods_of(prog.outermost(f).cls or f.cls):
                for a, rhs in q.assigns(g, fq.split('::')[-2] + '::' + fq.split('::')[-1] if fq.count('::') else fq):
                    seen = True
                    if a['k'] == 'CompoundAssignOperator' and a.get('op') not in ('+=', '-='):
                        return False
                    if not _size_like(g, rhs, depth + 1, prog, assume | {fq}):
                        return False
            return seen
    if k == 'DeclRefExpr' and st.get('dk') == 'Var' and not st.get('gl'):
        from . import rd
        defs = rd.local_defs(f, st['d'])
        return bool(defs) and all(d['kind'] in ('init', '=', '+=', '++') and (d['rhs'] is None or _size_like(f, d['rhs'], depth + 1, prog, assume)) for d in defs)
    return False


def may_throw(f, st, prog=None):
    """set of exception types a std/3rd-party call may raise for *some* argument values
    (None if the statement is not a potential thrower)"""
    k = st['k']
    if k == 'CXXThrowExpr':
        if st['ch']:
            t = f.s(st['ch'][0])
            ty = (t.get('ct') or t.get('t') or 'unknown') if t else 'unknown'
            return {norm_handler(ty)}, 'throw'
        return {'rethrow'}, 'throw'
    if k not in q.CALL_KINDS:
        return None
    callee = st.get('callee', '')
    if callee.startswith(STOX):
        return {'std::invalid_argument', 'std::out_of_range'}, callee.split('<')[0]
    cls = st.get('cls', '')
    fn = st.get('fn', '')
    if fn == 'at' and cls.startswith(AT_CONTAINERS):
        return {'std::out_of_range'}, cls.split('<')[0] + '::at'
    if is_string_cls(cls) and fn in STR_POS_FUNCS:
        return {'std::out_of_range'}, 'std::string::' + fn
    if fn in ('reserve', 'resize') and (is_string_cls(cls) or cls.startswith('std::vector')) and st.get('args'):
        # a request for n elements throws std::length_error beyond max_size() (and bad_alloc well before): harmless when n is the size of something that
        # already exists in memory, a crash on demand when n comes from the input
        if not _size_like(f, st['args'][0], 0, prog):
            return {'std::length_error', 'std::bad_alloc'}, cls.split('<')[0] + '::' + fn + '(n)'
    if cls.startswith('nlohmann::') or callee.startswith('nlohmann::'):
        if fn in ('parse',):
            return {'nlohmann::json::parse_error'}, 'json::parse'
        if fn in ('at',):
            return {'nlohmann::json::out_of_range', 'nlohmann::json::type_error'}, 'json::at'
        if fn == 'value' and 'basic_json' in cls and len(st.get('args', ())) >= 2:
            # value(key, default): type_error.306 on a non-object, type_error.302 when the key is present with an inconvertible value
            return {'nlohmann::json::type_error'}, 'json::value'
        if fn in ('push_back', 'emplace_back', 'emplace', 'update', 'merge_patch', 'patch', 'erase', 'insert', 'front', 'back') and 'basic_json' in cls:
            return {'nlohmann::json::type_error', 'nlohmann::json::out_of_range'}, 'json::' + fn
        if fn in ('get', 'get_to', 'get_ref', 'operator int', 'operator basic_string', 'operator bool', 'operator double') or fn.startswith('operator '):
            if fn in ('operator[]', 'operator=', 'operator==', 'operator!=', 'operator<<', 'operator>>'):
                return None
            return {'nlohmann::json::type_error'}, 'json::' + fn
    return None


class ExcEngine:
    def __init__(self, prog, catchers=('tbox::CatchThrow', 'tbox::CatchThrowQuietly'), sync_hof=('std::',), exceptions=None,
                 follow=None, extra_throwers=None):
        """exceptions: {(function name, thrower label, arg/receiver path): reason} table of
        confirmed-safe sites.  follow(func) -> bool limits the call graph (default: every
        function with a body in the program)."""
        self.prog = prog
        self.catchers = tuple(catchers)
        self.sync_hof = tuple(sync_hof)
        self.exceptions = exceptions or {}
        self.follow = follow
        self.extra_throwers = extra_throwers
        self.proofs = []
        self.used_exceptions = set()

    def try_cover(self, f, sid):
        """handler types of the try blocks lexically enclosing statement sid in f
        (only when sid is inside the try *block*, not inside a handler)"""
        out = []
        cur = sid
        for a in f.ancestors(sid):
            st = f.stmts[a]
            if st['k'] == 'CXXTryStmt':
                if cur == st.get('try') or cur in set(f.walk(st.get('try'))):
                    out.extend(h['t'] for h in st.get('handlers', ()))
            cur = a
        return out

    def overriders(self, st):
        u = st.get('usr')
        out = []
        for o in self.prog.funcs.values():
            if o.parent_usr:
                continue
            if any(ov['usr'] == u for ov in o.d.get('overrides', ())):
                out.append(o)
        return out

    def scan(self, entries, prove=None):
        """entries: list of Funcs.  prove(f, st, label) -> reason string if the site is
        discharged by a presence proof.  Returns list of findings dicts."""
        findings = []
        sites = 0
        seen = {}
        work = [(e, (), (e.name,)) for e in entries]
        while work:
            f, cov, chain = work.pop()
            key = (f.key, tuple(sorted(set(cov))))
            if key in seen or len(chain) > 14:
                continue
            seen[key] = True
            lam_handled = set()
            for st in f.stmts:
                if not st:
                    continue
                here = list(cov) + self.try_cover(f, st['i'])
                mt = may_throw(f, st, self.prog)
                if mt is None and self.extra_throwers:
                    mt = self.extra_throwers(f, st)
                if mt is not None:
                    types, label = mt
                    sites += 1
                    if 'rethrow' in types:
                        continue
                    unc = sorted(t for t in types if not any(covers(h, t) for h in here))
                    if not unc:
                        self.proofs.append((f.name, f.loc(st['i']), label, 'caught by ' + ','.join(sorted(set(here)))))
                        continue
                    reason = prove(f, st, label) if prove else None
                    if reason:
                        self.proofs.append((f.name, f.loc(st['i']), label, reason))
                        continue
                    rp = self._recv_path(f, st)
                    ek = (f.name, label, rp)
                    if ek in self.exceptions:
                        self.used_exceptions.add(ek)
                        self.proofs.append((f.name, f.loc(st['i']), label, 'table: ' + self.exceptions[ek]))
                        continue
                    findings.append({'func': f, 'stmt': st, 'label': label, 'types': unc, 'chain': chain, 'path': rp})
                if st['k'] in q.CALL_KINDS:
                    callee = st.get('callee', '')
                    tgts = []
                    for g in self.prog.by_usr.get(st.get('usr'), ()):
                        if not g.parent_usr:
                            tgts.append(g)
                    if st.get('virt'):
                        tgts.extend(self.overriders(st))
                    for g in tgts:
                        if self.follow is None or self.follow(g):
                            work.append((g, tuple(here), chain + (g.name,)))
                    # callables passed as arguments
                    for a in st.get('args', ()):
                        for x in f.walk(a):
                            sx = f.stmts[x]
                            if sx['k'] == 'LambdaExpr':
                                lam = self.prog.lambda_func(f, sx)
                                if lam is None:
                                    continue
                                lam_handled.add(sx['i'])
                                if callee.startswith(self.catchers):
                                    work.append((lam, tuple(here) + ('...',), chain + (lam.name,)))
                                else:
                                    # synchronous algorithm or deferred task: either way an escaping
                                    # exception reaches a frame without the enclosing handlers only if
                                    # deferred; be conservative for deferred (no coverage) and keep the
                                    # coverage for std:: algorithms
                                    c2 = tuple(here) if callee.startswith(self.sync_hof) else ()
                                    work.append((lam, c2, chain + (lam.name,)))
                elif st['k'] == 'LambdaExpr' and st['i'] not in lam_handled:
                    lam = self.prog.lambda_func(f, st)
                    if lam is not None:
                        p, _ = f.up(st['i'])
                        # lambdas not passed directly to a call (stored): analysed as deferred
                        anc_call = any(f.stmts[a]['k'] in q.CALL_KINDS for a in f.ancestors(st['i']))
                        if not anc_call:
                            work.append((lam, (), chain + (lam.name,)))
        self.sites = sites
        self.functions = len({k[0] for k in seen})
        return findings

    def _recv_path(self, f, st):
        """stable site key: the receiver object path, or the first argument for free functions"""
        if st['k'] in q.CALL_KINDS:
            if 'obj' in st:
                return f.path(st['obj'])
            args = st.get('args', [])
            return '(' + (f.path(args[0]) if args else '') + ')'
        return ''


# ---- presence proofs shared by C12–C15 -------------------------------------------------

def npos_guarded(f, st_point, var_decl):
    """the point is dominated by a guard that excludes `var == npos`"""
    for cond, k, b in f.cfg.controlling_branches(st_point):
        cs = f.s(f.strip_casts(cond))
        if not cs or cs['k'] != 'BinaryOperator' or cs.get('op') not in ('==', '!='):
            continue
        l, r = f.s(f.strip_casts(cs['ch'][0])), f.s(f.strip_casts(cs['ch'][1]))
        def is_var(x):
            return x and x['k'] == 'DeclRefExpr' and x.get('d') == var_decl
        def is_npos(x):
            return x and ((x['k'] == 'DeclRefExpr' and x.get('n') == 'npos') or x.get('cvs') == '18446744073709551615' or x.get('cv') == -1)
        if (is_var(l) and is_npos(r)) or (is_var(r) and is_npos(l)):
            if (cs['op'] == '==' and k == 1) or (cs['op'] == '!=' and k == 0):
                return True
    return False


def find_result_var(f, var_decl):
    """is the local initialised (only) from a std::string find* call?  returns the receiver path"""
    for st in f.stmts:
        if st and st['k'] == 'DeclStmt':
            for d in st['decls']:
                if d.get('d') == var_decl and 'init' in d:
                    c = f.s(f.strip_casts(d['init']))
                    if c and c['k'] == 'CXXMemberCallExpr' and is_string_cls(c.get('cls', '')) and c.get('fn', '').startswith(('find', 'rfind')):
                        # no other writes
                        return f.path(c['obj'])
    return None


def find_result_defs(f, var_decl):
    """statement ids of the DeclStmts that initialise the local from a find* call"""
    out = []
    for st in f.stmts:
        if st and st['k'] == 'DeclStmt':
            for d in st['decls']:
                if d.get('d') == var_decl and 'init' in d:
                    out.append(st['i'])
    return out


def var_written_elsewhere(f, var_decl):
    from .locks import classify_access
    n = 0
    for st in f.stmts:
        if st and st['k'] == 'DeclRefExpr' and st.get('d') == var_decl and classify_access(f, st['i']) == 'w':
            n += 1
    return n > 0


def prove_string_pos(f, st, label):
    """std::string::substr/erase/compare(pos ...): pos is constant 0, or a find() result on the
    same string that a dominating guard shows to be != npos (and never reassigned)."""
    if not label.startswith('std::string::'):
        return None
    fn = label.split('::')[-1]
    idx = STR_POS_FUNCS.get(fn, 0)
    args = st.get('args', [])
    if len(args) <= idx:
        return 'no position argument (defaults to 0)'
    # iterator overloads of erase/insert cannot throw out_of_range
    a = f.s(f.strip_casts(args[idx]))
    at = (f.s(args[idx]).get('ct') or f.s(args[idx]).get('t') or '')
    if 'iterator' in at:
        return 'iterator overload'
    if a is None:
        return None
    if a.get('cv') == 0:
        return 'position is the constant 0'
    if a['k'] == 'DeclRefExpr' and a.get('dk') == 'Var':
        recv = find_result_var(f, a.get('d'))
        p = f.cfg.point_of(st['i'])
        if recv is not None and recv == f.path(st['obj']) and not var_written_elsewhere(f, a.get('d')) and p is not None and npos_guarded(f, p, a.get('d')) and \
                all(q.stable(f, recv, f.cfg.point_of(d_), p) for d_ in find_result_defs(f, a.get('d'))):
            return 'position %s is a find() result on the same string, guarded != npos' % a.get('n')
    if a['k'] == 'CXXMemberCallExpr' and a.get('fn') in ('size', 'length') and f.path(a['obj']) == f.path(st['obj']):
        return 'position is size() of the same string'
    return None


def prove_index_guard(f, st, label):
    """X.at(i) on a sequence: a dominating guard shows i < X.size() (or the negation returned)."""
    if not label.endswith('::at') or label.startswith('json'):
        return None
    if 'obj' not in st or not st.get('args'):
        return None
    xp = f.path(st['obj'])
    ip = f.path(st['args'][0])
    p = f.cfg.point_of(st['i'])
    if p is None or ip == '?':
        return None
    for cond, k, b in f.cfg.controlling_branches(p):
        cs = f.s(f.strip_casts(cond))
        if not cs or cs['k'] != 'BinaryOperator' or cs.get('op') not in ('<', '>=', '>', '<='):
            continue
        l, r = f.path(cs['ch'][0]), f.path(cs['ch'][1])
        sz = (xp + '.size()')
        op = cs['op']
        # i < size (true edge) / i >= size (false edge) / size > i (true) / size <= i (false)
        if (l == ip and r == sz and ((op == '<' and k == 0) or (op == '>=' and k == 1))) or \
           (l == sz and r == ip and ((op == '>' and k == 0) or (op == '<=' and k == 1))):
            if not q.stable(f, xp, f.cfg.point_of(cond), p):
                continue
            return 'index %s is guarded by a comparison with %s' % (ip, sz)
    return None


def prove_find_guard(f, st, label):
    """M.at(k) on an associative container dominated by `M.find(k) != M.end()` / `M.count(k)`"""
    if not label.endswith('::at') or 'obj' not in st or not st.get('args'):
        return None
    xp = f.path(st['obj'])
    kp = f.path(st['args'][0])
    p = f.cfg.point_of(st['i'])
    if p is None:
        return None
    for cond, k, b in f.cfg.controlling_branches(p):
        for c in q.subtree_calls(f, cond):
            if c.get('fn') in ('find', 'count', 'contains') and 'obj' in c and f.path(c['obj']) == xp and c.get('args') and f.path(c['args'][0]) == kp:
                if not q.stable(f, xp, f.cfg.point_of(cond), p, content=True):
                    continue
                return 'key presence tested by %s on a dominating branch' % c.get('fn')
    return None


def chain_provers(*ps):
    def prove(f, st, label):
        for p in ps:
            r = p(f, st, label)
            if r:
                return r
        return None
    return prove
