"""Loading of tbxfacts output and the program model used by all rule engines.

Everything here is purely structural: statements are the dicts produced by the
extractor, wrapped by `Func` which adds parent links, CFG helpers and access paths.
"""
import json
import os
import subprocess
import sys
import tempfile
import shutil
import concurrent.futures

VERIF = os.path.dirname(os.path.dirname(os.path.abspath(__file__)))
REPO = os.environ.get('TBX_REPO', '/repo')
MODULES = REPO + '/modules'

WRAPPERS = {'ImplicitCastExpr', 'ParenExpr', 'ExprWithCleanups', 'MaterializeTemporaryExpr',
            'CXXBindTemporaryExpr', 'ConstantExpr', 'FullExpr', 'SubstNonTypeTemplateParmExpr'}
CASTS = {'CStyleCastExpr', 'CXXStaticCastExpr', 'CXXFunctionalCastExpr', 'CXXReinterpretCastExpr',
         'CXXConstCastExpr', 'CXXDynamicCastExpr'}


def instantiate_unit():
    """(path, flags) of the explicit-instantiation TU for header-only templates"""
    return (os.path.join(VERIF, 'engine', 'instantiate.cc'),
            ['-std=gnu++11', '-DNDEBUG', '-DMODULE_ID="verif"', '-I' + REPO + '/modules', '-I' + REPO + '/3rd-party'])


def probe_unit():
    """(path, flags) of the positive-example TU for zero-instance rules"""
    return (os.path.join(VERIF, 'engine', 'probes.cc'), ['-std=gnu++11'])


class AnalysisBroken(Exception):
    """An anchor entity vanished / a TU failed to parse / a rule lost its instances."""


class Func:
    def __init__(self, d, tu):
        self.d = d
        self.tu = tu
        self.usr = d['usr']
        self.name = d['name']
        self.short = d['short']
        self.cls = d.get('cls')
        self.file = d['file']
        self.line = d['line']
        self.parent_usr = d.get('parent')
        self.is_lambda = bool(d.get('lambda'))
        self.stmts = d['stmts']
        self.body = d['body']
        self.params = d['params']
        self.key = self.usr + '@' + (self.parent_usr or '')
        self._parent = None
        self._cfg = None
        self.parent_func = None  # filled by Program for lambdas

    # ---- tree helpers ----------------------------------------------------
    def s(self, i):
        return self.stmts[i] if i is not None and i >= 0 else None

    @property
    def parent(self):
        if self._parent is None:
            par = {}
            for st in self.stmts:
                if st is None:
                    continue
                for c in self.all_children(st):
                    if c >= 0 and c not in par:
                        par[c] = st['i']
            self._parent = par
        return self._parent

    @staticmethod
    def all_children(st):
        out = list(st.get('ch', ()))
        for k in ('obj', 'calleeexpr', 'cond', 'then', 'else', 'init', 'inc', 'body', 'range', 'val', 'try'):
            v = st.get(k)
            if isinstance(v, int) and v >= 0 and v not in out:
                out.append(v)
        for a in st.get('args', ()):
            if a >= 0 and a not in out:
                out.append(a)
        return out

    def walk(self, i):
        """pre-order ids of the subtree rooted at i (not descending into lambda bodies,
        which are separate functions)."""
        stack = [i]
        seen = set()
        while stack:
            x = stack.pop()
            if x is None or x < 0 or x in seen:
                continue
            seen.add(x)
            yield x
            st = self.stmts[x]
            stack.extend(reversed(self.all_children(st)))

    def strip(self, i):
        """skip value-preserving wrappers downwards"""
        while i is not None and i >= 0:
            st = self.stmts[i]
            if st['k'] in WRAPPERS and st['ch']:
                i = st['ch'][0]
            else:
                break
        return i

    def strip_casts(self, i):
        while i is not None and i >= 0:
            st = self.stmts[i]
            if (st['k'] in WRAPPERS or st['k'] in CASTS) and st['ch']:
                i = st['ch'][0]
            elif st['k'] == 'CXXConstructExpr' and len(st.get('args', ())) == 1 and (st.get('copy') or st.get('move')):
                i = st['args'][0]
            else:
                break
        return i

    def up(self, i):
        """first ancestor that is not a wrapper; returns (ancestor_id, child_id_below_it)"""
        child = i
        p = self.parent.get(i)
        while p is not None and self.stmts[p]['k'] in WRAPPERS:
            child = p
            p = self.parent.get(p)
        return p, child

    def ancestors(self, i):
        p = self.parent.get(i)
        while p is not None:
            yield p
            p = self.parent.get(p)

    def path(self, i):
        """syntactic access path of an expression ('d_.lock', 'item.token', 'x[]', 'a.size()')"""
        i = self.strip_casts(i)
        if i is None or i < 0:
            return '?'
        st = self.stmts[i]
        k = st['k']
        if k == 'CXXThisExpr':
            return 'this'
        if k == 'DeclRefExpr':
            return st.get('q') if st.get('gl') and st.get('q') else st.get('n', '?')
        if k == 'MemberExpr':
            b = self.path(st['ch'][0]) if st['ch'] else 'this'
            if not st['n']:
                return b   # anonymous union/struct member: transparent
            return st['n'] if b == 'this' else b + '.' + st['n']
        if k == 'UnaryOperator' and st.get('op') in ('*', '&'):
            return self.path(st['ch'][0])
        if k == 'ArraySubscriptExpr':
            return self.path(st['ch'][0]) + '[]'
        if k == 'CXXOperatorCallExpr':
            op = st.get('op')
            if op in ('->', '*') and 'obj' in st:
                return self.path(st['obj'])
            if op == '[]' and 'obj' in st:
                return self.path(st['obj']) + '[]'
            if op == '()' and 'obj' in st:
                return self.path(st['obj']) + '()'
            return '?'
        if k == 'CXXMemberCallExpr':
            ce = self.s(self.strip(st.get('calleeexpr')))
            obj = self.path(st['obj']) if 'obj' in st else 'this'
            nm = st.get('fn', '?')
            # smart pointer get() is transparent
            if nm == 'get' and not st.get('args') and st.get('ext'):
                return obj
            return (nm if obj == 'this' else obj + '.' + nm) + '()'
        if k == 'CallExpr':
            return st.get('callee', '?') + '()'
        if k == 'IntegerLiteral' or 'cv' in st:
            return str(st.get('cv'))
        if k == 'CXXNullPtrLiteralExpr':
            return 'nullptr'
        return '?'

    def field_of(self, i):
        """qualified field name if expression i (wrappers skipped) is a field MemberExpr"""
        i = self.strip_casts(i)
        st = self.s(i)
        if st and st['k'] == 'MemberExpr' and st.get('mk') == 'field':
            return st['q']
        return None

    def loc(self, i):
        st = self.s(i)
        return '%s:%d' % (self.file.replace(REPO + '/', ''), st['l'] if st else self.line)

    def enclosing(self, i, kinds):
        for a in self.ancestors(i):
            if self.stmts[a]['k'] in kinds:
                return a
        return None

    # ---- CFG ---------------------------------------------------------------
    @property
    def cfg(self):
        if self._cfg is None:
            from .cfg import CFG
            self._cfg = CFG(self)
        return self._cfg

    def calls(self):
        for st in self.stmts:
            if st and st['k'] in ('CallExpr', 'CXXMemberCallExpr', 'CXXOperatorCallExpr'):
                yield st

    def __repr__(self):
        return '<Func %s %s:%d>' % (self.name, os.path.basename(self.file), self.line)


class Program:
    def __init__(self):
        self.funcs = {}        # key -> Func
        self.by_usr = {}       # usr -> [Func]
        self.by_name = {}      # qualified name -> [Func]
        self.classes = {}      # name -> dict
        self.globals = {}      # qualified name -> [dict]
        self.tus = []
        self.parse_errors = []
        self.lambdas_of = {}   # parent key -> [Func]

    def add_tu(self, d):
        self.tus.append(d['tu'])
        if d.get('parse_errors'):
            self.parse_errors.append(d['tu'])
        for fd in d['functions']:
            f = Func(fd, d['tu'])
            if f.key in self.funcs:
                continue
            self.funcs[f.key] = f
            self.by_usr.setdefault(f.usr, []).append(f)
            self.by_name.setdefault(f.name, []).append(f)
        for c in d['classes']:
            self.classes.setdefault(c['name'], c)
        for g in d['globals']:
            self.globals.setdefault(g['name'], []).append(g)

    def finish(self):
        for f in self.funcs.values():
            if f.parent_usr:
                ps = self.by_usr.get(f.parent_usr)
                if ps:
                    f.parent_func = ps[0]
                    self.lambdas_of.setdefault(ps[0].key, []).append(f)

    # ---- look-ups ------------------------------------------------------------
    def fn(self, name, required=True):
        """all definitions with this qualified name (overloads)"""
        r = self.by_name.get(name, [])
        if not r and required:
            raise AnalysisBroken('anchor function %s not found in the analysed units' % name)
        return r

    def fn1(self, name, nth=None, pred=None):
        r = self.fn(name)
        if pred:
            r = [f for f in r if pred(f)]
        if nth is not None:
            r = sorted(r, key=lambda f: f.line)
            if nth >= len(r):
                raise AnalysisBroken('anchor function %s overload #%d not found' % (name, nth))
            return r[nth]
        if len(r) != 1:
            raise AnalysisBroken('anchor function %s: expected one definition, found %d' % (name, len(r)))
        return r[0]

    def methods_of(self, cls):
        return [f for f in self.funcs.values() if f.cls == cls and not f.is_lambda]

    def cls(self, name):
        c = self.classes.get(name)
        if c is None:
            raise AnalysisBroken('anchor class %s not found' % name)
        return c

    def field(self, cls, name):
        c = self.cls(cls)
        for f in c['fields']:
            if f['n'] == name:
                return f
        raise AnalysisBroken('anchor field %s::%s not found' % (cls, name))

    def lambda_func(self, f, st):
        """Func for a LambdaExpr stmt inside f"""
        u = st.get('fn')
        for l in self.lambdas_of.get(f.key, []):
            if l.usr == u:
                return l
        return None

    def family(self, f):
        """f plus all (nested) lambdas defined inside it"""
        out = [f]
        for l in self.lambdas_of.get(f.key, []):
            out.extend(self.family(l))
        return out

    def outermost(self, f):
        while f.parent_func is not None:
            f = f.parent_func
        return f

    def derived_classes(self, base):
        out = []
        changed = True
        names = {base}
        while changed:
            changed = False
            for c in self.classes.values():
                if c['name'] not in names and any(b in names for b in c['bases']):
                    names.add(c['name'])
                    out.append(c['name'])
                    changed = True
        return out


# --------------------------------------------------------------------------- compile DB + extraction

def _synth_flags(path):
    mod = path[len(MODULES) + 1:].split('/')[0]
    return ['/usr/bin/c++', '-DMODULE_ID="tbox.%s"' % mod, '-DTBOX_VERSION_MAJOR=1', '-DTBOX_VERSION_MINOR=12',
            '-DTBOX_VERSION_REVISION=5', '-I' + REPO + '/3rd-party', '-I' + REPO + '/modules',
            '-O2', '-g', '-DNDEBUG', '-std=gnu++11', '-c', path]


def _shell_split(cmd):
    import shlex
    return shlex.split(cmd)


def build_compdb(workdir):
    """Compile commands for every non-test unit under /repo/modules that the real build covers.
    Source of truth: ninja's compdb of the existing CMake build tree when present; units that
    exist in the tree but not in the DB get the flags of a sibling of the same module; without
    a build tree the flags are synthesised from the (uniform) CMake flags."""
    entries = {}
    src = 'synthesised'
    # a scratch copy (mutation self-test) borrows the flags of /repo's build tree
    dbroot = REPO if os.path.exists(REPO + '/_build/build.ninja') else '/repo'
    bn = dbroot + '/_build/build.ninja'
    if os.path.exists(bn):
        try:
            out = subprocess.run(['ninja', '-C', dbroot + '/_build', '-t', 'compdb'], capture_output=True, text=True, timeout=60)
            raw = out.stdout
            if dbroot != REPO:
                raw = raw.replace(dbroot + '/', REPO + '/')
            for e in json.loads(raw):
                f = e['file']
                if not f.endswith('.cpp') or f.endswith('_test.cpp') or not f.startswith(MODULES + '/'):
                    continue
                if f in entries or not os.path.exists(f):
                    continue
                args = [a for a in _shell_split(e['command']) if a != '-Werror']
                # drop dependency-file and output options
                clean = []
                skip = 0
                for a in args:
                    if skip:
                        skip -= 1
                        continue
                    if a in ('-MD', '-MMD'):
                        continue
                    if a in ('-MT', '-MF', '-o'):
                        skip = 1
                        continue
                    clean.append(a)
                entries[f] = clean
            src = 'ninja -t compdb'
        except Exception:
            entries = {}
    built_modules = set(f[len(MODULES) + 1:].split('/')[0] for f in entries)
    have_db = bool(entries)
    # units present in the tree but unknown to the DB
    for root, dirs, files in os.walk(MODULES):
        if '/modules/tbox' in root:
            continue
        for fn in files:
            if not fn.endswith('.cpp') or fn.endswith('_test.cpp'):
                continue
            p = os.path.join(root, fn)
            if p in entries:
                continue
            mod = p[len(MODULES) + 1:].split('/')[0]
            if have_db and mod not in built_modules:
                continue  # module not part of the build (e.g. missing system library)
            if not have_db and mod in ('dbus', 'mqtt'):
                continue
            if '/examples/' in p or '/example/' in p:
                continue
            sib = next((entries[f] for f in entries if f.startswith(MODULES + '/' + mod + '/')), None)
            if sib:
                entries[p] = sib[:-1] + [p] if sib[-1].endswith('.cpp') else [a for a in sib if not a.endswith('.cpp')] + [p]
            else:
                entries[p] = _synth_flags(p)
    db = [{'directory': workdir, 'arguments': a, 'file': f} for f, a in sorted(entries.items())]
    return db, src


def _extract_one(args):
    tool, dbdir, src, out, roots = args
    cmd = [tool, '-p', dbdir, '--out=' + out, '--roots=' + roots, src]
    r = subprocess.run(cmd, capture_output=True, text=True)
    if r.returncode != 0 and "undefined template 'nlohmann::basic_json" in r.stderr:
        # g++ accepts a non-dependent use of the forward-declared Json inside a template (variables.h);
        # clang checks it eagerly.  Re-parse with the full json header force-included (same semantics).
        cmd = cmd[:-1] + ['--extra-arg=-include', '--extra-arg=' + REPO + '/3rd-party/nlohmann/json.hpp', src]
        r = subprocess.run(cmd, capture_output=True, text=True)
    return src, out, r.returncode, r.stderr[-2000:]


def extract(units, extra_units=(), roots=None, keep=None):
    """Run tbxfacts on `units` (absolute paths under /repo/modules, or 'ALL') plus
    extra_units = [(path, flags)] (fixtures / instantiation TUs) and return a Program."""
    tool = os.path.join(VERIF, 'build', 'tbxfacts')
    if not os.path.exists(tool):
        raise AnalysisBroken('extractor not built: run ./setup.sh')
    work = tempfile.mkdtemp(prefix='tbxfacts.', dir=os.environ.get('TMPDIR', '/var/tmp'))
    try:
        db, src = build_compdb(work)
        known = {e['file'] for e in db}
        if units == 'ALL':
            todo = sorted(known)
        else:
            todo = []
            for u in units:
                p = u if u.startswith('/') else MODULES + '/' + u
                if p not in known:
                    raise AnalysisBroken('unit %s is not part of the build (file removed or renamed?)' % p)
                todo.append(p)
        rootlist = [MODULES]
        for p, flags in extra_units:
            db.append({'directory': work, 'arguments': ['/usr/bin/c++'] + list(flags) + ['-c', p], 'file': p})
            todo.append(p)
            rootlist.append(os.path.dirname(p))
        if roots:
            rootlist.extend(roots)
        with open(os.path.join(work, 'compile_commands.json'), 'w') as fh:
            json.dump(db, fh)
        jobs = [(tool, work, s, os.path.join(work, 'u%04d.json' % i), ':'.join(rootlist)) for i, s in enumerate(todo)]
        prog = Program()
        prog.compdb_source = src
        with concurrent.futures.ThreadPoolExecutor(max_workers=int(os.environ.get('TBX_JOBS', '16'))) as ex:
            results = list(ex.map(_extract_one, jobs))
        for s, out, rc, err in results:
            if rc != 0 or not os.path.exists(out):
                raise AnalysisBroken('extractor failed on %s: %s' % (s, err.strip()[-600:]))
            with open(out) as fh:
                prog.add_tu(json.load(fh))
        if prog.parse_errors:
            raise AnalysisBroken('units with parse errors: %s' % ', '.join(prog.parse_errors))
        prog.finish()
        prog.units = todo
        prog.realiased = 0
        if not os.environ.get('TBX_NO_ALIAS'):
            from . import names
            prog.realiased = names.apply(prog)
        return prog
    finally:
        if keep:
            shutil.copytree(work, keep, dirs_exist_ok=True)
        shutil.rmtree(work, ignore_errors=True)
