"""Linear (affine) constant propagation over a function's CFG and a sign decision for affine forms.

Values are affine forms  c0 + sum(ci * sym_i)  over *entry* symbols (the fields of `this` at function entry,
parameters, fields of other objects) — the classic "linear constant propagation" dataflow: joins keep a
variable only if both sides carry the same form.  Pointers are (base, offset-form).  No paths are enumerated
and nothing is handed to a solver: an obligation `form >= 0` is decided by rewriting the chain-ordered
symbols into non-negative slacks (R0 = x0, W0 = x0 + x1, S0 = x0 + x1 + x2) and looking at coefficient signs,
optionally after subtracting dominating guard facts.
"""
from fractions import Fraction
from . import q


class Aff:
    __slots__ = ('c', 't')

    def __init__(self, c=0, t=None):
        self.c = Fraction(c)
        self.t = {k: Fraction(v) for k, v in (t or {}).items() if v != 0}

    @staticmethod
    def sym(name):
        return Aff(0, {name: 1})

    def __add__(self, o):
        t = dict(self.t)
        for k, v in o.t.items():
            t[k] = t.get(k, 0) + v
        return Aff(self.c + o.c, t)

    def __sub__(self, o):
        return self + o.scale(-1)

    def scale(self, k):
        return Aff(self.c * k, {s: v * k for s, v in self.t.items()})

    def is_const(self):
        return not self.t

    def subst(self, mapping):
        """replace symbols by affine forms (mapping: symbol -> Aff)"""
        out = Aff(self.c)
        for s_, v in self.t.items():
            if s_ in mapping and isinstance(mapping[s_], Aff):
                out = out + mapping[s_].scale(v)
            else:
                out = out + Aff(0, {s_: v})
        return out

    def __eq__(self, o):
        return isinstance(o, Aff) and self.c == o.c and self.t == o.t

    def __hash__(self):
        return hash((self.c, tuple(sorted(self.t.items()))))

    def __repr__(self):
        parts = []
        for s, v in sorted(self.t.items()):
            parts.append(('%s' % s) if v == 1 else ('-%s' % s) if v == -1 else '%s*%s' % (v, s))
        if self.c != 0 or not parts:
            parts.append(str(self.c))
        return ' + '.join(parts).replace('+ -', '- ')


class Ptr:
    __slots__ = ('base', 'off')

    def __init__(self, base, off):
        self.base, self.off = base, off

    def __eq__(self, o):
        return isinstance(o, Ptr) and self.base == o.base and self.off == o.off

    def __hash__(self):
        return hash((self.base, self.off))

    def __repr__(self):
        return '%s+(%r)' % (self.base, self.off)


TOP = None


class Evaluator:
    """evaluates expressions of function f over an environment {key: Aff|Ptr}; keys: ('f', field name) for fields of
    `this`, ('v', decl id) for locals/params.  `fields` maps the class's field names to entry symbol names."""

    def __init__(self, prog, f, cls, field_syms, ptr_fields=(), accessors=True):
        self.prog, self.f, self.cls = prog, f, cls
        self.field_syms = field_syms
        self.ptr_fields = set(ptr_fields)
        self.accessors = accessors
        self.allocs = {}      # base name -> capacity Aff

    def entry_env(self):
        env = {}
        cls = self.prog.classes.get(self.cls, {})
        initv = {fd['n']: fd.get('initv', 'none') for fd in cls.get('fields', []) if fd.get('hasinit')}
        for n, s in self.field_syms.items():
            if self.f.d.get('ctor') and n in initv and not any(i.get('field') == n and i.get('written') for i in self.f.d.get('inits', ())):
                # a constructor starts from the default member initialisers
                env[('f', n)] = Ptr('null', Aff(0)) if n in self.ptr_fields else (Aff(initv[n]) if isinstance(initv[n], int) else TOP)
                continue
            env[('f', n)] = Ptr(s, Aff(0)) if n in self.ptr_fields else Aff.sym(s)
        for p in self.f.params:
            ct = p['ct']
            if '*' in ct:
                env[('v', p['d'])] = Ptr('param:' + p['n'], Aff(0))
            elif ct.replace('const ', '') in ('unsigned long', 'unsigned int', 'unsigned short', 'unsigned char', 'int', 'long', 'short'):
                env[('v', p['d'])] = Aff.sym(p['n'])
        return env

    # ---- expressions -------------------------------------------------------
    def ev(self, e, env, f=None, this_env=None, other=None):
        f = f or self.f
        if e is None or e < 0:
            return TOP
        st = f.stmts[e]
        k = st['k']
        if 'cv' in st and k not in ('DeclRefExpr',):
            return Aff(st['cv'])
        if k in ('ParenExpr', 'ImplicitCastExpr', 'CStyleCastExpr', 'CXXStaticCastExpr', 'CXXReinterpretCastExpr', 'CXXFunctionalCastExpr',
                 'ExprWithCleanups', 'MaterializeTemporaryExpr', 'CXXBindTemporaryExpr', 'ConstantExpr'):
            return self.ev(st['ch'][0], env, f, this_env, other) if st['ch'] else TOP
        if k == 'CXXNullPtrLiteralExpr' or k == 'GNUNullExpr':
            return Ptr('null', Aff(0))
        if k == 'DeclRefExpr':
            if 'cv' in st:
                return Aff(st['cv'])
            return env.get(('v', st.get('d')), TOP)
        if k == 'MemberExpr' and st.get('mk') == 'field':
            base = f.s(f.strip_casts(st['ch'][0])) if st['ch'] else None
            if base is None or base['k'] == 'CXXThisExpr':
                src = this_env if this_env is not None else env
                return src.get(('f', st['n']), TOP)
            if base['k'] == 'DeclRefExpr':
                # field of another object of the same class (e.g. `other.read_index_`): a symbol of that object
                nm = base.get('n')
                if st['n'] in self.ptr_fields:
                    return Ptr('%s.%s' % (nm, st['n']), Aff(0))
                return Aff.sym('%s.%s' % (nm, st['n']))
            return TOP
        if k == 'BinaryOperator':
            op = st.get('op')
            a, b = st['ch']
            if op in ('+', '-'):
                va, vb = self.ev(a, env, f, this_env, other), self.ev(b, env, f, this_env, other)
                if isinstance(va, Ptr) and isinstance(vb, Aff):
                    return Ptr(va.base, va.off + (vb if op == '+' else vb.scale(-1)))
                if isinstance(vb, Ptr) and isinstance(va, Aff) and op == '+':
                    return Ptr(vb.base, vb.off + va)
                if isinstance(va, Aff) and isinstance(vb, Aff):
                    return va + vb if op == '+' else va - vb
                if isinstance(va, Ptr) and isinstance(vb, Ptr) and op == '-' and va.base == vb.base:
                    return va.off - vb.off
                return TOP
            if op in ('*', '<<'):
                va, vb = self.ev(a, env, f, this_env, other), self.ev(b, env, f, this_env, other)
                if isinstance(va, Aff) and isinstance(vb, Aff):
                    if op == '<<' and vb.is_const() and 0 <= vb.c < 63:
                        return va.scale(2 ** int(vb.c))
                    if op == '*' and vb.is_const():
                        return va.scale(vb.c)
                    if op == '*' and va.is_const():
                        return vb.scale(va.c)
                return TOP
            if op == ',':
                return self.ev(b, env, f, this_env, other)
            if op == '=':
                # value of an (already executed) inner assignment = current value of its target
                return self.ev(a, env, f, this_env, other)
            return TOP
        if k == 'ConditionalOperator':
            # (p != nullptr) ? (p + x) : nullptr   -> the non-null arm (null buffers carry no bytes)
            t_, e_ = self.ev(st['ch'][1], env, f, this_env, other), self.ev(st['ch'][2], env, f, this_env, other)
            if isinstance(e_, Ptr) and e_.base == 'null':
                return t_
            if isinstance(t_, Ptr) and t_.base == 'null':
                return e_
            return t_ if t_ == e_ else TOP
        if k == 'CXXMemberCallExpr' and self.accessors:
            # inline accessor of the same class with a single return statement: evaluate its body for the receiver
            tg = [g for g in self.prog.by_usr.get(st.get('usr'), ()) if not g.parent_usr]
            if tg and st.get('cls') == self.cls and st.get('mconst'):
                g = tg[0]
                rets = q.returns(g)
                if len(rets) == 1 and rets[0].get('val') is not None and len([x for x in g.stmts if x and x['k'] in ('ReturnStmt',)]) == 1:
                    obj = f.s(f.strip_casts(st.get('obj', -1))) if 'obj' in st else None
                    if obj is None or obj['k'] == 'CXXThisExpr':
                        recv = this_env if this_env is not None else env
                    elif obj['k'] == 'DeclRefExpr':
                        nm = obj.get('n')
                        recv = {('f', n): (Ptr('%s.%s' % (nm, n), Aff(0)) if n in self.ptr_fields else Aff.sym('%s.%s' % (nm, n))) for n in self.field_syms}
                    else:
                        return TOP
                    return self.ev(rets[0]['val'], {}, g, recv, other)
            return TOP
        return TOP

    # ---- statements ----------------------------------------------------------
    def assign(self, lhs, val, env, f=None):
        f = f or self.f
        l = f.s(f.strip_casts(lhs))
        env = dict(env)
        if l is None:
            return env
        if l['k'] == 'DeclRefExpr' and l.get('dk') in ('Var', 'ParmVar'):
            env[('v', l['d'])] = val
        elif l['k'] == 'MemberExpr' and l.get('mk') == 'field':
            base = f.s(f.strip_casts(l['ch'][0])) if l['ch'] else None
            if base is None or base['k'] == 'CXXThisExpr':
                env[('f', l['n'])] = val
        return env

    def transfer(self, pt, e, env, events):
        f = self.f
        if e[0] != 'S' or env is None:
            return env
        st = f.stmts[e[1]]
        k = st['k']
        if k == 'DeclStmt':
            env = dict(env)
            for d in st['decls']:
                if 'init' in d:
                    init = f.s(f.strip_casts(d['init']))
                    if init is not None and init['k'] == 'CXXNewExpr':
                        base = 'new@%d' % init['l']
                        cap = self.ev(init['ch'][0], env) if init['ch'] else TOP
                        self.allocs[base] = cap
                        env[('v', d['d'])] = Ptr(base, Aff(0))
                    else:
                        env[('v', d['d'])] = self.ev(d['init'], env)
                elif d.get('d') is not None:
                    env[('v', d['d'])] = TOP
            return env
        if k == 'BinaryOperator' and st.get('op') == '=':
            rhs = f.s(f.strip_casts(st['ch'][1]))
            if rhs is not None and rhs['k'] == 'CXXNewExpr':
                base = 'new@%d' % rhs['l']
                self.allocs[base] = self.ev(rhs['ch'][0], env) if rhs['ch'] else TOP
                return self.assign(st['ch'][0], Ptr(base, Aff(0)), env)
            return self.assign(st['ch'][0], self.ev(st['ch'][1], env), env)
        if k == 'CompoundAssignOperator' and st.get('op') in ('+=', '-='):
            cur = self._value_of_lvalue(st['ch'][0], env)
            rhs = self.ev(st['ch'][1], env)
            if isinstance(cur, Aff) and isinstance(rhs, Aff):
                return self.assign(st['ch'][0], cur + rhs if st['op'] == '+=' else cur - rhs, env)
            if isinstance(cur, Ptr) and isinstance(rhs, Aff):
                return self.assign(st['ch'][0], Ptr(cur.base, cur.off + (rhs if st['op'] == '+=' else rhs.scale(-1))), env)
            return self.assign(st['ch'][0], TOP, env)
        if k == 'UnaryOperator' and st.get('op') in ('++', '--'):
            cur = self._value_of_lvalue(st['ch'][0], env)
            if isinstance(cur, Aff):
                return self.assign(st['ch'][0], cur + Aff(1 if st['op'] == '++' else -1), env)
            return self.assign(st['ch'][0], TOP, env)
        if k == 'CallExpr':
            callee = st.get('callee', '')
            if callee in ('memcpy', 'memmove') and len(st.get('args', [])) == 3:
                a = st['args']
                events.append({'kind': callee, 'stmt': st, 'pt': pt, 'dst': self.ev(a[0], env), 'src': self.ev(a[1], env), 'len': self.ev(a[2], env), 'env': env})
                return env
            if callee.startswith('std::swap') and len(st.get('args', [])) == 2:
                a, b = st['args']
                va, vb = self._value_of_lvalue(a, env), self._value_of_lvalue(b, env)
                if va is TOP:
                    va = self.ev(a, env)
                if vb is TOP:
                    vb = self.ev(b, env)
                env = self.assign(a, vb, env)
                env = self.assign(b, va, env)
                return env
            return env
        if k == 'CXXMemberCallExpr':
            # a non-const method on `this` may change every field
            if st.get('cls') == self.cls and not st.get('mconst') and ('obj' not in st or (f.s(f.strip_casts(st['obj'])) or {}).get('k') == 'CXXThisExpr'):
                env = dict(env)
                events.append({'kind': 'selfcall', 'stmt': st, 'pt': pt, 'env': env})
                for n in self.field_syms:
                    env[('f', n)] = TOP
            return env
        return env

    def _value_of_lvalue(self, lhs, env):
        return self.ev(lhs, env)

    def run(self, fresh_fields=()):
        """forward analysis.  At a merge where the incoming values of a tracked field (names in fresh_fields) differ, the field
        gets a *fresh symbol* named after the field and the block (`read_index_@b7`) instead of TOP, so that later statements
        stay affine; whether the class invariant may be assumed for those symbols is decided by the caller from the
        per-edge states (edge_ends).  Other variables join to TOP when they differ."""
        f = self.f
        cfg = f.cfg
        fresh_order = list(fresh_fields)
        fresh_fields = set(fresh_fields)
        order = []
        seen = set()

        def dfs(b):
            seen.add(b)
            for s_ in cfg.blocks[b].succ:
                if s_ is not None and s_ not in seen:
                    dfs(s_)
            order.append(b)
        dfs(cfg.entry)
        order.reverse()
        inn = {cfg.entry: self.entry_env()}
        out_end = {}
        self.merges = {}
        scratch = []
        for _round in range(6):
            changed = False
            for b in order:
                blk = cfg.blocks[b]
                if b != cfg.entry:
                    preds = [p for p in blk.pred if p in out_end]
                    if not preds:
                        continue
                    envs = [out_end[p] for p in preds]
                    keys = set()
                    for e_ in envs:
                        keys |= set(e_)
                    new = {}
                    fresh = []
                    ordered = sorted(keys, key=lambda k: (k[0] != 'f', fresh_order.index(k[1]) if (k[0] == 'f' and k[1] in fresh_order) else 99, str(k)))
                    for k in ordered:
                        vals = [e_.get(k, TOP) for e_ in envs]
                        nonnull = [v for v in vals if not (isinstance(v, Ptr) and v.base == 'null')]
                        if all(v is not TOP and v == vals[0] for v in vals):
                            new[k] = vals[0]
                        elif k[0] == 'v' and all(isinstance(v, Ptr) for v in vals) and nonnull and all(v == nonnull[0] for v in nonnull):
                            # a local pointer that is null on some edges and one block on the others: the block (a null storage carries no bytes,
                            # the same convention as for `p ? p + x : nullptr`)
                            new[k] = nonnull[0]
                        elif k[0] == 'f' and k[1] in fresh_fields:
                            name = '%s@b%d' % (k[1], b)
                            rel = None
                            if k[1] not in self.ptr_fields and all(isinstance(v, Aff) for v in vals):
                                # keep the field relative to an earlier (already merged) field when the difference agrees on all edges
                                for k2 in ordered:
                                    if k2 == k:
                                        break
                                    if k2[0] != 'f' or k2[1] in self.ptr_fields or not isinstance(new.get(k2), Aff):
                                        continue
                                    v2 = [e_.get(k2, TOP) for e_ in envs]
                                    if all(isinstance(x, Aff) for x in v2):
                                        diffs = [a_ - b_ for a_, b_ in zip(vals, v2)]
                                        if all(d_ == diffs[0] for d_ in diffs):
                                            rel = new[k2] + diffs[0]
                                            break
                            if rel is not None:
                                new[k] = rel
                            else:
                                new[k] = Ptr(name, Aff(0)) if k[1] in self.ptr_fields else Aff.sym(name)
                                fresh.append(k[1])
                        else:
                            new[k] = TOP
                    if fresh:
                        self.merges[b] = sorted(fresh)
                    if inn.get(b) != new:
                        inn[b] = new
                        changed = True
                env = inn.get(b)
                if env is None:
                    continue
                for i, e in enumerate(blk.el):
                    env = self.transfer((b, i), e, env, scratch)
                if out_end.get(b) != env:
                    out_end[b] = env
                    changed = True
            if not changed:
                break
        before = {}
        events = []
        self.allocs = dict(self.allocs)
        for b in order:
            env = inn.get(b)
            if env is None:
                continue
            blk = cfg.blocks[b]
            for i, e in enumerate(blk.el):
                before[(b, i)] = env
                env = self.transfer((b, i), e, env, events)
            before[(b, len(blk.el))] = env
        self.out_end = out_end
        return inn, before, events

    def edge_ends(self, before):
        """states at the end of every block that flows into a merge block or the exit: (pred, succ, env, facts).
        facts = dominating guards of the block end + the condition of the edge itself."""
        f = self.f
        cfg = f.cfg
        out = []
        for b, blk in cfg.blocks.items():
            env = self.out_end.get(b)
            if env is None:
                continue
            for k, s_ in enumerate(blk.succ):
                if s_ is None:
                    continue
                sb = cfg.blocks[s_]
                if s_ != cfg.exit and len([p for p in sb.pred if p in self.out_end]) < 2:
                    continue
                endp = (b, len(blk.el))
                facts = guard_facts(self, f, (b, max(len(blk.el) - 1, 0)) if blk.el else endp, before)
                if blk.cond is not None and len(blk.succ) == 2:
                    facts = facts + cond_facts(self, f, blk.cond, k, before.get(endp) or env)
                out.append((b, s_, env, facts))
        return out


def cond_facts(ev, f, cond, k, env):
    cs = f.s(f.strip_casts(cond))
    if not cs or cs['k'] != 'BinaryOperator' or cs.get('op') not in ('<', '<=', '>', '>=', '==', '!='):
        return []
    a, bb = ev.ev(cs['ch'][0], env), ev.ev(cs['ch'][1], env)
    if not isinstance(a, Aff) or not isinstance(bb, Aff):
        return []
    op = cs['op']
    if k == 1:
        op = {'<': '>=', '<=': '>', '>': '<=', '>=': '<', '==': '!=', '!=': '=='}[op]
    if op == '>=':
        return [a - bb]
    if op == '>':
        return [a - bb - Aff(1)]
    if op == '<=':
        return [bb - a]
    if op == '<':
        return [bb - a - Aff(1)]
    if op == '==':
        return [a - bb, bb - a]
    return []


# ---- sign decision ---------------------------------------------------------------------

def to_slacks(form, chains):
    """rewrite chain-ordered symbols into non-negative slack variables.  chains: list of symbol tuples (a <= b <= c ...)."""
    out = Aff(form.c)
    done = set()
    for ch in chains:
        for i, s in enumerate(ch):
            done.add(s)
            co = form.t.get(s, 0)
            if co == 0:
                continue
            for j in range(i + 1):
                out = out + Aff(0, {'slack:%s:%d' % (ch[0], j): co})
    for s, co in form.t.items():
        if s not in done:
            out = out + Aff(0, {s: co})
    return out


def nonneg(form, chains, facts=(), depth=2):
    """is `form >= 0` for all non-negative values of the (slack / free) symbols?  optionally using known facts g >= 0."""
    if not isinstance(form, Aff):
        return False
    sf = to_slacks(form, chains)
    if sf.c >= 0 and all(v >= 0 for v in sf.t.values()):
        return True
    if depth > 0:
        for g in facts:
            if isinstance(g, Aff) and nonneg(form - g, chains, facts, depth - 1):
                return True
    return False


def guard_facts(ev, f, p, before):
    """affine facts (g >= 0) from the dominating guards of point p, each evaluated in the environment at the guard"""
    facts = []
    if p is None:
        return facts
    for cond, k, b in f.cfg.controlling_branches(p):
        cp = f.cfg.point_of(cond)
        env = before.get(cp)
        if env is None:
            continue
        facts += cond_facts(ev, f, cond, k, env)
    return facts
