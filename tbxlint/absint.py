"""Interval abstract interpretation of the integer locals of one function (classic forward analysis over the clang CFG with
widening at loop heads and refinement on branch conditions).  No path enumeration, nothing is executed.

state: {decl id: (lo, hi)}; a local that is absent is "any value of its type".  Expressions are evaluated *exactly* (no
wrap-around): `arith(e)` returns the mathematical interval of e's operands combined, so callers can ask whether an addition can
leave the range of its type.  Wrap-around is applied only when a value is stored back into a variable."""
from . import q
from .ival import type_range, ctype

WIDEN_AFTER = 4


def _tr(st):
    return type_range(ctype(st))


class Interp:
    def __init__(self, f):
        self.f = f
        self.cfg = f.cfg
        self.types = {}         # decl -> type range
        for p in f.params:
            tr = type_range(p.get('ct') or p.get('t') or '')
            if tr:
                self.types[p['d']] = tr
        for st in f.stmts:
            if st and st['k'] == 'DeclStmt':
                for d in st.get('decls', ()):
                    tr = type_range(d.get('ct') or d.get('t') or '')
                    if tr and d.get('dk') == 'Var':
                        self.types[d['d']] = tr
        # locals whose address escapes (or that are bound to a non-const reference) are not tracked
        from .locks import classify_access
        self.escaped = set()
        for st in f.stmts:
            if st and st['k'] == 'DeclRefExpr' and st.get('d') in self.types:
                par = f.s(f.parent.get(st['i']))
                if par and par['k'] == 'UnaryOperator' and par.get('op') == '&':
                    self.escaped.add(st['d'])
                elif classify_access(f, st['i']) == 'w':
                    # written: must be through one of the forms the transfer function knows
                    top = st['i']
                    while True:
                        pp = f.parent.get(top)
                        ps = f.s(pp) if pp is not None else None
                        if ps is None or ps['k'] not in ('ParenExpr', 'ImplicitCastExpr'):
                            break
                        top = pp
                    ok = ps is not None and ((ps['k'] in ('BinaryOperator', 'CompoundAssignOperator') and ps['ch'][0] == top and ps.get('op', '').endswith('=')) or
                                             (ps['k'] == 'UnaryOperator' and ps.get('op') in ('++', '--')))
                    if not ok:
                        self.escaped.add(st['d'])
        self.before = {}
        self.inn = {}
        # widening happens only at loop heads, to the next threshold (constants compared against in the function, +-1)
        self.heads = set(t for (s_, t) in self.cfg.back_edges())
        th = set()
        for st in f.stmts:
            if st and st['k'] == 'BinaryOperator' and st.get('op') in ('<', '<=', '>', '>=', '==', '!='):
                for c in st['ch']:
                    x = f.s(f.strip_casts(c))
                    if x is not None and x.get('cv') is not None:
                        th.update((x['cv'] - 1, x['cv'], x['cv'] + 1))
        self.thresholds = sorted(th)

    # ---- expression evaluation ------------------------------------------------------------------
    def var(self, env, d):
        if d in self.escaped or d not in self.types:
            return self.types.get(d)
        return env.get(d, self.types[d])

    def arith(self, env, e, depth=0):
        """mathematical interval of expression e in env (None = unknown)"""
        f = self.f
        if e is None or e < 0 or depth > 12:
            return None
        st = f.stmts[e]
        if 'cv' in st and st['cv'] is not None:
            return (st['cv'], st['cv'])
        k = st['k']
        tr = _tr(st)
        if k in ('ParenExpr', 'ExprWithCleanups', 'MaterializeTemporaryExpr', 'ConstantExpr', 'CXXBindTemporaryExpr'):
            return self.arith(env, st['ch'][0], depth + 1)
        if k in ('ImplicitCastExpr', 'CStyleCastExpr', 'CXXStaticCastExpr', 'CXXFunctionalCastExpr'):
            if not st['ch']:
                return tr
            inner = self.arith(env, st['ch'][0], depth + 1)
            if st.get('ck') in ('LValueToRValue', 'NoOp'):
                return inner if inner is not None else tr
            if inner is None or tr is None:
                return tr
            return inner if (inner[0] >= tr[0] and inner[1] <= tr[1]) else tr
        if k == 'DeclRefExpr' and st.get('dk') in ('Var', 'ParmVar') and not st.get('gl'):
            return self.var(env, st['d']) or tr
        if k == 'BinaryOperator' or k == 'CompoundAssignOperator':
            op = st.get('op')
            if k == 'CompoundAssignOperator':
                op = op[:-1]
            a, b = st['ch']
            ia, ib = self.arith(env, a, depth + 1), self.arith(env, b, depth + 1)
            if op == '&':
                cands = [iv[1] for iv in (ia, ib) if iv is not None and iv[0] >= 0]
                return (0, min(cands)) if cands else tr
            if op in ('|', '^'):
                if ia is not None and ib is not None and ia[0] >= 0 and ib[0] >= 0:
                    return (0, (1 << max(ia[1], ib[1]).bit_length()) - 1)
                return tr
            if op == '>>':
                if ia is not None and ib is not None and ia[0] >= 0 and ib[0] == ib[1] and ib[0] >= 0:
                    return (ia[0] >> ib[0], ia[1] >> ib[0])
                return tr
            if op == '<<':
                if ia is not None and ib is not None and ia[0] >= 0 and ib[0] == ib[1] and 0 <= ib[0] < 64:
                    return (ia[0] << ib[0], ia[1] << ib[0])
                return None
            if op == '%':
                if ib is not None and ib[0] == ib[1] and ib[0] > 0 and ia is not None and ia[0] >= 0:
                    return (0, min(ia[1], ib[0] - 1))
                return tr
            if op == '/':
                if ib is not None and ib[0] == ib[1] and ib[0] > 0 and ia is not None and ia[0] >= 0:
                    return (ia[0] // ib[0], ia[1] // ib[0])
                return tr
            if op in ('+', '-', '*'):
                if ia is None or ib is None:
                    return None
                if op == '+':
                    return (ia[0] + ib[0], ia[1] + ib[1])
                if op == '-':
                    return (ia[0] - ib[1], ia[1] - ib[0])
                c = [ia[0] * ib[0], ia[0] * ib[1], ia[1] * ib[0], ia[1] * ib[1]]
                return (min(c), max(c))
            if op in ('<', '>', '<=', '>=', '==', '!=', '&&', '||'):
                return (0, 1)
            if op == ',':
                return ib
            if op == '':      # plain '=' handled by caller
                return ib
            return tr
        if k == 'UnaryOperator':
            if st.get('op') == '!':
                return (0, 1)
            if st.get('op') == '-':
                i = self.arith(env, st['ch'][0], depth + 1)
                return (-i[1], -i[0]) if i else tr
            return tr
        if k == 'CallExpr' and (st.get('callee') or '').split('<')[0] in ('std::min', 'std::max') and len(st.get('args', ())) == 2:
            a, b = self.arith(env, st['args'][0], depth + 1), self.arith(env, st['args'][1], depth + 1)
            if a is None or b is None:
                return tr
            if st['callee'].startswith('std::min'):
                return (min(a[0], b[0]), min(a[1], b[1]))
            return (max(a[0], b[0]), max(a[1], b[1]))
        if k == 'ConditionalOperator':
            a, b = self.arith(env, st['ch'][1], depth + 1), self.arith(env, st['ch'][2], depth + 1)
            if a is None or b is None:
                return tr
            return (min(a[0], b[0]), max(a[1], b[1]))
        return tr

    @staticmethod
    def fit(iv, tr):
        """value after storing iv into a variable of range tr (modular wrap = anything)"""
        if tr is None:
            return iv
        if iv is None or iv[0] < tr[0] or iv[1] > tr[1]:
            return tr
        return iv

    # ---- transfer -------------------------------------------------------------------------------
    def _lhs_decl(self, e):
        x = self.f.s(self.f.strip_casts(e))
        if x and x['k'] == 'DeclRefExpr' and x.get('d') in self.types and x['d'] not in self.escaped:
            return x['d']
        return None

    def transfer(self, env, st):
        f = self.f
        k = st['k']
        if k == 'DeclStmt':
            env = dict(env)
            for d in st.get('decls', ()):
                if d.get('d') in self.types and d['d'] not in self.escaped:
                    iv = self.arith(env, d['init']) if d.get('init') is not None else None
                    env[d['d']] = self.fit(iv, self.types[d['d']]) if d.get('init') is not None else self.types[d['d']]
            return env
        if k in ('BinaryOperator', 'CompoundAssignOperator') and st.get('op', '').endswith('=') and st['op'] not in ('==', '!=', '<=', '>='):
            d = self._lhs_decl(st['ch'][0])
            if d is not None:
                env = dict(env)
                iv = self.arith(env, st['ch'][1]) if st['op'] == '=' else self.arith(env, st['i'])
                env[d] = self.fit(iv, self.types[d])
            return env
        if k == 'UnaryOperator' and st.get('op') in ('++', '--'):
            d = self._lhs_decl(st['ch'][0])
            if d is not None:
                env = dict(env)
                cur = self.var(env, d)
                delta = 1 if st['op'] == '++' else -1
                env[d] = self.fit((cur[0] + delta, cur[1] + delta), self.types[d])
            return env
        return env

    # ---- branch refinement ----------------------------------------------------------------------
    def refine(self, env, cond, taken):
        """env restricted to the executions where `cond` evaluates to `taken` (True/False); None = infeasible"""
        f = self.f
        cs = f.s(f.strip_casts(cond))
        if cs is None:
            return env
        while cs['k'] == 'UnaryOperator' and cs.get('op') == '!':
            taken = not taken
            cs = f.s(f.strip_casts(cs['ch'][0]))
            if cs is None:
                return env
        if cs['k'] == 'DeclRefExpr':
            d = self._lhs_decl(cs['i'])
            if d is not None:
                return self._cmp(env, d, '!=' if taken else '==', (0, 0))
            return env
        if cs['k'] != 'BinaryOperator' or cs.get('op') not in ('<', '<=', '>', '>=', '==', '!='):
            return env
        op = cs['op']
        if not taken:
            op = {'<': '>=', '<=': '>', '>': '<=', '>=': '<', '==': '!=', '!=': '=='}[op]
        l, r = cs['ch']
        out = env
        dl, dr = self._lhs_decl(l), self._lhs_decl(r)
        il, ir = self.arith(env, l), self.arith(env, r)
        if dl is not None and ir is not None:
            out = self._cmp(out, dl, op, ir)
            if out is None:
                return None
        if dr is not None and il is not None:
            out = self._cmp(out, dr, {'<': '>', '<=': '>=', '>': '<', '>=': '<=', '==': '==', '!=': '!='}[op], il)
            if out is None:
                return None
        # (x & HIGHMASK) == 0  /  (x >> k) == 0   =>  x <= low bits
        for side, other in ((l, ir), (r, il)):
            ss = f.s(f.strip_casts(side))
            if ss and ss['k'] == 'BinaryOperator' and other == (0, 0) and op == '==':
                a, b = ss['ch']
                d = self._lhs_decl(a)
                c = f.s(f.strip_casts(b)).get('cv') if f.s(f.strip_casts(b)) else None
                if d is not None and c is not None and self.types[d][0] == 0:
                    if ss.get('op') == '>>' and c >= 0:
                        out = self._cmp(out, d, '<=', ((1 << c) - 1, (1 << c) - 1))
                    elif ss.get('op') == '&' and c > 0:
                        # all bits at and above the lowest set bit of the mask that are covered contiguously up to the type's top
                        low = (c & -c)
                        top = self.types[d][1]
                        if (c | (low - 1)) >= top:
                            out = self._cmp(out, d, '<=', (low - 1, low - 1))
                    if out is None:
                        return None
        return out

    def _cmp(self, env, d, op, iv):
        cur = self.var(env, d)
        lo, hi = cur
        if op == '<':
            hi = min(hi, iv[1] - 1)
        elif op == '<=':
            hi = min(hi, iv[1])
        elif op == '>':
            lo = max(lo, iv[0] + 1)
        elif op == '>=':
            lo = max(lo, iv[0])
        elif op == '==':
            lo, hi = max(lo, iv[0]), min(hi, iv[1])
        elif op == '!=':
            if iv[0] == iv[1]:
                if lo == iv[0]:
                    lo += 1
                if hi == iv[0]:
                    hi -= 1
        if lo > hi:
            return None
        out = dict(env)
        out[d] = (lo, hi)
        return out

    # ---- fixpoint -------------------------------------------------------------------------------
    def run(self):
        cfg = self.cfg
        inn = {cfg.entry: {}}
        visits = {}
        work = [cfg.entry]
        before = {}
        guard = 0
        while work:
            guard += 1
            if guard > 20000:
                raise RuntimeError('interval analysis did not converge')
            bid = work.pop(0)
            env = inn[bid]
            b = cfg.blocks[bid]
            for i, e in enumerate(b.el):
                before[(bid, i)] = env
                if e[0] == 'S':
                    st = self.f.s(e[1])
                    if st is not None:
                        env = self.transfer(env, st)
            before[(bid, len(b.el))] = env
            succs = [s for s in b.succ]
            for k, s in enumerate(succs):
                if s is None:
                    continue
                out = env
                if b.cond is not None and len([x for x in succs if x is not None]) >= 2 and k in (0, 1):
                    out = self.refine(env, b.cond, k == 0)
                    if out is None:
                        continue
                if s not in inn:
                    inn[s] = out
                    work.append(s)
                    continue
                old = inn[s]
                visits[s] = visits.get(s, 0) + 1
                new = {}
                for d in set(old) & set(out):
                    lo, hi = min(old[d][0], out[d][0]), max(old[d][1], out[d][1])
                    if s in self.heads and visits[s] > WIDEN_AFTER and (lo, hi) != old[d]:
                        tr = self.types[d]
                        if lo < old[d][0]:
                            below = [t for t in self.thresholds if t <= lo and t >= tr[0]]
                            lo = below[-1] if below and visits[s] <= 3 * WIDEN_AFTER else tr[0]
                        if hi > old[d][1]:
                            above = [t for t in self.thresholds if t >= hi and t <= tr[1]]
                            hi = above[0] if above and visits[s] <= 3 * WIDEN_AFTER else tr[1]
                    if (lo, hi) != self.types[d]:
                        new[d] = (lo, hi)
                if new != old:
                    inn[s] = new
                    if s not in work:
                        work.append(s)
        self.inn, self.before = inn, before
        return self

    def at(self, sid):
        """environment just before the CFG element of statement sid"""
        p = self.cfg.point_of(sid)
        return self.before.get(p) if p is not None else None
