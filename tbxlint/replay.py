"""Finite replay of small handlers: an interpreter over the AST of one function for a handful of tracked integer variables (named by their
member/variable name), used to check index protocols over a small grid of start states.

Supported: compound statements, if/else, return, while (bounded), ++/--, =, +=, -= on tracked variables, conditions and right-hand sides folded with
q.eval_expr (tracked variables and caller-supplied opaque values as leaves).  Everything else is skipped — a statement that mentions a tracked variable
in a way the interpreter does not understand raises AnalysisBroken, so nothing is silently mis-replayed.  Nothing of the repository runs: this is constant
folding along the syntax tree."""
from .facts import AnalysisBroken
from . import q


class Stop(Exception):
    pass


class Replay:
    def __init__(self, f, tracked, opaque=None, on_access=None, max_steps=200):
        """tracked: {name: value}; opaque(stmt) -> value|None for reads that are inputs (e.g. a size() call); on_access(stmt, container_path, index_value)"""
        self.f, self.state, self.opaque, self.on_access = f, dict(tracked), opaque, on_access
        self.steps, self.max_steps = 0, max_steps
        self.wrapped = None

    def _name(self, sx):
        if sx['k'] in ('MemberExpr', 'DeclRefExpr') and sx.get('n') in self.state:
            return sx['n']
        return None

    def leaf(self, sx):
        n = self._name(sx)
        if n is not None:
            return self.state[n]
        if self.opaque is not None:
            return self.opaque(sx)
        return None

    def ev(self, e):
        return q.eval_expr(self.f, e, self.leaf, signed=True)

    def mentions(self, e):
        return any(self._name(self.f.stmts[x]) for x in self.f.walk(e))

    def accesses(self, e):
        f = self.f
        for x in f.walk(e):
            sx = f.stmts[x]
            if sx['k'] in q.CALL_KINDS and sx.get('fn') in ('operator[]', 'at') and sx.get('obj') is not None and sx.get('args') and self.on_access is not None:
                if self.mentions(sx['args'][0]) or (self.opaque is not None and any(self.opaque(f.stmts[y]) is not None for y in f.walk(sx['args'][0]))):
                    self.on_access(sx, f.path(sx['obj']), self.ev(sx['args'][0]))

    def run(self, sid):
        f = self.f
        st = f.s(sid)
        if st is None:
            return
        self.steps += 1
        if self.steps > self.max_steps:
            raise AnalysisBroken('%s: replay does not terminate' % f.short)
        k = st['k']
        if k == 'CompoundStmt':
            for c in st['ch']:
                self.run(c)
            return
        if k == 'ReturnStmt':
            if st.get('ch'):
                self.accesses(st['ch'][0])
            raise Stop()
        if k == 'IfStmt':
            self.accesses(st['cond'])
            v = self.ev(st['cond'])
            kids = [c for c in st['ch'] if c != st['cond']]
            then, els = (st.get('then'), st.get('else'))
            if then is None and kids:
                then = kids[0] if kids[0] != st.get('else') else None
            if v is None:
                if self.mentions(st['cond']):
                    raise AnalysisBroken('%s: condition at %s over a tracked variable cannot be folded' % (f.short, f.loc(st['cond'])))
                return      # a branch on something else: its body must not touch the tracked variables
            if v:
                if then is not None:
                    self.run(then)
            elif els is not None:
                self.run(els)
            return
        if k == 'WhileStmt':
            n = 0
            while True:
                v = self.ev(st['cond'])
                if v is None:
                    if self.mentions(st['cond']):
                        raise AnalysisBroken('%s: loop condition at %s cannot be folded' % (f.short, f.loc(st['cond'])))
                    return
                # side effects inside the condition (x--)
                self.effects(st['cond'])
                if not v:
                    return
                n += 1
                if n > 64:
                    raise AnalysisBroken('%s: replayed loop at %s does not terminate' % (f.short, f.loc(st['i'])))
                if st.get('body') is not None:
                    self.run(st['body'])
        self.effects(sid)

    def effects(self, sid):
        """assignments / increments of tracked variables anywhere in the expression statement, in source order; accesses are reported first"""
        f = self.f
        self.accesses(sid)
        for x in f.walk(sid):
            sx = f.stmts[x]
            if sx['k'] == 'UnaryOperator' and sx.get('op') in ('++', '--'):
                n = self._name(f.s(f.strip_casts(sx['ch'][0])) or {'k': ''})
                if n is not None:
                    self.state[n] += 1 if sx['op'] == '++' else -1
                    if self.state[n] < 0 and self.wrapped is None:
                        self.wrapped = (n, f.loc(sx['i']))
            elif sx['k'] in ('BinaryOperator', 'CompoundAssignOperator') and sx.get('op') in ('=', '+=', '-='):
                n = self._name(f.s(f.strip_casts(sx['ch'][0])) or {'k': ''})
                if n is not None:
                    v = self.ev(sx['ch'][1])
                    if v is None:
                        raise AnalysisBroken('%s: value assigned to %s at %s cannot be folded' % (f.short, n, f.loc(sx['i'])))
                    self.state[n] = v if sx['op'] == '=' else (self.state[n] + v if sx['op'] == '+=' else self.state[n] - v)
                    if self.state[n] < 0 and self.wrapped is None:
                        self.wrapped = (n, f.loc(sx['i']))

    def go(self):
        try:
            self.run(self.f.body)
        except Stop:
            pass
        return self.state
