"""Division and remainder by a value that may be zero.  For integers this is undefined behaviour and, on the platforms in question, the death of the process (SIGFPE) — for a
server that parses what clients send, a remote crash.  The rule is a must-guard rule over the typed syntax tree: every integer `/`, `%`, `/=`, `%=` whose divisor is not a
non-zero compile-time constant needs, on every path to it, a test that establishes divisor != 0 (or > 0, >= 1) for the very object divided by, unchanged in between; or the
divisor is a local whose single definition makes it positive by construction (std::max with a positive constant among its arguments, a sum with a positive constant of
unsigned operands)."""
import re
from .facts import AnalysisBroken
from . import q, rd

_NUM = re.compile(r'^-?\d+$')


def _positive_by_construction(f, e, depth=0, visiting=()):
    x = f.s(f.strip_casts(e))
    if x is None or depth > 4:
        return False
    c = q.const_of(f, e)
    if isinstance(c, int):
        return c != 0
    if x['k'] in q.CALL_KINDS and (x.get('callee') or '').startswith('std::max') or (x['k'] in q.CALL_KINDS and x.get('fn') == 'max' and len(x.get('args', ())) == 2):
        return any(_positive_by_construction(f, a, depth + 1, visiting) and isinstance(q.const_of(f, a), int) and q.const_of(f, a) > 0 for a in x.get('args', ())) or \
            all(_positive_by_construction(f, a, depth + 1, visiting) for a in x.get('args', ()))
    if x['k'] == 'UnaryExprOrTypeTraitExpr':
        return True
    if x['k'] == 'BinaryOperator' and x.get('op') == '+' and 'unsigned' in (x.get('ct') or x.get('t') or '') + ' ' + ('unsigned' if 'size_t' in (x.get('t') or '') else ''):
        return any(isinstance(q.const_of(f, a), int) and q.const_of(f, a) > 0 for a in x['ch'])
    if x['k'] == 'ConditionalOperator':
        return _positive_by_construction(f, x['ch'][1], depth + 1, visiting) and _positive_by_construction(f, x['ch'][2], depth + 1, visiting)
    if x['k'] == 'DeclRefExpr' and x.get('dk') == 'Var':
        if x['d'] in visiting:
            return True         # v = max(v, ...): positive if it was (induction over its definitions)
        defs = rd.local_defs(f, x['d'])
        return bool(defs) and all(d['kind'] in ('init', '=') and d['rhs'] is not None and _positive_by_construction(f, d['rhs'], depth + 1, visiting + (x['d'],)) for d in defs)
    return False


def _guarded(f, st, div):
    p = f.cfg.point_of(st['i'])
    path = f.path(div)
    if p is None or not path or path == '?':
        return False
    for cond, k, blk in f.cfg.controlling_branches(p):
        for l, o, r in q.edge_rels(f, cond, k):
            if l != path or not _NUM.match(r or ''):
                continue
            c = int(r)
            ok = (o == '!=' and c == 0) or (o == '>' and c >= 0) or (o == '>=' and c >= 1) or (o == '<' and c <= 0 and False)
            if ok and q.stable(f, path, f.cfg.point_of(cond), p):
                return True
    return False


def rule(ctx, prog, rid, text, file_parts, scanned_floor):
    ctx.rule(rid, text, floor=1)
    scanned = 0
    sites = 0
    for f in prog.funcs.values():
        if f.body is None or not any(part in (f.d.get('file') or '') for part in file_parts):
            continue
        scanned += 1
        for st in f.stmts:
            if not st or st['k'] not in ('BinaryOperator', 'CompoundAssignOperator') or st.get('op') not in ('/', '%', '/=', '%='):
                continue
            t = (st.get('ct') or st.get('t') or '')
            if 'double' in t or 'float' in t or t.startswith('std::chrono'):
                continue
            div = st['ch'][1]
            c = q.const_of(f, div)
            if isinstance(c, int) and c != 0:
                continue
            sites += 1
            ok = _positive_by_construction(f, div) or _guarded(f, st, div)
            ctx.ob(rid, '%s|divisor@%s' % (f.name, f.loc(st['i']).split(':')[-1]), ok,
                   'the divisor %s is shown to be non-zero before the %s' % (f.path(div) or '<expr>', 'division' if '/' in st['op'] else 'remainder') if ok else
                   'the %s by %s is reached without a test that the divisor is not zero: for a value that depends on what the peer sends or on the configuration this is a '
                   'division by zero — the process dies (SIGFPE)' % ('division' if '/' in st['op'] else 'remainder', f.path(div) or 'an expression'), where=f.loc(st['i']))
    if scanned < scanned_floor:
        raise AnalysisBroken('%s: only %d function bodies were scanned' % (rid, scanned))
    ctx.ob(rid, 'scanned', True, '%d function bodies, %d division(s) / remainder(s) by something that is not a non-zero constant' % (scanned, sites))
