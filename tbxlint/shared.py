"""Hidden shared state: mutable objects with static storage duration (static data members, function-local statics, namespace-scope variables) that belong to a class whose
objects are meant to be independent of each other.  Two objects served by different threads read and write such state at the same time, each under its own lock or under
none.  The rule is a who-may-share rule over the extractor's table of variables with global storage; constants are not state."""
from .facts import AnalysisBroken


def mutable_statics(prog, class_prefixes, files=()):
    """[(qualified name, type, file, line, kind)] of non-const variables with static storage that are members / locals of the given classes or live in the given files"""
    out = []
    for name, gs in prog.globals.items():
        for g in gs:
            if g.get('const'):
                continue
            t = (g.get('t') or '')
            if t.lstrip().startswith('const ') or t.rstrip().endswith(' const') or 'constexpr' in t:
                continue
            in_class = any(name.startswith(c + '::') for c in class_prefixes)
            in_file = any((g.get('file') or '').endswith(f) for f in files)
            if not (in_class or in_file):
                continue
            kind = 'function-local static' if g.get('staticlocal') else ('static data member' if in_class and not g.get('staticlocal') else 'namespace-scope variable')
            out.append((name, t, g.get('file'), g.get('line'), kind))
    return out


def rule(ctx, prog, rid, text, class_prefixes, files, allow, scanned_floor):
    """allow: {qualified name: reason} — the shared objects that are the design (a process-wide table under its own lock), confirmed by reading"""
    ctx.rule(rid, text, floor=1)
    n_methods = sum(1 for f in prog.funcs.values() if f.body is not None and any((prog.outermost(f).cls or '').startswith(c) for c in class_prefixes))
    if n_methods < scanned_floor:
        raise AnalysisBroken('%s: only %d method bodies of the classes in scope were seen' % (rid, n_methods))
    bad = [m for m in mutable_statics(prog, class_prefixes, files) if m[0] not in allow]
    for name, t, file, line, kind in bad:
        ctx.ob(rid, 'static:%s' % name, False, 'the %s `%s %s` is shared by every object of the class: objects used from different threads read and write it at the same time, each under '
               'its own lock or under none' % (kind, t, name.split('::')[-1]), where='%s:%s' % (('modules/' + file.split('/modules/', 1)[1]) if file and '/modules/' in file else (file or '?'), line))
    ctx.ob(rid, 'no-hidden-shared-state', not bad, '%d method bodies in scope; no mutable static member, function-local static or file-scope variable besides the %d confirmed shared object(s)' %
           (n_methods, len(allow)) if not bad else '%d mutable object(s) with static storage' % len(bad))
