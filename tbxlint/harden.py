"""A9f — stack allocations sized by run-time values on an input path.

A variable-length array or alloca() whose size is not bounded by a dominating guard lets the peer choose how much stack the
receive path consumes; a large frame crashes the process (stack overflow), which no exception handler can catch."""
from .facts import AnalysisBroken, extract, probe_unit
from . import q, ival, reent

STACK_LIMIT = 64 * 1024


def stack_allocs(f):
    """(stmt id, size expr id, element size, what) of VLAs and alloca calls in f"""
    out = []
    for st in f.stmts:
        if not st:
            continue
        if st['k'] == 'DeclStmt':
            for d in st.get('decls', ()):
                if 'vla' in d:
                    out.append((st['i'], d['vla'], d.get('esz', 1), 'variable-length array %s %s' % (d.get('t'), d.get('n'))))
        elif st['k'] == 'CallExpr' and (st.get('callee') in ('alloca', '__builtin_alloca') or st.get('fn') in ('alloca', '__builtin_alloca')) and st.get('args'):
            out.append((st['i'], st['args'][0], 1, 'alloca()'))
    return out


def bound(f, sid, size, esz):
    p = f.cfg.point_of(sid)
    lo, hi = ival.interval(f, size, p)
    return hi * esz if hi is not None else None


def selfcheck():
    """the detector must classify the probes: unbounded VLA, bounded VLA, unbounded alloca"""
    pp = extract([], extra_units=[probe_unit()])
    got = {}
    for f in pp.funcs.values():
        if f.name.startswith('verif_probe::'):
            for sid, size, esz, what in stack_allocs(f):
                b = bound(f, sid, size, esz)
                got[f.name.split('::')[-1]] = b is not None and b <= STACK_LIMIT
    want = {'vla_unbounded': False, 'vla_bounded': True, 'alloca_unbounded': False}
    if got != want:
        raise AnalysisBroken('stack-allocation detector self-check failed: %s (expected %s)' % (got, want))
    return len(got)


def run(ctx, prog, rid, entries, follow, what='receive path'):
    ctx.rule(rid, 'A9f: no stack allocation (variable-length array, alloca) on the %s whose size is not bounded by a dominating guard to <= %d bytes '
             '(positive probes in engine/probes.cc must be classified on every run)' % (what, STACK_LIMIT), floor=1)
    n_probe = selfcheck()
    ctx.ob(rid, 'probes', True, 'detector classified %d probes (unbounded VLA, bounded VLA, unbounded alloca) as expected' % n_probe)
    seen = {}
    work = list(entries)
    while work:
        f = work.pop()
        if f.key in seen:
            continue
        seen[f.key] = f
        for g in prog.funcs.values():
            if g.parent_usr == f.usr and g.key not in seen:
                work.append(g)      # lambdas defined here
        for c in f.calls():
            u = c.get('usr')
            for g in prog.fn_by_usr(u) if hasattr(prog, 'fn_by_usr') else [x for x in prog.funcs.values() if x.usr == u and not x.parent_usr]:
                if g.key not in seen and follow(g):
                    work.append(g)
    n = 0
    for f in seen.values():
        for sid, size, esz, what_ in stack_allocs(f):
            n += 1
            b = bound(f, sid, size, esz)
            ok = b is not None and b <= STACK_LIMIT
            ctx.ob(rid, '%s|%s' % (f.name, what_), ok, '%s is bounded to %s bytes' % (what_, b) if ok else
                   '%s of %s elements: the size comes from run-time data with no dominating bound, so input chooses the stack frame size (stack overflow)' %
                   (what_, f.path(size)), where=f.loc(sid))
    ctx.stats[rid + '.functions_scanned'] = len(seen)
    ctx.stats[rid + '.stack_allocations'] = n


# ---- A9g: narrowing of input-derived wide integers ---------------------------------------------
WIDE_PARSERS = ('strtol', 'strtoll', 'strtoul', 'strtoull', 'atol', 'atoll', 'std::stol', 'std::stoll', 'std::stoul', 'std::stoull', 'strtoimax', 'strtoumax')


def narrowings(f):
    """(call stmt, cast stmt, from-range, to-range) where the result of a wide text-to-integer conversion is implicitly narrowed at once"""
    from .ival import type_range, ctype
    out = []
    for st in f.stmts:
        if not st or st['k'] != 'CallExpr':
            continue
        cal = st.get('callee') or ''
        if not (cal in WIDE_PARSERS or cal.split('<')[0] in WIDE_PARSERS):
            continue
        fr = type_range(ctype(st))
        cur = st['i']
        while True:
            p = f.parent.get(cur)
            ps = f.s(p) if p is not None else None
            if ps is None or ps['k'] not in ('ImplicitCastExpr', 'ParenExpr', 'CStyleCastExpr', 'CXXStaticCastExpr', 'CXXFunctionalCastExpr'):
                break
            tr = type_range(ctype(ps))
            if ps['k'] == 'ImplicitCastExpr' and ps.get('ck') == 'IntegralCast' and fr and tr and (tr[0] > fr[0] or tr[1] < fr[1]):
                out.append((st, ps, fr, tr))
                break
            cur = p
    return out


def narrowing_selfcheck():
    pp = extract([], extra_units=[probe_unit()])
    got = {}
    for f in pp.funcs.values():
        if f.name.startswith('verif_probe::narrow_'):
            got[f.name.split('::')[-1]] = len(narrowings(f))
    if got != {'narrow_unchecked': 1, 'narrow_checked': 0}:
        raise AnalysisBroken('narrowing detector self-check failed: %s' % got)


def run_narrowing(ctx, prog, rid, entries, follow, what='input path'):
    ctx.rule(rid, 'A9g: on the %s the result of a wide text-to-integer conversion (strtol & co., 64-bit) is never implicitly narrowed before it was range-checked — '
             'otherwise values beyond the narrow type wrap modulo 2^32 and pass the later bounds tests as a different number' % what, floor=1)
    narrowing_selfcheck()
    ctx.ob(rid, 'probes', True, 'detector classified its probes (unchecked narrowing found, checked conversion accepted)')
    seen = {}
    work = list(entries)
    while work:
        f = work.pop()
        if f.key in seen:
            continue
        seen[f.key] = f
        for g in prog.funcs.values():
            if g.parent_usr == f.usr and g.key not in seen:
                work.append(g)
        for c in f.calls():
            for g in reent.callee_funcs(prog, c):
                if g.key not in seen and follow(g):
                    work.append(g)
    for f in seen.values():
        for call, cast, fr, tr in narrowings(f):
            ctx.ob(rid, '%s|%s->%s' % (f.name, call.get('callee'), ctype_name(cast)), False,
                   'the %d-bit result of %s() is implicitly converted to %s: an input such as 4294967296 + k is taken for k' %
                   (64, call.get('callee'), ctype_name(cast)), where=f.loc(call['i']))
    ctx.stats[rid + '.functions_scanned'] = len(seen)


def ctype_name(st):
    return st.get('ct') or st.get('t') or '?'


NARROW_INT = ('int', 'unsigned int', 'short', 'unsigned short', 'char', 'signed char', 'unsigned char')


def reachable(prog, entries, follow):
    seen = {}
    work = list(entries)
    while work:
        f = work.pop()
        if f.key in seen:
            continue
        seen[f.key] = f
        for g in prog.funcs.values():
            if g.parent_usr == f.usr and g.key not in seen:
                work.append(g)
        for c in f.calls():
            for g in reent.callee_funcs(prog, c):
                if g.key not in seen and follow(g):
                    work.append(g)
    return seen


def run_json_narrowing(ctx, prog, rid, entries, follow, what='receive path'):
    ctx.rule(rid, 'A9g (JSON): on the %s a JSON number (stored as a 64-bit integer) is never read with get<T>() for a narrower integer T unless a dominating test bounds a '
             'wide reading of the same value — nlohmann::json converts with a plain static_cast, so 4294967297 read as int is 1' % what, floor=1)
    seen = reachable(prog, entries, follow)
    n = 0
    for f in seen.values():
        for st in f.stmts:
            if not st or st['k'] != 'CXXMemberCallExpr' or st.get('fn') not in ('get', 'get_to') or 'basic_json' not in st.get('cls', ''):
                continue
            ct = (st.get('ct') or '').replace('const ', '')
            if ct not in NARROW_INT:
                continue
            n += 1
            obj = f.path(st.get('obj')) if 'obj' in st else '?'
            # accepted: a dominating comparison over a local that holds a 64-bit reading of the same object
            ok = False
            for cond, k, b in f.cfg.controlling_branches(q.pt(f, st)):
                for x in f.walk(cond):
                    sx = f.stmts[x]
                    if sx['k'] == 'DeclRefExpr' and sx.get('dk') == 'Var':
                        from . import rd
                        for d in rd.local_defs(f, sx['d']):
                            if d['rhs'] is not None and any(c.get('fn') == 'get' and (c.get('ct') or '') in ('long', 'unsigned long', 'long long', 'unsigned long long') and
                                                            'obj' in c and f.path(c['obj']) == obj for c in q.subtree_calls(f, d['rhs'])):
                                ok = True
            ctx.ob(rid, '%s|get<%s>(%s)' % (f.name, ct, obj), ok, 'narrow read behind a range test of the 64-bit value' if ok else
                   '%s.get<%s>() narrows a 64-bit JSON number without a range test: an id such as 4294967297 is taken for 1 and matched to the wrong pending request' % (obj, ct),
                   where=f.loc(st['i']))
    ctx.ob(rid, 'scan', True, '%d functions on the %s scanned, %d narrow integer reads' % (len(seen), what, n))


def run_threshold(ctx, prog, rid, file_pred, what, floor=1):
    """A4 segmentation independence at the transport boundary: a resumable parser consumes what it understood and leaves the rest in the buffer, so it must be
    offered every remainder however short — the receive threshold it registers with is the constant 0 or 1."""
    ctx.rule(rid, 'A4 segmentation independence at the transport boundary: the %s is a resumable parser that consumes what it has understood, so whatever is left over '
             'must be offered again however short it is — the threshold passed to setReceiveCallback folds to 0 or 1 (a larger one leaves a final fragment shorter '
             'than the threshold undelivered for ever once the earlier part of the message was consumed)' % what, floor=floor)
    n = 0
    for f in prog.funcs.values():
        if not file_pred(f):
            continue
        for c in f.calls():
            if c.get('fn') != 'setReceiveCallback' or len(c.get('args', [])) < 2:
                continue
            n += 1
            a = f.s(c['args'][1])
            v = a.get('cv') if a else None
            if v is None:
                v = q.eval_expr(f, c['args'][1], lambda sx: None)
            ok = v is not None and v <= 1
            ctx.ob(rid, '%s|threshold' % f.name, ok, 'receive threshold is %s' % v if ok else
                   'the parser is registered with a receive threshold of %s: after it has consumed the start of a message, a remaining fragment shorter than that is never '
                   'delivered — the request/line is parsed when sent in one piece and hangs when the last segment is short' % (v if v is not None else 'a non-constant value'),
                   where=f.loc(c['i']))
    if n < floor:
        raise AnalysisBroken('%s: expected >= %d setReceiveCallback registration(s), found %d' % (rid, floor, n))


def fixed_array_writes(f):
    """(stmt, array decl, extent, offset expr id or None, length expr id or None, kind) for writes into fixed-size local arrays: memcpy/memmove/memset(arr + off, ..., n),
    calls handing `arr + off` and a length to a reader (fetch(ptr, len)), and arr[idx] = ... stores"""
    import re
    arrs = {}
    for st in f.stmts:
        if st and st['k'] == 'DeclStmt':
            for d in st['decls']:
                m = re.search(r'\[(\d+)\]$', (d.get('ct') or d.get('t') or '').strip())
                if m and not d.get('vla'):
                    arrs[d['d']] = (d, int(m.group(1)))
    out = []
    def base_off(e):
        x = f.s(f.strip_casts(e))
        if x is None:
            return None, None
        if x['k'] == 'DeclRefExpr' and x.get('d') in arrs:
            return x['d'], None
        if x['k'] == 'BinaryOperator' and x.get('op') == '+':
            a, b = f.s(f.strip_casts(x['ch'][0])), f.s(f.strip_casts(x['ch'][1]))
            if a is not None and a['k'] == 'DeclRefExpr' and a.get('d') in arrs:
                return a['d'], x['ch'][1]
            if b is not None and b['k'] == 'DeclRefExpr' and b.get('d') in arrs:
                return b['d'], x['ch'][0]
        return None, None
    for st in f.stmts:
        if not st:
            continue
        if st['k'] in q.CALL_KINDS and st.get('args'):
            if st.get('callee') in ('memcpy', 'memmove', 'memset', 'strncpy') and len(st['args']) >= 3:
                d, off = base_off(st['args'][0])
                if d is not None:
                    out.append((st, arrs[d][0], arrs[d][1], off, st['args'][2], st['callee']))
            elif st.get('fn') in ('fetch', 'read', 'recv', 'fetchNoCopy') and len(st['args']) >= 2:
                d, off = base_off(st['args'][0])
                if d is not None:
                    out.append((st, arrs[d][0], arrs[d][1], off, st['args'][1], st['fn']))
        if st['k'] in ('BinaryOperator', 'CompoundAssignOperator') and st.get('op', '').endswith('=') and st['op'] not in ('==', '!=', '<=', '>='):
            lhs = f.s(f.strip_casts(st['ch'][0]))
            if lhs is not None and lhs['k'] == 'ArraySubscriptExpr':
                b = f.s(f.strip_casts(lhs['ch'][0]))
                if b is not None and b['k'] == 'DeclRefExpr' and b.get('d') in arrs and (f.s(lhs['ch'][1]) or {}).get('cv') is None:
                    out.append((st, arrs[b['d']][0], arrs[b['d']][1], lhs['ch'][1], None, '[]'))
    return out


def prove_fixed_write(f, w):
    """offset + length <= extent (or index < extent) from the linear facts in force"""
    from . import bounds
    from .affine import Aff
    st, decl, extent, off, ln, kind = w
    p = q.pt(f, st) if st['k'] in q.CALL_KINDS else q.pt_or_term(f, st)
    o = bounds.form(f, off, p) if off is not None else Aff(0)
    l_ = bounds.form(f, ln, p) if ln is not None else Aff(1)
    if o is None or l_ is None:
        return False, 'the %s is not a linear quantity (%s)' % ('offset' if o is None else 'length', f.path(off if o is None else ln))
    facts = bounds.facts_at(f, p)
    ok = bounds.decide(Aff(extent) - o - l_, facts, bounds.unsigned_syms(f))
    return ok, 'offset %r + length %r <= %d' % (o, l_, extent) if ok else 'the guards in force (%s) do not give offset %r + length %r <= %d' % ('; '.join('%r >= 0' % g for g in facts[:4]) or 'none', o, l_, extent)


def run_fixed(ctx, prog, rid, funcs, what):
    ctx.rule(rid, 'A9f fixed buffers: on the %s every write into a fixed-size local array at a variable offset or with a variable length (memcpy & co., a reader handed '
             'array + offset, array[index] = ...) is proven inside the array from the linear facts in force there; positive and negative probes in engine/probes.cc are '
             'classified on every run (expected count on the unchanged tree may be zero)' % what, floor=1)
    pp = extract([], extra_units=[probe_unit()])
    got = {}
    for g in pp.funcs.values():
        if g.name.startswith('verif_probe::fixed_'):
            got[g.name.split('::')[-1]] = [prove_fixed_write(g, w)[0] for w in fixed_array_writes(g)]
    if got != {'fixed_unbounded': [False], 'fixed_bounded': [True]}:
        raise AnalysisBroken('fixed-array write detector self-check failed: %s' % got)
    ctx.ob(rid, 'probes', True, 'detector classified its probes (unguarded memcpy into a fixed array refused, guarded one proven)')
    for f in funcs:
        for w in fixed_array_writes(f):
            ok, why = prove_fixed_write(f, w)
            ctx.ob(rid, '%s|%s->%s@%s' % (f.name, w[5], w[1]['n'], f.loc(w[0]['i']).split(':')[-1]), ok, why if ok else
                   'a write into the %d-byte local array %s is not bounded: %s — input chosen by the sender overruns the stack buffer' % (w[2], w[1]['n'], why), where=f.loc(w[0]['i']))
