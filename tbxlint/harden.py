"""A9f — stack allocations sized by run-time values on an input path.

A variable-length array or alloca() whose size is not bounded by a dominating guard lets the peer choose how much stack the
receive path consumes; a large frame crashes the process (stack overflow), which no exception handler can catch."""
from .facts import AnalysisBroken, extract, probe_unit
from . import q, ival

STACK_LIMIT = 64 * 1024


def stack_allocs(f):
    """(stmt id, size expr id, element size, what) of VLAs and alloca calls in f"""
    out = []
    for st in f.stmts:
        if not st:
            continue
        if st['k'] == 'DeclStmt':
            for d in st.get('decls', ()):
                if 'vla' in d:
                    out.append((st['i'], d['vla'], d.get('esz', 1), 'variable-length array %s %s' % (d.get('t'), d.get('n'))))
        elif st['k'] == 'CallExpr' and (st.get('callee') in ('alloca', '__builtin_alloca') or st.get('fn') in ('alloca', '__builtin_alloca')) and st.get('args'):
            out.append((st['i'], st['args'][0], 1, 'alloca()'))
    return out


def bound(f, sid, size, esz):
    p = f.cfg.point_of(sid)
    lo, hi = ival.interval(f, size, p)
    return hi * esz if hi is not None else None


def selfcheck():
    """the detector must classify the probes: unbounded VLA, bounded VLA, unbounded alloca"""
    pp = extract([], extra_units=[probe_unit()])
    got = {}
    for f in pp.funcs.values():
        if f.name.startswith('verif_probe::'):
            for sid, size, esz, what in stack_allocs(f):
                b = bound(f, sid, size, esz)
                got[f.name.split('::')[-1]] = b is not None and b <= STACK_LIMIT
    want = {'vla_unbounded': False, 'vla_bounded': True, 'alloca_unbounded': False}
    if got != want:
        raise AnalysisBroken('stack-allocation detector self-check failed: %s (expected %s)' % (got, want))
    return len(got)


def run(ctx, prog, rid, entries, follow, what='receive path'):
    ctx.rule(rid, 'A9f: no stack allocation (variable-length array, alloca) on the %s whose size is not bounded by a dominating guard to <= %d bytes '
             '(positive probes in engine/probes.cc must be classified on every run)' % (what, STACK_LIMIT), floor=1)
    n_probe = selfcheck()
    ctx.ob(rid, 'probes', True, 'detector classified %d probes (unbounded VLA, bounded VLA, unbounded alloca) as expected' % n_probe)
    seen = {}
    work = list(entries)
    while work:
        f = work.pop()
        if f.key in seen:
            continue
        seen[f.key] = f
        for g in prog.funcs.values():
            if g.parent_usr == f.usr and g.key not in seen:
                work.append(g)      # lambdas defined here
        for c in f.calls():
            u = c.get('usr')
            for g in prog.fn_by_usr(u) if hasattr(prog, 'fn_by_usr') else [x for x in prog.funcs.values() if x.usr == u and not x.parent_usr]:
                if g.key not in seen and follow(g):
                    work.append(g)
    n = 0
    for f in seen.values():
        for sid, size, esz, what_ in stack_allocs(f):
            n += 1
            b = bound(f, sid, size, esz)
            ok = b is not None and b <= STACK_LIMIT
            ctx.ob(rid, '%s|%s' % (f.name, what_), ok, '%s is bounded to %s bytes' % (what_, b) if ok else
                   '%s of %s elements: the size comes from run-time data with no dominating bound, so input chooses the stack frame size (stack overflow)' %
                   (what_, f.path(size)), where=f.loc(sid))
    ctx.stats[rid + '.functions_scanned'] = len(seen)
    ctx.stats[rid + '.stack_allocations'] = n
