"""Abstract walk of small codec state machines: a loop whose body is `switch (state) { case k: ...stores through an output cursor...; state = k'; }`.

The walker executes straight-line case bodies over an abstract state (cursor delta, value of the state variable) and records
every store through the output pointer with its offset relative to the cursor's value at the start.  Nothing of the repository is
executed: the 'execution' is over the AST of the case bodies with integer constants only; anything else is analysis-broken."""
from .facts import AnalysisBroken
from . import q


def switch_cases(f, sw):
    """{case value: [statements]} of a switch whose body is a compound of case labels, statements and breaks (fall-through kept)"""
    body = f.s(sw['body'])
    cases = {}
    active = []

    def unstack(cs):
        vals = [cs.get('v')]
        sub = f.s(cs['ch'][-1])
        while sub is not None and sub['k'] == 'CaseStmt':
            vals.append(sub.get('v'))
            sub = f.s(sub['ch'][-1])
        return vals, sub
    for c in body['ch']:
        st = f.s(c)
        if st['k'] == 'CaseStmt':
            vals, sub = unstack(st)
            active = active + vals
            for v in active:
                cases.setdefault(v, [])
            if sub is not None and sub['k'] == 'BreakStmt':
                active = []
            elif sub is not None:
                for v in active:
                    cases[v].append(sub)
        elif st['k'] == 'BreakStmt':
            active = []
        elif st['k'] == 'DefaultStmt':
            active = []
        else:
            for v in active:
                cases[v].append(st)
    return cases


class Walker:
    def __init__(self, f, cursor_decl, out_decls, state_decl=None):
        self.f, self.cur, self.outp, self.sv = f, cursor_decl, set(out_decls), state_decl
        self.delta = 0
        self.state = None
        self.stores = []        # (offset, stmt)

    def _is(self, e, decl):
        x = self.f.s(self.f.strip_casts(e))
        return x is not None and x['k'] == 'DeclRefExpr' and x.get('d') == decl

    def idx(self, e):
        f = self.f
        x = f.s(f.strip_casts(e))
        if x is None:
            return None
        if x['k'] == 'ParenExpr':
            return self.idx(x['ch'][0])
        if x['k'] == 'DeclRefExpr' and x.get('d') == self.cur:
            return self.delta
        if x['k'] == 'UnaryOperator' and x.get('op') in ('++', '--') and self._is(x['ch'][0], self.cur):
            step = 1 if x['op'] == '++' else -1
            if x.get('post'):
                o = self.delta
                self.delta += step
                return o
            self.delta += step
            return self.delta
        if x['k'] == 'BinaryOperator' and x.get('op') in ('+', '-'):
            a, b = self.idx(x['ch'][0]), (f.s(x['ch'][1]) or {}).get('cv')
            if a is None or b is None:
                return None
            return a + b if x['op'] == '+' else a - b
        return None

    def visit(self, e):
        f = self.f
        st = f.s(e)
        if st is None:
            return
        k = st['k']
        if k in ('BinaryOperator', 'CompoundAssignOperator') and st.get('op', '').endswith('=') and st['op'] not in ('==', '!=', '<=', '>='):
            lhs = f.s(f.strip_casts(st['ch'][0]))
            if lhs is not None and lhs['k'] == 'ArraySubscriptExpr' and (f.s(f.strip_casts(lhs['ch'][0])) or {}).get('d') in self.outp:
                self.visit(st['ch'][1])
                self.stores.append((self.idx(lhs['ch'][1]), st))
                return
            if lhs is not None and lhs['k'] == 'DeclRefExpr' and lhs.get('d') == self.cur:
                c_ = (f.s(st['ch'][1]) or {}).get('cv')
                if st['op'] in ('+=', '-=') and c_ is not None:
                    self.delta += c_ if st['op'] == '+=' else -c_
                    return
                raise AnalysisBroken('%s: output cursor assigned a non-constant step at %s' % (f.short, f.loc(st['i'])))
            if lhs is not None and lhs['k'] == 'DeclRefExpr' and self.sv is not None and lhs.get('d') == self.sv:
                c_ = (f.s(st['ch'][1]) or {}).get('cv')
                if st['op'] == '=' and c_ is not None:
                    self.state = c_
                    return
                raise AnalysisBroken('%s: state variable assigned a non-constant at %s' % (f.short, f.loc(st['i'])))
        if k == 'UnaryOperator' and st.get('op') in ('++', '--') and self._is(st['ch'][0], self.cur):
            self.delta += 1 if st['op'] == '++' else -1
            return
        if k in ('IfStmt', 'ForStmt', 'WhileStmt', 'DoStmt', 'SwitchStmt'):
            touched = any((f.stmts[x]['k'] == 'DeclRefExpr' and f.stmts[x].get('d') in ({self.cur, self.sv} - {None})) or f.stmts[x]['k'] == 'ArraySubscriptExpr' and
                          (f.s(f.strip_casts(f.stmts[x]['ch'][0])) or {}).get('d') in self.outp for x in f.walk(st['i']))
            if touched:
                raise AnalysisBroken('%s: branching inside a case body touches the cursor, the state or the output at %s' % (f.short, f.loc(st['i'])))
        for c in st.get('ch', []):
            self.visit(c)

    def run(self, stmts):
        for st in stmts:
            self.visit(st['i'])
