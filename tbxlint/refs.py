"""A11 — reference tables generated from the defining formulae of the standards."""
import math


def base64_alphabet():
    return [ord(c) for c in 'ABCDEFGHIJKLMNOPQRSTUVWXYZabcdefghijklmnopqrstuvwxyz0123456789+/']


def crc16_ccitt_table(poly=0x1021):
    t = []
    for i in range(256):
        c = i << 8
        for _ in range(8):
            c = ((c << 1) ^ poly) & 0xFFFF if c & 0x8000 else (c << 1) & 0xFFFF
        t.append(c)
    return t


def crc32_reflected_table(poly=0xEDB88320):
    t = []
    for i in range(256):
        c = i
        for _ in range(8):
            c = (c >> 1) ^ poly if c & 1 else c >> 1
        t.append(c)
    return t


def _gmul(a, b):
    p = 0
    for _ in range(8):
        if b & 1:
            p ^= a
        hi = a & 0x80
        a = (a << 1) & 0xFF
        if hi:
            a ^= 0x1B
        b >>= 1
    return p


def aes_sbox():
    inv = [0] * 256
    for a in range(1, 256):
        for b in range(1, 256):
            if _gmul(a, b) == 1:
                inv[a] = b
                break
    s = []
    for a in range(256):
        x = inv[a]
        y = x
        for sh in (1, 2, 3, 4):
            y ^= ((x << sh) | (x >> (8 - sh))) & 0xFF
        s.append(y ^ 0x63)
    return s


def aes_inv_sbox():
    s = aes_sbox()
    inv = [0] * 256
    for i, v in enumerate(s):
        inv[v] = i
    return inv


def aes_rcon(n=10):
    r, out = 1, []
    for _ in range(n):
        out.append(r)
        r = _gmul(r, 2)
    return out


def md5_k():
    return [int(abs(math.sin(i + 1)) * 2**32) & 0xFFFFFFFF for i in range(64)]


def md5_shifts():
    return [7, 12, 17, 22] * 4 + [5, 9, 14, 20] * 4 + [4, 11, 16, 23] * 4 + [6, 10, 15, 21] * 4


def md5_msg_index():
    return [i for i in range(16)] + [(1 + 5 * i) % 16 for i in range(16)] + [(5 + 3 * i) % 16 for i in range(16)] + [(7 * i) % 16 for i in range(16)]


MD5_INIT = [0x67452301, 0xEFCDAB89, 0x98BADCFE, 0x10325476]
