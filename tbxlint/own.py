"""A6 ownership rules: pooled / cabinet-managed types, deferred-capture rule, where-may-delete."""
import re
from . import q

DEFERRED_CALLEES = ('tbox::event::Loop::runNext', 'tbox::event::Loop::runInLoop', 'tbox::event::Loop::run',
                    'tbox::event::CommonLoop::runNext', 'tbox::event::CommonLoop::runInLoop', 'tbox::event::CommonLoop::run')


def _template_arg(name, prefix):
    if not name.startswith(prefix + '<') or not name.endswith('>'):
        return None
    return name[len(prefix) + 1:-1].strip()


def managed_types(prog):
    """{canonical type: set of managers ('cabinet'/'pool')} from every Cabinet<T>/ObjectPool<T> instantiated in the program"""
    out = {}
    for cname in prog.classes:
        for pfx, kind in (('tbox::cabinet::Cabinet', 'cabinet'), ('tbox::ObjectPool', 'pool')):
            t = _template_arg(cname, pfx)
            if t:
                out.setdefault(t, set()).add(kind)
    for c in prog.classes.values():
        for fd in c['fields']:
            for pfx, kind in (('tbox::cabinet::Cabinet', 'cabinet'), ('tbox::ObjectPool', 'pool')):
                t = _template_arg(fd['ct'], pfx)
                if t:
                    out.setdefault(t, set()).add(kind)
    return out


def pointee(t):
    t = t.strip()
    if t.endswith('*const'):
        t = t[:-5].strip()
    if t.endswith('*'):
        return t[:-1].strip().replace('const ', '').strip()
    return None


def deferred_lambdas(prog, funcs, callees=DEFERRED_CALLEES):
    """(func, lambda stmt, call stmt) for lambdas passed (directly) to a deferred-execution entry point"""
    out = []
    for f in funcs:
        for st in f.stmts:
            if not st or st['k'] not in q.CALL_KINDS:
                continue
            if not st.get('callee', '').startswith(callees):
                continue
            for a in st.get('args', ()):
                for x in f.walk(a):
                    if f.stmts[x]['k'] == 'LambdaExpr':
                        out.append((f, f.stmts[x], st))
    return out


def capture_origin(f, decl_id, prog=None):
    """how a captured local pointer got its value:
    'cabinet-free'   initialised from Cabinet::free()
    'swap-out'       received a member through std::swap
    'copy-then-null' copied from a member that is set to nullptr afterwards in the same function
    'cabinet-clear'  parameter of a callback passed to Cabinet::foreach whose cabinet is clear()ed right after the walk
    'param' / 'init' / 'other' otherwise"""
    origin = 'other'
    for p in f.params:
        if p['d'] == decl_id:
            origin = 'param'
            pf = f.parent_func
            if f.is_lambda and pf is not None:
                for st in pf.calls():
                    if st.get('fn') == 'foreach' and st.get('cls', '').startswith('tbox::cabinet::Cabinet<') and 'obj' in st:
                        if any(pf.stmts[x]['k'] == 'LambdaExpr' and pf.stmts[x].get('fn') == f.usr for a in st.get('args', []) for x in pf.walk(a)):
                            cab = pf.path(st['obj'])
                            clears = [c for c in pf.calls() if c.get('fn') == 'clear' and 'obj' in c and pf.path(c['obj']) == cab]
                            sp = pf.cfg.point_of(st['i'])
                            if clears and sp is not None and not pf.cfg.exists_path(sp, 'exit', avoid=[pf.cfg.point_of(c['i']) for c in clears]):
                                return 'cabinet-clear'
            return origin
    for st in f.stmts:
        if st and st['k'] == 'DeclStmt':
            for d in st['decls']:
                if d.get('d') == decl_id and 'init' in d:
                    for x in f.walk(d['init']):
                        sx = f.stmts[x]
                        if sx['k'] in q.CALL_KINDS and sx.get('fn') == 'free' and sx.get('cls', '').startswith('tbox::cabinet::Cabinet<'):
                            return 'cabinet-free'
                    origin = 'init'
                    src = f.field_of(d['init'])
                    if src:
                        dp = f.cfg.point_of(st['i'])
                        for a in f.stmts:
                            if a and a['k'] == 'BinaryOperator' and a.get('op') == '=' and f.field_of(a['ch'][0]) == src and \
                                    f.s(f.strip_casts(a['ch'][1]))['k'] in ('CXXNullPtrLiteralExpr', 'GNUNullExpr'):
                                ap = f.cfg.point_of(a['i'])
                                if dp is not None and ap is not None and f.cfg.dominates(dp, ap):
                                    return 'copy-then-null'
    for st in f.calls():
        if st.get('callee', '').startswith('std::swap'):
            for a in st.get('args', ()):
                s_ = f.s(f.strip_casts(a))
                if s_ and s_['k'] == 'DeclRefExpr' and s_.get('d') == decl_id:
                    return 'swap-out'
    return origin


OWNED = ('cabinet-free', 'swap-out', 'copy-then-null', 'cabinet-clear')
