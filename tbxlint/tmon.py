"""Shared rules for eventx::TimeoutMonitor<T> (used by C14: JSON-RPC request timeouts, and C15: DNS lookup timeouts).

The monitor keeps a ring of item vectors, a population count `value_number_`, and a persistent tick timer that must be running
exactly while the population is non-zero.  "Every pending request completes exactly once, by reply or by timeout" needs:
  (count)  value_number_ changes only together with a matching change of the ring's population;
  (timer)  the timer is enabled when the population leaves zero and disabled only on a *fresh* `value_number_ == 0` test —
           fresh = no user callback and no count write between the test and the disable (the callback may re-enter add()).
Unrecognised forms raise AnalysisBroken (exit 2), recognised-bad forms are violations."""
from .facts import AnalysisBroken
from . import q

CLS = 'tbox::eventx::TimeoutMonitor<'
CNT = 'value_number_'


def _methods(prog):
    ms = [f for f in prog.funcs.values() if f.name.startswith(CLS) and not f.parent_usr]
    # one instantiation is enough (all share the template text); keep the one with most methods, deterministic
    by = {}
    for f in ms:
        by.setdefault(f.name.split('>::')[0], []).append(f)
    if not by:
        raise AnalysisBroken('no TimeoutMonitor<T> instantiation in scope')
    k = sorted(by, key=lambda k: (-len(by[k]), k))[0]
    return k + '>', by[k]


def _count_writes(f):
    """(stmt, kind, amount expr id) for every write of value_number_: kind in inc/dec/sub/add/set"""
    out = []
    for st in f.stmts:
        if not st:
            continue
        if st['k'] == 'UnaryOperator' and st.get('op') in ('++', '--') and (f.field_of(st['ch'][0]) or '').endswith(CNT):
            out.append((st, 'inc' if st['op'] == '++' else 'dec', None))
        elif st['k'] in ('BinaryOperator', 'CompoundAssignOperator') and st.get('op') in ('=', '+=', '-=') and (f.field_of(st['ch'][0]) or '').endswith(CNT):
            out.append((st, {'=': 'set', '+=': 'add', '-=': 'sub'}[st['op']], st['ch'][1]))
    return out


def _timer_calls(f, fn):
    return [st for st in f.stmts if st and st['k'] == 'CXXMemberCallExpr' and st.get('fn') == fn and (f.field_of(st.get('obj')) or '').endswith('sp_timer_')]


def _is_fresh_zero_test(f, cond):
    """`value_number_ == 0` / `!value_number_` / `value_number_ <= 0` reading the field itself"""
    cs = f.s(f.strip_casts(cond))
    if not cs:
        return None
    if cs['k'] == 'UnaryOperator' and cs.get('op') == '!':
        return 0 if (f.field_of(cs['ch'][0]) or '').endswith(CNT) else None
    if cs['k'] == 'BinaryOperator' and cs.get('op') in ('==', '<=', '!=', '>'):
        l, r = cs['ch']
        for a, b in ((l, r), (r, l)):
            if (f.field_of(a) or '').endswith(CNT):
                v = f.s(f.strip_casts(b))
                if v and v.get('cv') == 0:
                    # true edge means zero for ==,<= ; false edge means zero for !=,>
                    if cs['op'] in ('==',) or (cs['op'] == '<=' and a == l):
                        return 0
                    if cs['op'] in ('!=',) or (cs['op'] == '>' and a == l):
                        return 1
    return None


def run(ctx, prog, rid):
    ctx.rule(rid, 'A5+A7 TimeoutMonitor: the population count changes only with a matching ring update; the tick timer is enabled when the count '
             'leaves zero and disabled only on a fresh value_number_==0 test (no user callback or count write between test and disable)', floor=6)
    cname, ms = _methods(prog)
    byname = {f.name.split('::')[-1]: f for f in ms}
    for need in ('add', 'onTimerTick', 'cleanup'):
        if need not in byname:
            raise AnalysisBroken('TimeoutMonitor::%s not found' % need)
    # the ring has exactly check_times slots: one created up front plus one per iteration of the building loop (replayed for 1..4)
    ini = byname.get('initialize')
    if ini is not None:
        news = [st for st in ini.stmts if st and st['k'] == 'CXXNewExpr']
        lps = [st for st in ini.stmts if st and st['k'] == 'ForStmt' and st.get('cond') is not None and 'check_times' in {ini.stmts[x].get('n') for x in ini.walk(st['cond'])}]
        if lps and news:
            in_loop = [x for x in news if x['i'] in set(ini.walk(lps[0]['i']))]
            before = [x for x in news if x not in in_loop]
            tr = q.loop_trips(ini, lps[0], 'check_times', counts=range(1, 5))
            ok = tr is not None and all(len(before) + tr[N][0] * len(in_loop) == N for N in tr)
            ctx.ob(rid, '%s|ring-size' % ini.name, ok, 'initialize() builds a ring of exactly check_times slots' if ok else
                   'the ring built for check_times = N has %s slots: a value is reported as timed out one tick %s than asked for' %
                   ({N: len(before) + tr[N][0] * len(in_loop) for N in tr} if tr else '?', 'later/earlier'), where=ini.loc(lps[0]['i']))
    n_writes = 0
    for f in ms:
        short = f.name.split('::')[-1]
        user = [q.pt(f, i) for i in q.invokes(f, 'cb_')]
        cw = _count_writes(f)
        for st, kind, amt in cw:
            n_writes += 1
            key = '%s|count-%s@%s' % (cname + '::' + short, kind, f.loc(st['i']).split(':')[-1])
            if kind == 'inc':
                # one push_back into a ring slot on every path with the increment, and not in a loop unless both are
                pb = [c for c in f.stmts if c and c['k'] == 'CXXMemberCallExpr' and c.get('fn') in ('push_back', 'emplace_back') and f.path(c.get('obj')).endswith('items')]
                ok = len(pb) >= 1 and any((f.cfg.dominates(q.pt(f, c), q.pt(f, st)) or f.cfg.dominates(q.pt(f, st), q.pt(f, c))) and
                                          (f.cfg.postdominates(q.pt(f, st), q.pt(f, c)) if f.cfg.dominates(q.pt(f, c), q.pt(f, st)) else f.cfg.postdominates(q.pt(f, c), q.pt(f, st)))
                                          for c in pb)
                ctx.ob(rid, key, ok, '++value_number_ is paired with one items.push_back on every path' if ok else
                       '++value_number_ without a matching insertion into the ring on every path', where=f.loc(st['i']))
            elif kind == 'sub':
                # amount is V.size() of a local vector that took a ring slot's items by swap/move
                a = f.s(f.strip_casts(amt))
                ok = False
                why = 'the subtracted amount is not the size of a vector taken out of the ring'
                if a and a['k'] == 'CXXMemberCallExpr' and a.get('fn') == 'size':
                    v = f.s(f.strip_casts(a.get('obj')))
                    if v and v['k'] == 'DeclRefExpr' and v.get('dk') == 'Var':
                        took = [c for c in f.stmts if c and c['k'] in q.CALL_KINDS and (c.get('callee', '').startswith('std::swap') or c.get('fn') == 'swap') and
                                any(f.path(x) == f.path(v['i']) for x in list(c.get('args', ())) + ([c['obj']] if 'obj' in c else [])) and
                                any(f.path(x).endswith('items') for x in list(c.get('args', ())) + ([c['obj']] if 'obj' in c else []))]
                        ok = bool(took) and all(f.cfg.dominates(q.pt(f, c), q.pt(f, st)) for c in took)
                        why = 'value_number_ -= %s.size() after %s took the slot\'s items by swap' % (f.path(v['i']), f.path(v['i']))
                ctx.ob(rid, key, ok, why, where=f.loc(st['i']))
            elif kind == 'set':
                a = f.s(f.strip_casts(amt))
                ok = bool(a) and a.get('cv') == 0 and (short in ('cleanup',) or short.startswith('~'))
                # the ring is dropped in the same function
                drops = [x for x, rhs in q.assigns(f, 'curr_item_') if f.s(f.strip_casts(rhs)) and f.s(f.strip_casts(rhs))['k'] in ('CXXNullPtrLiteralExpr', 'GNUNullExpr', 'IntegerLiteral')]
                ok = ok and bool(drops)
                ctx.ob(rid, key, ok, 'value_number_ = 0 where the whole ring is released' if ok else 'value_number_ is overwritten outside the ring teardown', where=f.loc(st['i']))
            elif kind == 'dec':
                # accepted: dominated by a successful single-element lookup (`it != items.end()` guard) and a one-argument erase on the path
                er = [c for c in f.stmts if c and c['k'] == 'CXXMemberCallExpr' and c.get('fn') == 'erase' and f.path(c.get('obj')).endswith('items')]
                single = [c for c in er if len(c.get('args', ())) == 1 and f.cfg.dominates(q.pt(f, c), q.pt(f, st)) or
                          (len(c.get('args', ())) == 1 and f.cfg.dominates(q.pt(f, st), q.pt(f, c)) and f.cfg.postdominates(q.pt(f, c), q.pt(f, st)))]
                rng = [c for c in er if len(c.get('args', ())) >= 2]
                if single and not rng:
                    ctx.ob(rid, key, True, '--value_number_ is tied to a single-element erase on the same path', where=f.loc(st['i']))
                elif rng or not er:
                    ctx.ob(rid, key, False, '--value_number_ subtracts one, but the removal on its path %s: the count drifts from the ring population (timer stopped with '
                           'items pending, or never stopped)' % ('removes a data-dependent number of elements (range erase)' if rng else 'is missing'), where=f.loc(st['i']))
                else:
                    raise AnalysisBroken('unrecognised --value_number_ form at %s' % f.loc(st['i']))
            else:
                raise AnalysisBroken('unrecognised value_number_ update (%s) at %s' % (kind, f.loc(st['i'])))
        # timer: disable only on a fresh zero test
        teardown = short == 'cleanup' or short.startswith('~')
        for d in _timer_calls(f, 'disable'):
            key = '%s|disable@%s' % (cname + '::' + short, f.loc(d['i']).split(':')[-1])
            dp = q.pt(f, d)
            fresh = None
            for cond, k, b in f.cfg.controlling_branches(dp):
                z = _is_fresh_zero_test(f, cond)
                cp = f.cfg.point_of(cond)
                if teardown and any(x.endswith(CNT) for x in q.subtree_paths(f, cond)):
                    fresh = ('teardown', cp)
                if z is not None and z == k:
                    fresh = ('zero', cp)
            if fresh is None:
                ctx.ob(rid, key, False, 'sp_timer_->disable() is not decided by a test of value_number_ itself (a value computed earlier is stale once a user '
                       'callback has re-entered add())', where=f.loc(d['i']))
                continue
            kind, cp = fresh
            between = [p for p in user + [q.pt(f, st) for st, _, _ in cw] if p is not None and cp is not None and
                       f.cfg.exists_path(cp, p) and f.cfg.exists_path(p, dp) and p != cp]
            # a count write *before* the test in the same block is fine: only events strictly after the test matter
            between = [p for p in between if not (p[0] == cp[0] and p[1] < cp[1])]
            ctx.ob(rid, key, not between, 'disable() follows a fresh value_number_ test%s' % (' (teardown)' if kind == 'teardown' else '') if not between else
                   'a user callback or a count update lies between the value_number_ test and disable(): the decision is stale', where=f.loc(d['i']))
        # timer: enable when the count leaves zero
        for st, kind, amt in cw:
            if kind not in ('inc', 'add'):
                continue
            key = '%s|enable@%s' % (cname + '::' + short, f.loc(st['i']).split(':')[-1])
            ens = _timer_calls(f, 'enable')
            ok = False
            for e in ens:
                for cond, k, b in f.cfg.controlling_branches(q.pt(f, e)):
                    z = _is_fresh_zero_test(f, cond)
                    cp = f.cfg.point_of(cond)
                    if z is not None and z == k and cp is not None and f.cfg.dominates(cp, q.pt(f, st)):
                        # no count write or user call between the test and the increment
                        mid = [p for p in user + [q.pt(f, s2) for s2, _, _ in cw if s2 is not st] if f.cfg.exists_path(cp, p) and f.cfg.exists_path(p, q.pt(f, st)) and
                               not (p[0] == cp[0] and p[1] < cp[1])]
                        ok = ok or not mid
            ctx.ob(rid, key, ok, 'the timer is enabled on value_number_ == 0 before the increment' if ok else
                   'value_number_ grows without enabling the timer when it was zero: nothing will ever time out', where=f.loc(st['i']))
        # after the user callback only the nesting counter may be touched
        for u in q.invokes(f, 'cb_'):
            up = q.pt(f, u)
            late = []
            for st in f.stmts:
                if not st or st['k'] != 'MemberExpr' or st.get('mk') != 'field':
                    continue
                from .locks import classify_access
                if classify_access(f, st['i']) != 'w' or st['q'].endswith('cb_level_'):
                    continue
                p = f.cfg.point_of(st['i'])
                if p is not None and f.cfg.exists_path(up, p, src_inclusive=False) and not st['q'].endswith(CNT):
                    late.append(st)
            # writes of value_number_ after the callback are tolerated only if followed by a fresh test (covered by the disable rule above)
            ctx.ob(rid, '%s|after-callback@%s' % (cname + '::' + short, f.loc(u['i']).split(':')[-1]), not late,
                   'no ring/handle state is written after the user callback' if not late else
                   '%s written after the user callback' % ', '.join(sorted(set(s['q'].split('::')[-1] for s in late))), where=f.loc(u['i']))
    if n_writes < 3:
        raise AnalysisBroken('expected at least 3 value_number_ updates (add, tick, cleanup), saw %d' % n_writes)


def run_users(ctx, prog, rid, owner_cls):
    """the owner side: TimeoutMonitor::cleanup() forgets the callback (cb_ = nullptr), so whoever initialises a monitor again must install the callback again"""
    ctx.rule(rid, 'A5 re-initialisation agreement: TimeoutMonitor::cleanup() drops its callback; every function of %s that (re)initialises a monitor member also installs '
             'the callback on that path (or no code outside the destructor ever cleans that member up) — otherwise the next life of the object never reports a timeout'
             % owner_cls.split('::')[-1], floor=1)
    cname, ms = _methods(prog)
    cl = [f for f in ms if f.name.split('::')[-1] == 'cleanup']
    drops = bool(cl) and any((f_.s(f_.strip_casts(rhs)) or {}).get('k') in ('CXXNullPtrLiteralExpr', 'GNUNullExpr') for f_ in cl for a, rhs in q.assigns(f_, 'cb_'))
    owner = [f for f in prog.funcs.values() if (prog.outermost(f).cls or '') == owner_cls]
    members = set()
    for f in owner:
        for c in f.calls():
            if c.get('cls', '').startswith(CLS) and 'obj' in c and f.field_of(c['obj']):
                members.add(f.field_of(c['obj']))
    if not members:
        raise AnalysisBroken('%s has no TimeoutMonitor member in the analysed units' % owner_cls)
    for m in sorted(members):
        short = m.split('::')[-1]
        def calls(fn_):
            return [(f, c) for f in owner for c in f.calls() if c.get('fn') == fn_ and c.get('cls', '').startswith(CLS) and 'obj' in c and f.field_of(c['obj']) == m]
        cleans = [(f, c) for f, c in calls('cleanup') if not prog.outermost(f).d.get('dtor')]
        for f, c in calls('initialize'):
            sets = [s_ for g, s_ in calls('setCallback') if g is f]
            ok = (not drops) or (not cleans) or any(f.cfg.dominates(q.pt(f, s_), q.pt(f, c)) or (f.cfg.postdominates(q.pt(f, s_), q.pt(f, c)) if hasattr(f.cfg, 'postdominates') else False) for s_ in sets)
            ctx.ob(rid, '%s|%s.initialize' % (f.name, short), ok,
                   'the callback of %s is installed where it is initialised' % short if sets and ok else ('%s is never cleaned up outside the destructor' % short if ok else
                   '%s is initialised here without installing its callback, while %s cleans it up (which clears the callback): after cleanup()+initialize() '
                   'nothing is ever reported as timed out' % (short, cleans[0][0].name if cleans else '?')), where=f.loc(c['i']))
