"""Model threads over the syntax-tree interpreter (tbxlint/minterp.py): std::thread, std::mutex, lock_guard / unique_lock, std::condition_variable.

Every thread of the program under analysis is interpreted on a Python thread of its own; exactly one runs at a time.  The operations on mutexes, condition variables and
threads are the scheduling points: there the kernel decides who goes on — the same thread, or another runnable one — by a *schedule*, a list of choices.  A run is
therefore a deterministic function of its schedule, and `explore` enumerates schedules depth-first up to a bound on the number of preemptions (switching away from a thread
that could have gone on), the usual bound of stateless exploration: all interleavings with that many preemptions of the synchronisation operations are covered, for the
script at hand.  A state in which no thread can go on and not all have ended is a deadlock and is reported as such.  Nothing of the repository is compiled or run."""
import threading
from .facts import AnalysisBroken
from . import minterp
from .minterp import P


class _Kill(BaseException):
    pass


class Deadlock(Exception):
    pass


class MThread:
    def __init__(self, tid, name):
        self.tid, self.name = tid, name
        self.sem = threading.Semaphore(0)
        self.py = None
        self.done = False
        self.waiting = None         # None = runnable; ('mutex', m) | ('cv', cv) | ('join', t) | ('gate', name)
        self.joined = False
        self.saved = None


class Kernel:
    def __init__(self, it, schedule=(), preempt_bound=2):
        self.it = it
        self.schedule = list(schedule)
        self.pos = 0
        self.choices = []           # per choice point: (kind, options, taken, current-was-an-option)
        self.threads = []
        self.current = None
        self.kill = False
        self.error = None
        self.mutexes = {}           # id(record) -> owner tid or None
        self.cvs = {}               # id(record) -> [waiting tids]
        self.preempt_bound = preempt_bound
        self.events = []            # (tid, what, ...) in the global order of the run
        self.switches = 0
        self.on_acquire = None      # harness callback: a thread has just taken a mutex (the linearisation point of what it does under it)
        main = MThread(0, 'main')
        main.py = threading.current_thread()
        self.threads.append(main)
        self.current = main
        it.raii['std::lock_guard<'] = (self._lg_ctor, self._lg_dtor)
        it.raii['std::unique_lock<'] = (self._ul_ctor, self._ul_dtor)
        it.hooks.update({'mutex::lock': self.h_lock, 'mutex::unlock': self.h_unlock, 'unique_lock::unlock': self.h_ul_unlock, 'unique_lock::lock': self.h_ul_lock,
                         'mutex::try_lock': self.h_try_lock, 'condition_variable::wait_for': self.h_wait_for, 'thread::swap': self.h_thread_swap,
                         'condition_variable::wait': self.h_wait, 'condition_variable::notify_one': self.h_notify_one, 'condition_variable::notify_all': self.h_notify_all,
                         'atomic::exchange': self.h_at_exchange, 'atomic::store': self.h_at_store, 'atomic::load': self.h_at_load, '__atomic_base::exchange': self.h_at_exchange,
                         '__atomic_base::store': self.h_at_store, '__atomic_base::load': self.h_at_load, 'atomic::operator=': self.h_at_store, '__atomic_base::operator=': self.h_at_store,
                         'atomic::operator bool': self.h_at_load, 'atomic::operator int': self.h_at_load, '__atomic_base::operator bool': self.h_at_load,
                         'thread::join': self.h_join, 'thread::joinable': self.h_joinable, 'thread::detach': self.h_detach, 'get_id': lambda it, f, st, a: self.current.tid})

    # ---- choices
    def choose(self, kind, options, cur_ok, first=None):
        """pick one of `options` (thread ids); the default keeps the current thread going when it can, else takes `first` (the lowest runnable id)"""
        if len(options) == 1:
            return options[0]
        default = self.current.tid if (cur_ok and self.current.tid in options) else (first if first is not None else options[0])
        if self.pos < len(self.schedule):
            c = self.schedule[self.pos]
            if c not in options:
                raise AnalysisBroken('schedule replay diverged (choice %d: %s not among %s)' % (self.pos, c, options))
        else:
            c = default
        self.pos += 1
        self.choices.append((kind, tuple(options), c, default))
        return c

    def runnable(self):
        return [t.tid for t in self.threads if not t.done and t.waiting is None]

    def sleepers(self):
        """threads asleep in a timed wait: the schedule may let their time-out fire at any scheduling point"""
        return [t.tid for t in self.threads if not t.done and t.waiting is not None and t.waiting[0] == 'cv' and getattr(t, 'timed', False)]

    def reschedule(self, kind='switch'):
        """a scheduling point reached by the running thread: somebody runnable goes on (maybe the same thread)"""
        me = self.current
        opts = self.runnable()
        main = self.threads[0]
        if not opts and main.waiting is not None and main.waiting[0] == 'gate' and not main.done:
            main.waiting = None         # everybody else has come to rest: the parked main thread looks at its condition again
            opts = [0]
        real = list(opts)
        opts = real + [x for x in self.sleepers() if x not in real]
        if not opts:
            self.deadlock = 'no thread can go on: %s' % '; '.join('%s waits for %s' % (t.name, self.describe_wait(t)) for t in self.threads if not t.done)
            if me.tid == 0:
                raise Deadlock(self.deadlock)
            # hand the bad news to the main thread: it is the one that reports
            self.threads[0].waiting = None
            self._handoff(me, self.threads[0])
            return
        nxt = self.choose(kind, opts, me.waiting is None and not me.done, first=(real[0] if real else opts[0]))
        t = self.threads[nxt]
        if t.waiting is not None:       # a timed sleeper was chosen: its time-out fires
            if t.tid in self.cvs.get(t.waiting[1], []):
                self.cvs[t.waiting[1]].remove(t.tid)
            t.waiting = None
            t.timed_out = True
        if nxt != me.tid:
            self._handoff(me, t)

    def describe_wait(self, t):
        w = t.waiting
        if w is None:
            return 'nothing'
        if w[0] == 'join':
            return 'the end of %s' % self.threads[w[1]].name
        return {'mutex': 'a mutex', 'cv': 'a condition variable', 'gate': 'the harness'}.get(w[0], w[0])

    def _handoff(self, me, to):
        it = self.it
        self.switches += 1
        if self.switches > 20000:
            self.error = self.error or AnalysisBroken('the model threads keep switching (more than 20000 switches)')
            self.kill = True
        me.saved = (it.this, getattr(it, '_depth', 0), it.cur_obj)
        self.current = to
        to.sem.release()
        if me.done:
            return
        me.sem.acquire()
        if self.kill:
            raise _Kill()
        it.this, it._depth, it.cur_obj = me.saved
        if getattr(self, 'deadlock', None) and me.tid == 0:
            raise Deadlock(self.deadlock)

    # ---- threads
    def spawn(self, fn, args, name=None):
        t = MThread(len(self.threads), name or 'thread-%d' % len(self.threads))
        self.threads.append(t)
        f0 = self.it.prog.funcs[next(iter(self.it.prog.funcs))]

        def body():
            it = self.it
            t.sem.acquire()
            try:
                if self.kill:
                    return
                it._depth = 0
                it.this = None
                it.invoke(f0, f0.stmts[0], fn, list(args))
            except _Kill:
                pass
            except minterp._Abort:
                pass
            except BaseException as e:      # noqa: re-raised by the main thread
                self.error = self.error or e
            finally:
                t.done = True
                self.events.append((t.tid, 'thread-end'))
                if not self.kill:
                    for o in self.threads:
                        if o.waiting == ('join', t.tid):
                            o.waiting = None
                    try:
                        if self.error is not None:
                            self.threads[0].waiting = None
                            self.current = self.threads[0]
                            self.threads[0].sem.release()
                        else:
                            self.current = t
                            self.reschedule('end')
                    except BaseException:
                        pass
        t.py = threading.Thread(target=body, daemon=True)
        t.py.start()
        self.events.append((self.current.tid, 'spawn', t.tid))
        self.reschedule('spawn')
        return t

    def h_join(self, it, f, st, a):
        rec = it.record_of(it.cur_obj)
        t = rec.get('mthread') if rec else None
        if t is None:
            raise AnalysisBroken('%s: join on a thread object the replay does not hold (%s)' % (f.short, f.loc(st['i'])))
        if t.joined or rec.get('detached'):
            it.fault(f, st, 'join() on a thread that is not joinable (already joined or detached): std::system_error')
            raise minterp._Abort()
        if t is self.current:
            it.fault(f, st, 'a thread joins itself (resource_deadlock_would_occur)')
            raise minterp._Abort()
        while not t.done:
            self.current.waiting = ('join', t.tid)
            self.reschedule('join')
        t.joined = True
        self.events.append((self.current.tid, 'joined', t.tid))
        return None

    def h_joinable(self, it, f, st, a):
        rec = it.record_of(it.cur_obj)
        t = rec.get('mthread') if rec else None
        return int(t is not None and not t.joined and not rec.get('detached'))

    def h_detach(self, it, f, st, a):
        rec = it.record_of(it.cur_obj)
        rec['detached'] = True
        return None

    def new_thread_object(self, fn, args=()):
        rec = {'__cls__': 'std::thread', '__open__': True}
        self.it._keep.append(rec)
        rec['mthread'] = self.spawn(fn, args)
        return rec

    # ---- mutexes
    def _lock(self, m, f, st):
        key = id(m)
        me = self.current
        if self.mutexes.get(key) == me.tid:
            self.it.fault(f, st, 'a thread locks a (non-recursive) mutex it already holds: it blocks for ever')
            raise minterp._Abort()
        self.reschedule('lock')
        while self.mutexes.get(key) is not None:
            me.waiting = ('mutex', key)
            self.reschedule('lock-wait')
        self.mutexes[key] = me.tid
        if self.on_acquire is not None:
            self.on_acquire(me.tid)

    def _unlock(self, m, f, st):
        key = id(m)
        if self.mutexes.get(key) != self.current.tid:
            self.it.fault(f, st, 'a mutex is unlocked by a thread that does not hold it')
            raise minterp._Abort()
        self.mutexes[key] = None
        for t in self.threads:
            if t.waiting == ('mutex', key):
                t.waiting = None
        self.reschedule('unlock')

    def _mutex_of(self, v, f, st):
        m = self.it.record_of(v)
        if m is None:
            raise AnalysisBroken('%s: lock operation on something the replay does not hold as a mutex (%s)' % (f.short, f.loc(st['i'])))
        return m

    def h_lock(self, it, f, st, a):
        self._lock(self._mutex_of(it.cur_obj, f, st), f, st)

    def h_unlock(self, it, f, st, a):
        self._unlock(self._mutex_of(it.cur_obj, f, st), f, st)

    # ---- std::atomic<T>: a cell of its own; every operation on it is a scheduling point
    def _atomic(self, it, f, st):
        rec = it.record_of(it.cur_obj)
        if rec is None:
            raise AnalysisBroken('%s: atomic operation on something the replay does not hold (%s)' % (f.short, f.loc(st['i'])))
        return rec

    def h_at_exchange(self, it, f, st, a):
        rec = self._atomic(it, f, st)
        self.reschedule('atomic')
        old = rec.get('v', 0)
        rec['v'] = a[0]
        return old

    def h_at_store(self, it, f, st, a):
        rec = self._atomic(it, f, st)
        self.reschedule('atomic')
        rec['v'] = a[0]
        return a[0]

    def h_at_load(self, it, f, st, a):
        rec = self._atomic(it, f, st)
        self.reschedule('atomic')
        return rec.get('v', 0)

    def h_try_lock(self, it, f, st, a):
        m = self._mutex_of(it.cur_obj, f, st)
        self.reschedule('try-lock')
        if self.mutexes.get(id(m)) is not None:
            return 0
        self.mutexes[id(m)] = self.current.tid
        if self.on_acquire is not None:
            self.on_acquire(self.current.tid)
        return 1

    def h_thread_swap(self, it, f, st, a):
        x, y = it.record_of(it.cur_obj), it.record_of(a[0])
        if x is None or y is None:
            raise AnalysisBroken('%s: swap of thread objects the replay does not hold (%s)' % (f.short, f.loc(st['i'])))
        for k_ in ('mthread', 'detached'):
            x[k_], y[k_] = y.get(k_), x.get(k_)
        return None

    def _lg_ctor(self, it, f, st, args):
        m = self._mutex_of(args[0], f, st)
        self._lock(m, f, st)
        return it.ref({'__cls__': 'lock', '__open__': True, 'm': m, 'owns': 1})

    def _lg_dtor(self, it, f, st, obj):
        r = it.record_of(obj)
        if r['owns'] and not self.kill:
            r['owns'] = 0
            self._unlock(r['m'], f, st)

    _ul_ctor = _lg_ctor
    _ul_dtor = _lg_dtor

    def h_ul_unlock(self, it, f, st, a):
        r = it.record_of(it.cur_obj)
        if not r['owns']:
            it.fault(f, st, 'unique_lock::unlock() without owning the mutex: std::system_error')
            raise minterp._Abort()
        r['owns'] = 0
        self._unlock(r['m'], f, st)

    def h_ul_lock(self, it, f, st, a):
        r = it.record_of(it.cur_obj)
        self._lock(r['m'], f, st)
        r['owns'] = 1

    # ---- condition variables
    def h_wait(self, it, f, st, a):
        cv = it.record_of(it.cur_obj)
        if cv is None:
            raise AnalysisBroken('%s: wait on something the replay does not hold as a condition variable (%s)' % (f.short, f.loc(st['i'])))
        lk = it.record_of(a[0])
        pred = a[1] if len(a) > 1 else None
        me = self.current
        while True:
            if pred is not None and it.invoke(f, st, pred, []):
                return None
            if not lk['owns']:
                it.fault(f, st, 'condition_variable::wait() with a lock that is not held')
                raise minterp._Abort()
            self.cvs.setdefault(id(cv), []).append(me.tid)
            me.waiting = ('cv', id(cv))
            lk['owns'] = 0
            self.mutexes[id(lk['m'])] = None
            for t in self.threads:
                if t.waiting == ('mutex', id(lk['m'])):
                    t.waiting = None
            self.reschedule('cv-wait')
            self._lock(lk['m'], f, st)
            lk['owns'] = 1
            if pred is None:
                return None

    def h_wait_for(self, it, f, st, a):
        """wait_for(lock, duration[, predicate]): as wait, and the time-out may fire whenever the thread would otherwise sleep — a choice of the schedule"""
        cv = it.record_of(it.cur_obj)
        lk = it.record_of(a[0])
        pred = a[2] if len(a) > 2 else None
        me = self.current
        while True:
            if pred is not None and it.invoke(f, st, pred, []):
                return 1
            self.cvs.setdefault(id(cv), []).append(me.tid)
            me.waiting = ('cv', id(cv))
            me.timed = True
            me.timed_out = False
            lk['owns'] = 0
            self.mutexes[id(lk['m'])] = None
            for t in self.threads:
                if t.waiting == ('mutex', id(lk['m'])):
                    t.waiting = None
            self.reschedule('cv-wait')
            me.timed = False
            self._lock(lk['m'], f, st)
            lk['owns'] = 1
            if me.timed_out:
                return int(bool(it.invoke(f, st, pred, []))) if pred is not None else 0
            if pred is None:
                return 1

    def choose_flag(self, kind, default=0):
        if self.pos < len(self.schedule):
            c = self.schedule[self.pos]
            if c not in (0, 1):
                raise AnalysisBroken('schedule replay diverged (flag choice %d: %s)' % (self.pos, c))
        else:
            c = default
        self.pos += 1
        self.choices.append((kind, (0, 1), c, default))
        return c

    def h_notify_one(self, it, f, st, a):
        cv = it.record_of(it.cur_obj)
        ws = self.cvs.get(id(cv), [])
        if ws:
            w = self.choose('notify', sorted(ws), False) if len(ws) > 1 else ws[0]
            ws.remove(w)
            self.threads[w].waiting = None
        self.reschedule('notify')

    def h_notify_all(self, it, f, st, a):
        cv = it.record_of(it.cur_obj)
        for w in self.cvs.get(id(cv), []):
            self.threads[w].waiting = None
        self.cvs[id(cv)] = []
        self.reschedule('notify')

    # ---- the harness side
    def park_main_until(self, cond, what):
        """the main thread lets the others run until cond() holds; a state in which nobody can go on before that is reported by Deadlock"""
        me = self.current
        if me.tid != 0:
            raise AnalysisBroken('park_main_until is for the main thread')
        while not cond():
            me.waiting = ('gate', what)
            others = [t for t in self.threads if t.tid != 0 and not t.done and t.waiting is None]
            if not others:
                me.waiting = None
                raise Deadlock('%s: no thread can go on: %s' % (what, '; '.join('%s waits for %s' % (t.name, self.describe_wait(t)) for t in self.threads if not t.done and t.tid != 0) or 'all workers have ended'))
            self.reschedule('park')
            me.waiting = None
            if self.error is not None:
                raise self.error

    def shutdown(self):
        self.kill = True
        for t in self.threads[1:]:
            if not t.done:
                t.sem.release()
        for t in self.threads[1:]:
            if t.py is not None:
                t.py.join(2.0)


def explore(run_once, preempt_bound=2, max_runs=20000):
    """depth-first enumeration of schedules: run_once(schedule) -> (choices, verdict); stops at the first verdict that is not None.
    Returns (number of runs, failing schedule or None, verdict or None)."""
    stack = [[]]
    seen = 0
    while stack:
        sched = stack.pop()
        choices, verdict = run_once(sched)
        seen += 1
        if verdict is not None:
            return seen, [c[2] for c in choices], verdict
        if seen >= max_runs:
            break
        # alternatives after the prefix that was dictated
        pre = 0
        for i, (kind, options, taken, default) in enumerate(choices):
            if i >= len(sched):
                for o in options:
                    if o == taken:
                        continue
                    cost = pre + (1 if (o != default) else 0)
                    if cost <= preempt_bound:
                        stack.append([c[2] for c in choices[:i]] + [o])
            if taken != default:
                pre += 1
    return seen, None, None
