"""A1 lockset / thread-role race analysis, A2 lock-order edges, A3 atomic regions.

Locks are identified by the qualified name of the mutex field/global (one instance per
object is assumed, see DESIGN §8 'Aliasing').  The lockset is a *must-hold* set: joins
intersect, so a lock counts only where it is held on every path.
"""
from .facts import AnalysisBroken

RAII_LOCKS = ('std::lock_guard<', 'std::unique_lock<', 'std::scoped_lock<')
MUTEX_CLASSES = ('std::mutex', 'std::recursive_mutex', 'std::timed_mutex', 'std::recursive_timed_mutex')
CV_WAITS = ('wait', 'wait_for', 'wait_until')


def is_raii_lock(ctor):
    return ctor.startswith(RAII_LOCKS)


class LockEngine:
    def __init__(self, prog, scope_funcs, sync_hof=(), deferred=None, opaque=()):
        """scope_funcs: Funcs analysed interprocedurally (calls among them are followed).
        sync_hof: callee-name prefixes that run a passed callable synchronously.
        deferred: {callee-name prefix: role or None} — callables passed there run later
        (empty lockset) under the named role."""
        self.prog = prog
        self.scope = {f.key: f for f in scope_funcs}
        self.by_usr = {}
        for f in scope_funcs:
            if not f.parent_usr:
                self.by_usr.setdefault(f.usr, f)
        self.sync_hof = tuple(sync_hof)
        self.deferred = dict(deferred or {})
        self._memo = {}
        self._inprogress = set()
        self.var_lock_cache = {}

    # ---- identification ------------------------------------------------------
    def mutex_id(self, f, eid):
        eid = f.strip_casts(eid)
        st = f.s(eid)
        if st is None:
            return None
        if st['k'] == 'MemberExpr' and st.get('mk') == 'field':
            return st['q']
        if st['k'] == 'DeclRefExpr':
            if st.get('gl'):
                return st.get('q')
            return 'local:' + st.get('n', '?')
        if st['k'] == 'UnaryOperator' and st.get('op') in ('*', '&'):
            return self.mutex_id(f, st['ch'][0])
        return None

    def _var_locks(self, f):
        """decl id of RAII lock variable -> (mutex id, acquired_at_construction)"""
        if f.key in self.var_lock_cache:
            return self.var_lock_cache[f.key]
        m = {}
        for st in f.stmts:
            if st and st['k'] == 'DeclStmt':
                for d in st['decls']:
                    if d.get('dk') != 'Var' or 'init' not in d:
                        continue
                    ct = d.get('ct', '')
                    if not ct.startswith(RAII_LOCKS):
                        continue
                    init = f.s(f.strip(d['init']))
                    if init and init['k'] == 'CXXConstructExpr' and init.get('args'):
                        mid = self.mutex_id(f, init['args'][0])
                        acquired = True
                        if len(init['args']) > 1:
                            t2 = f.s(init['args'][1]).get('ct') or f.s(init['args'][1]).get('t', '')
                            if 'defer_lock' in t2 or 'try_to_lock' in t2:
                                acquired = False
                        m[d['d']] = (mid, acquired, init['i'])
        self.var_lock_cache[f.key] = m
        return m

    def resolve_callee(self, st):
        """scope function for a call statement, if the callee is defined in scope and the
        call is not virtual-dispatched to an unknown override"""
        u = st.get('usr')
        if not u:
            return None
        return self.by_usr.get(u)

    # ---- intraprocedural lockset with call summaries ---------------------------
    def analyze(self, f, entry=frozenset()):
        """returns dict: point -> lockset held *before* the element at that point,
        plus key 'exit' -> lockset at function exit (intersection over returns)"""
        key = (f.key, entry)
        if key in self._memo:
            return self._memo[key]
        if key in self._inprogress:
            return None
        self._inprogress.add(key)
        cfg = f.cfg
        if not cfg.ok:
            raise AnalysisBroken('no CFG for %s' % f.name)
        vl = self._var_locks(f)
        ctor_to_var = {v[2]: (d, v[0], v[1]) for d, v in vl.items()}

        def transfer(pt, e, state):
            if e[0] == 'D':
                d = e[1]
                if d in vl and vl[d][0] is not None:
                    return state - {vl[d][0]}
                return state
            if e[0] not in ('S', 'I'):
                return state
            st = f.stmts[e[1] if e[0] == 'S' else e[2]]
            k = st['k']
            if k == 'CXXConstructExpr' and st['i'] in ctor_to_var:
                d, mid, acq = ctor_to_var[st['i']]
                if acq and mid is not None:
                    return state | {mid}
                return state
            if k == 'CXXMemberCallExpr':
                cls = st.get('cls', '')
                fn = st.get('fn')
                if fn in ('lock', 'unlock') and (cls in MUTEX_CLASSES or cls.startswith('std::unique_lock<')):
                    mid = None
                    if cls in MUTEX_CLASSES:
                        mid = self.mutex_id(f, st.get('obj'))
                    else:
                        o = f.s(f.strip_casts(st.get('obj')))
                        if o and o['k'] == 'DeclRefExpr' and o.get('d') in vl:
                            mid = vl[o['d']][0]
                    if mid is not None:
                        return (state | {mid}) if fn == 'lock' else (state - {mid})
                    return state
            if k in ('CallExpr', 'CXXMemberCallExpr', 'CXXOperatorCallExpr'):
                g = self.resolve_callee(st)
                if g is not None and not st.get('virt'):
                    r = self.analyze(g, frozenset(state))
                    if r is not None:
                        return frozenset(r['exit'])
            return state

        def edge(b, k, state):
            # try_lock(): acquired on the true edge only
            if b.cond is not None and len(b.succ) == 2:
                c = f.s(f.strip_casts(b.cond))
                neg = False
                while c and c['k'] == 'UnaryOperator' and c.get('op') == '!':
                    neg = not neg
                    c = f.s(f.strip_casts(c['ch'][0]))
                if c and c['k'] == 'CXXMemberCallExpr' and c.get('fn') == 'try_lock':
                    cls = c.get('cls', '')
                    mid = None
                    if cls in MUTEX_CLASSES:
                        mid = self.mutex_id(f, c.get('obj'))
                    elif cls.startswith('std::unique_lock<'):
                        o = f.s(f.strip_casts(c.get('obj')))
                        if o and o['k'] == 'DeclRefExpr' and o.get('d') in vl:
                            mid = vl[o['d']][0]
                    if mid is not None:
                        taken_edge = 1 if neg else 0
                        if k == taken_edge:
                            return state | {mid}
            return state

        inn, before = cfg.forward(frozenset(entry), transfer, lambda a, b: a & b, edge=edge)
        res = dict(before)
        res['exit'] = inn.get(cfg.exit, frozenset(entry))
        self._inprogress.discard(key)
        self._memo[key] = res
        return res

    # ---- contexts (function, entry lockset, role) ------------------------------
    def lambda_use(self, f, lam_id):
        """how a LambdaExpr / bind expression value is used: ('arg', call stmt, index) /
        ('assign', lhs id) / ('init', decl) / ('other', None)"""
        cur = lam_id
        for a in f.ancestors(lam_id):
            st = f.stmts[a]
            k = st['k']
            if k in ('ImplicitCastExpr', 'ParenExpr', 'ExprWithCleanups', 'MaterializeTemporaryExpr',
                     'CXXBindTemporaryExpr', 'CXXFunctionalCastExpr', 'CXXStaticCastExpr'):
                cur = a
                continue
            if k == 'CXXConstructExpr' and (st['ctor'].startswith('std::function<') or st.get('copy') or st.get('move')):
                cur = a
                continue
            if k in ('CallExpr', 'CXXMemberCallExpr', 'CXXOperatorCallExpr'):
                if k == 'CXXOperatorCallExpr' and st.get('op') == '=':
                    return ('assign', st.get('obj'), st)
                callee = st.get('callee', '')
                if callee.startswith('std::move') or callee.startswith('std::forward'):
                    cur = a
                    continue
                args = st.get('args', [])
                idx = None
                for n, x in enumerate(args):
                    if x == cur or cur in set(f.walk(x)):
                        idx = n
                        break
                return ('arg', st, idx)
            if k == 'CXXConstructExpr' or k == 'CXXTemporaryObjectExpr':
                return ('ctorarg', st, None)
            if k == 'CXXNewExpr':
                cur = a
                continue
            if k == 'DeclStmt':
                return ('init', st, None)
            if k == 'BinaryOperator' and st.get('op') == '=':
                return ('assign', st['ch'][0], st)
            if k == 'ReturnStmt':
                return ('return', st, None)
            return ('other', st, None)
        return ('other', None, None)

    def bind_target(self, f, call_st):
        """for std::bind(&C::m, this, ...) return the Func of C::m if in scope"""
        if not call_st.get('callee', '').startswith('std::bind'):
            return None
        args = call_st.get('args', [])
        if not args:
            return None
        a0 = f.s(f.strip_casts(args[0]))
        if a0 and a0['k'] == 'UnaryOperator' and a0.get('op') == '&':
            dr = f.s(f.strip_casts(a0['ch'][0]))
            if dr and dr['k'] == 'DeclRefExpr' and dr.get('usr'):
                return self.by_usr.get(dr['usr'])
        return None

    def contexts(self, roles, thread_entries=None):
        """roles: {role: [entry Funcs]}.  thread_entries: {func usr: role} for functions
        started through std::thread / std::bind.  Returns list of (Func, entry lockset, role)."""
        thread_entries = thread_entries or {}
        seen = set()
        work = []
        for role, fs in roles.items():
            for f in fs:
                if isinstance(f, tuple):
                    work.append((f[0], frozenset(f[1]), role))
                else:
                    work.append((f, frozenset(), role))
        out = []
        while work:
            f, entry, role = work.pop()
            k = (f.key, entry, role)
            if k in seen:
                continue
            seen.add(k)
            out.append((f, entry, role))
            res = self.analyze(f, entry)
            cfg = f.cfg
            for pt, st in cfg.stmt_points():
                ls = res.get(pt)
                if ls is None:
                    continue  # unreachable
                k2 = st['k']
                if k2 in ('CallExpr', 'CXXMemberCallExpr', 'CXXOperatorCallExpr'):
                    g = self.resolve_callee(st)
                    if g is not None:
                        work.append((g, frozenset(ls), role))
                    bt = self.bind_target(f, st)
                    if bt is not None:
                        use = self.lambda_use(f, st['i'])
                        self._dispatch_callable(bt, use, ls, role, work, thread_entries, f)
                elif k2 == 'LambdaExpr':
                    lam = self.prog.lambda_func(f, st)
                    if lam is None or lam.key not in self.scope:
                        continue
                    use = self.lambda_use(f, st['i'])
                    self._dispatch_callable(lam, use, ls, role, work, thread_entries, f)
        return out

    def _dispatch_callable(self, target, use, ls, role, work, thread_entries, f):
        kind, st, idx = use
        if kind == 'arg':
            callee = st.get('callee', '')
            if st.get('fn') in CV_WAITS and st.get('cls', '').startswith('std::condition_variable'):
                work.append((target, frozenset(ls), role))
                return
            if callee.startswith(self.sync_hof):
                work.append((target, frozenset(ls), role))
                return
            for pfx, r in self.deferred.items():
                if callee.startswith(pfx):
                    work.append((target, frozenset(), r or role))
                    return
            # unknown higher-order use: be conservative — runs later, same role, no locks
            work.append((target, frozenset(), thread_entries.get(target.usr, role)))
        elif kind == 'ctorarg':
            ctor = st.get('ctor', '')
            if ctor == 'std::thread':
                work.append((target, frozenset(), thread_entries.get(target.usr, 'thread:' + target.name)))
            else:
                work.append((target, frozenset(), thread_entries.get(target.usr, role)))
        else:
            work.append((target, frozenset(), thread_entries.get(target.usr, role)))


# ---- access classification ------------------------------------------------------

READ_OPS = ('==', '!=', '<', '>', '<=', '>=', '()', '->', '*', 'bool', '!')


def classify_access(f, mid):
    """'w' if the lvalue expression `mid` (a field MemberExpr) is written, mutated through a
    non-const method, bound to a non-const reference or has its address taken; else 'r'."""
    cur = mid
    while True:
        p = f.parent.get(cur)
        if p is None:
            return 'r'
        st = f.stmts[p]
        k = st['k']
        if k == 'ImplicitCastExpr':
            ck = st.get('ck')
            if ck == 'LValueToRValue':
                return 'r'
            if ck == 'NoOp' and (st.get('t', '').startswith('const ') or ' const' in st.get('t', '')):
                return 'r'
            if ck in ('ArrayToPointerDecay',):
                # array decays to pointer: element writes go through the pointer
                cur = p
                continue
            cur = p
            continue
        if k in ('ParenExpr', 'ExprWithCleanups', 'MaterializeTemporaryExpr', 'CXXBindTemporaryExpr', 'ConstantExpr'):
            cur = p
            continue
        if k in ('BinaryOperator', 'CompoundAssignOperator'):
            op = st.get('op', '')
            if op == ',':
                cur = p
                continue
            if op.endswith('=') and op not in ('==', '!=', '<=', '>=') and st['ch'][0] == cur:
                return 'w'
            return 'r'
        if k == 'UnaryOperator':
            if st.get('op') in ('++', '--', '&'):
                return 'w'
            if st.get('op') == '*':
                cur = p
                continue
            return 'r'
        if k == 'ConditionalOperator':
            if st['ch'][0] == cur:
                return 'r'
            cur = p
            continue
        if k in ('MemberExpr', 'ArraySubscriptExpr'):
            if k == 'ArraySubscriptExpr' and st['ch'][0] != cur:
                return 'r'
            cur = p
            continue
        if k in ('CXXMemberCallExpr', 'CXXOperatorCallExpr') and st.get('obj') == cur:
            if st.get('mconst'):
                return 'r'
            if k == 'CXXOperatorCallExpr' and st.get('op') in READ_OPS:
                return 'r'
            return 'w'
        if k in ('CXXMemberCallExpr', 'CXXOperatorCallExpr', 'CallExpr', 'CXXConstructExpr', 'CXXTemporaryObjectExpr'):
            if st.get('calleeexpr') == cur:
                return 'r'
            # an lvalue that reaches an argument slot without an lvalue-to-rvalue or
            # add-const conversion is bound to a non-const reference parameter
            cst = f.stmts[cur]
            if cst.get('lv') and not (cst.get('t', '').startswith('const ')):
                return 'w'
            return 'r'
        if k == 'DeclStmt':
            for d in st.get('decls', ()):
                if d.get('init') == cur or (d.get('init') is not None and f.strip(d['init']) == f.strip(cur)):
                    if d.get('n', '').startswith('__range') or d.get('n', '').startswith('__begin') or d.get('n', '').startswith('__end'):
                        return 'r'
                    t = d.get('t', '')
                    if t.endswith('&') and not t.startswith('const '):
                        return 'w'
            return 'r'
        if k in CASTS_UP:
            cur = p
            continue
        if k == 'ReturnStmt':
            cst = f.stmts[cur]
            return 'w' if (cst.get('lv') and f.d.get('ret', '').endswith('&') and not f.d.get('ret', '').startswith('const ')) else 'r'
        if k == 'CXXDeleteExpr':
            return 'r'
        if k == 'LambdaExpr':
            return 'w'  # captured by reference / init-capture of an lvalue
        return 'r'


CASTS_UP = ('CStyleCastExpr', 'CXXStaticCastExpr', 'CXXFunctionalCastExpr', 'CXXReinterpretCastExpr', 'CXXConstCastExpr')


def global_accesses(f, names):
    """yield (stmt, qualified name, 'r'|'w') for references to namespace-scope variables"""
    for st in f.stmts:
        if st and st['k'] == 'DeclRefExpr' and st.get('gl') and st.get('q') in names:
            yield st, st['q'], classify_access(f, st['i'])


def field_accesses(f, fields=None):
    """yield (stmt, qualified field, 'r'|'w') for outermost field MemberExprs in f.
    For nested member chains (d_->x.y) the access is attributed to every field on the
    chain that is in `fields`."""
    for st in f.stmts:
        if not st or st['k'] != 'MemberExpr' or st.get('mk') != 'field':
            continue
        q = st['q']
        if fields is not None and q not in fields:
            continue
        yield st, q, classify_access(f, st['i'])


# ---- A1 rule ---------------------------------------------------------------------

EXEMPT_TYPES = ('std::mutex', 'std::recursive_mutex', 'std::condition_variable', 'std::atomic<',
                'std::atomic_', 'const ')


def site_name(prog, f):
    o = prog.outermost(f)
    return o.name + ('/lambda' if f is not o else '')


def collect_accesses(prog, eng, contexts, fields):
    """list of dicts: field, rw, func, role, lockset, where"""
    out = []
    seen = set()
    for f, entry, role in contexts:
        res = eng.analyze(f, entry)
        cfg = f.cfg
        import itertools
        for st, q, rw in itertools.chain(field_accesses(f, fields), global_accesses(f, fields)):
            pt = cfg.point_of(st['i'])
            if pt is None or pt not in res:
                continue  # not reachable / not in CFG (e.g. unevaluated)
            ls = res[pt]
            key = (f.key, st['i'], role, ls)
            if key in seen:
                continue
            seen.add(key)
            out.append({'field': q, 'rw': rw, 'func': f, 'role': role, 'ls': ls, 'where': f.loc(st['i']),
                        'sid': st['i']})
    return out


def race_rule(ctx, rule, prog, eng, contexts, fields, multi_roles=(), not_concurrent=(), quiescent=(),
              exceptions=None, phase=None):
    """Eraser-style pairwise common-lock discipline made exact by thread roles.
    One obligation per (function, field).  `exceptions`: {(function name, field short) or field short: reason}.
    `phase(access) -> set of roles the access cannot overlap` (thread not yet started / already joined)."""
    exceptions = exceptions or {}
    accs = collect_accesses(prog, eng, contexts, fields)
    nc = set(frozenset(p) for p in not_concurrent)
    by_field = {}
    for a in accs:
        if site_name(prog, a['func']).split('/')[0] in quiescent or prog.outermost(a['func']).name in quiescent:
            continue
        by_field.setdefault(a['field'], []).append(a)
    n_pairs = 0
    for fld, lst in sorted(by_field.items()):
        short = fld.split('::')[-1]
        blamed = {}   # (site, short) -> detail of first offending pair
        sites = {}
        for a in lst:
            sites.setdefault((site_name(prog, a['func']), short), a)
        for i, a in enumerate(lst):
            for b in lst[i:]:
                if a['rw'] == 'r' and b['rw'] == 'r':
                    continue
                if a['role'] == b['role'] and a['role'] not in multi_roles:
                    continue
                if frozenset((a['role'], b['role'])) in nc:
                    continue
                if phase is not None and (b['role'] in phase(a) or a['role'] in phase(b)):
                    continue
                n_pairs += 1
                if a['ls'] & b['ls']:
                    continue
                # blame the side(s) holding fewer locks
                for x, y in ((a, b), (b, a)):
                    if len(x['ls']) <= len(y['ls']):
                        k = (site_name(prog, x['func']), short)
                        if k not in blamed:
                            blamed[k] = ('%s of %s at %s [role %s, locks {%s}] conflicts with %s at %s '
                                         '[role %s, locks {%s}] — no common lock'
                                         % ('write' if x['rw'] == 'w' else 'read', short, x['where'], x['role'],
                                            ','.join(s.split('::')[-1] for s in sorted(x['ls'])),
                                            'write' if y['rw'] == 'w' else 'read', y['where'], y['role'],
                                            ','.join(s.split('::')[-1] for s in sorted(y['ls']))))
        for (site, sh), a in sorted(sites.items(), key=lambda kv: kv[0]):
            exc = exceptions.get((site, sh)) or exceptions.get(sh)
            if (site, sh) in blamed and not exc:
                ctx.ob(rule, '%s|%s' % (site, sh), False, blamed[(site, sh)], where=a['where'])
            else:
                ctx.ob(rule, '%s|%s' % (site, sh), True,
                       ('table exception: ' + exc) if ((site, sh) in blamed and exc) else
                       'every conflicting concurrent pair shares a lock (locks here: {%s})'
                       % ','.join(s.split('::')[-1] for s in sorted(a['ls'])), where=a['where'])
    ctx.stats['race_pairs_checked'] = ctx.stats.get('race_pairs_checked', 0) + n_pairs
    return accs


def class_fields(prog, cls, exempt=EXEMPT_TYPES):
    c = prog.cls(cls)
    out = set()
    for fd in c['fields']:
        if fd['ct'].startswith(exempt):
            continue
        out.add(cls + '::' + fd['n'])
    return out


class _All:
    def __contains__(self, x):
        return True


ALL_ROLES = _All()


def is_thread_ctor(st):
    return st['k'] == 'CXXConstructExpr' and st.get('ctor') == 'std::thread' and st.get('args')


def thread_phase(prog, eng, single_thread_fields=None, starters=None):
    """phase(access) -> roles the access cannot overlap:
    (1) in a constructor, an access that no thread-start point can reach precedes every
        thread of the object and its publication -> overlaps nothing;
    (2) an access dominated by join() on a std::thread *field* listed in
        single_thread_fields {qualified field: role} cannot overlap that role."""
    single_thread_fields = single_thread_fields or {}
    starters = starters or {}
    start_cache = {}

    def starts_thread(g, depth=0):
        if g.key in start_cache:
            return start_cache[g.key]
        start_cache[g.key] = False
        r = False
        for st in g.stmts:
            if not st:
                continue
            if is_thread_ctor(st):
                r = True
                break
            if depth < 4 and st['k'] in ('CallExpr', 'CXXMemberCallExpr'):
                h = eng.resolve_callee(st)
                if h is not None and starts_thread(h, depth + 1):
                    r = True
                    break
        start_cache[g.key] = r
        return r

    def phase(a):
        f = a['func']
        if f.parent_func is not None:
            return ()
        cfg = f.cfg
        p = cfg.point_of(a['sid'])
        if p is None:
            return ()
        excl = set()
        if f.d.get('ctor') or f.name in starters:
            starts = []
            for pt, st in cfg.stmt_points():
                if is_thread_ctor(st):
                    starts.append(pt)
                elif st['k'] in ('CallExpr', 'CXXMemberCallExpr'):
                    h = eng.resolve_callee(st)
                    if h is not None and starts_thread(h):
                        starts.append(pt)
            if not any(cfg.exists_path(t, p) for t in starts):
                if f.d.get('ctor'):
                    return ALL_ROLES
                excl.add(starters[f.name])
        for pt, st in cfg.stmt_points():
            if st['k'] == 'CXXMemberCallExpr' and st.get('fn') == 'join' and st.get('cls') == 'std::thread':
                fq = f.field_of(st.get('obj'))
                if fq in single_thread_fields and pt != p and cfg.dominates(pt, p):
                    excl.add(single_thread_fields[fq])
        return excl
    return phase


def lock_order_edges(prog, eng, contexts):
    """A2: edges held -> acquired (blocking acquisitions only; try_lock adds none)."""
    edges = {}
    for f, entry, role in contexts:
        res = eng.analyze(f, entry)
        vl = eng._var_locks(f)
        ctor_to_var = {v[2]: v for d, v in vl.items()}
        for pt, st in f.cfg.stmt_points():
            ls = res.get(pt)
            if ls is None:
                continue
            acq = None
            if st['k'] == 'CXXConstructExpr' and st['i'] in ctor_to_var and ctor_to_var[st['i']][1]:
                acq = ctor_to_var[st['i']][0]
            elif st['k'] == 'CXXMemberCallExpr' and st.get('fn') == 'lock' and st.get('cls', '') in MUTEX_CLASSES:
                acq = eng.mutex_id(f, st.get('obj'))
            if acq is None:
                continue
            for h in ls:
                if h != acq:
                    edges.setdefault((h, acq), '%s (%s)' % (f.loc(st['i']), site_name(prog, f)))
    return edges


def find_cycle(edges):
    g = {}
    for a, b in edges:
        g.setdefault(a, set()).add(b)
    color = {}
    path = []

    def dfs(u):
        color[u] = 1
        path.append(u)
        for v in g.get(u, ()):
            if color.get(v) == 1:
                return path[path.index(v):] + [v]
            if v not in color:
                r = dfs(v)
                if r:
                    return r
        color[u] = 2
        path.pop()
        return None
    for u in list(g):
        if u not in color:
            r = dfs(u)
            if r:
                return r
    return None
