"""A7 re-entrancy / invalidation rules under the USER model (a user callback may call any public
method of the object, on the calling thread)."""
from . import q

INVALIDATED_BY_INSERT = ('std::unordered_map<', 'std::unordered_set<', 'std::vector<', 'std::deque<',
                         'std::unordered_multimap<')


def user_invokes(f):
    """std::function / function-pointer invocations in f (the USER call sites)"""
    return q.invokes(f)


def handle_vars(f, member_suffixes=None):
    """locals initialised from find()/begin()/front()-style accessors of a *member* container:
    returns list of (decl dict, container field q, container type, kind 'iter'|'ref')"""
    out = []
    for st in f.stmts:
        if not st or st['k'] != 'DeclStmt':
            continue
        for d in st['decls']:
            if 'init' not in d:
                continue
            c = f.s(f.strip_casts(d['init']))
            if not c or c['k'] not in q.CALL_KINDS or 'obj' not in c:
                continue
            fq = f.field_of(c['obj'])
            if not fq:
                continue
            if member_suffixes and not any(fq.endswith(m) for m in member_suffixes):
                continue
            fn = c.get('fn')
            if fn in ('find', 'begin', 'end', 'lower_bound', 'upper_bound', 'rbegin'):
                out.append((d, fq, c.get('cls', ''), 'iter', st))
            elif fn in ('front', 'back', 'at', 'operator[]') and d.get('t', '').rstrip().endswith('&'):
                out.append((d, fq, c.get('cls', ''), 'ref', st))
    return out


def stale_handle_uses(f, handle_decl, decl_stmt):
    """(user invoke stmt, use stmt) pairs: a use of the handle reachable after a USER call that is
    itself reachable from the handle's initialisation"""
    out = []
    dp = f.cfg.point_of(decl_stmt['i'])
    uses = [st for st in f.stmts if st and st['k'] == 'DeclRefExpr' and st.get('d') == handle_decl]
    for inv in user_invokes(f):
        ip = f.cfg.point_of(inv['i'])
        if ip is None or dp is None or not f.cfg.exists_path(dp, ip):
            continue
        inv_sub = set(f.walk(inv['i']))
        for u in uses:
            if u['i'] in inv_sub:
                continue   # the use that forms the call itself
            up = f.cfg.point_of(u['i'])
            if up is None:
                continue
            # reachable after the invoke without passing the (re)definition
            if f.cfg.exists_path(ip, up, avoid=[dp]):
                out.append((inv, u))
    return out


MUTATORS = ('push_back', 'emplace_back', 'push_front', 'pop_back', 'pop_front', 'erase', 'insert', 'emplace', 'clear', 'resize', 'swap', 'operator=')


def range_loops(f):
    """CXXForRangeStmt statements of f with their range expression"""
    return [st for st in f.stmts if st and st['k'] == 'CXXForRangeStmt']


def local_copy_of_member(f, range_id):
    """if the range expression is a local variable that was copy-initialised from a member container,
    return (local decl, qualified member field, member access path)"""
    x = f.s(f.strip_casts(range_id))
    if not (x and x['k'] == 'DeclRefExpr' and x.get('dk') == 'Var'):
        return None
    for st in f.stmts:
        if st and st['k'] == 'DeclStmt':
            for d in st['decls']:
                if d.get('d') == x['d'] and 'init' in d and not d.get('t', '').rstrip().endswith('&'):
                    src = f.strip_casts(d['init'])
                    fq = f.field_of(src)
                    if fq:
                        return d, fq, f.path(src)
    return None


def reaches_user(prog, g, depth=0, _seen=None):
    """does g (transitively, through resolved calls incl. virtual overriders) invoke a std::function?"""
    _seen = _seen if _seen is not None else set()
    if g.key in _seen or depth > 6:
        return False
    _seen.add(g.key)
    if q.invokes(g):
        return True
    for st in g.calls():
        for h in prog.by_usr.get(st.get('usr'), ()):
            if not h.parent_usr and reaches_user(prog, h, depth + 1, _seen):
                return True
        if st.get('virt'):
            for o in prog.funcs.values():
                if not o.parent_usr and any(ov['usr'] == st.get('usr') for ov in o.d.get('overrides', ())):
                    if reaches_user(prog, o, depth + 1, _seen):
                        return True
    return False


def callee_funcs(prog, st):
    out = [h for h in prog.by_usr.get(st.get('usr'), ()) if not h.parent_usr]
    if st.get('virt'):
        for o in prog.funcs.values():
            if not o.parent_usr and any(ov['usr'] == st.get('usr') for ov in o.d.get('overrides', ())):
                out.append(o)
    return out


def mutates_field(prog, g, field_suffix, depth=0, _seen=None):
    """does g (transitively) call a mutating container method on a field with this suffix?"""
    _seen = _seen if _seen is not None else set()
    if g.key in _seen or depth > 5:
        return None
    _seen.add(g.key)
    for st in g.calls():
        if st.get('fn') in MUTATORS and 'obj' in st:
            fq = g.field_of(st['obj'])
            if fq and fq.endswith(field_suffix):
                return '%s at %s' % (st['fn'], g.loc(st['i']))
    for st in g.calls():
        for h in callee_funcs(prog, st):
            r = mutates_field(prog, h, field_suffix, depth + 1, _seen)
            if r:
                return r
    return None


def snapshot_dispatch(prog, f, member_suffix):
    """A7(ii): range-for loops over a *local copy* of a member container (or of an element of it) whose body
    calls a method on the loop element that reaches user code.  Returns list of dicts
    {loop, call, ok, why}; ok means the call is lexically guarded by a look-up of the element in the
    live container (the member itself, or a local re-resolved from the member inside the loop body)."""
    from . import rd
    out = []
    for l in range_loops(f):
        x = f.s(f.strip_casts(l['range']))
        if not (x and x['k'] == 'DeclRefExpr' and x.get('dk') == 'Var'):
            continue
        # the copy: a by-value local whose initialiser reads the member (directly or through an iterator obtained from it)
        dd = None
        for st in f.stmts:
            if st and st['k'] == 'DeclStmt':
                for d in st['decls']:
                    if d.get('d') == x['d'] and 'init' in d and not d.get('t', '').rstrip().endswith('&'):
                        dd = d
        if dd is None:
            continue

        def from_member(sid, depth=0):
            for y in f.walk(sid):
                sy = f.stmts[y]
                if sy['k'] == 'MemberExpr' and sy.get('mk') == 'field' and sy['q'].endswith(member_suffix):
                    return True
                if depth < 2 and sy['k'] == 'DeclRefExpr' and sy.get('dk') == 'Var':
                    for dfn in rd.local_defs(f, sy['d']):
                        if dfn['rhs'] is not None and from_member(dfn['rhs'], depth + 1):
                            return True
            return False
        if not from_member(dd['init']):
            continue
        lv = l.get('lvd')
        body = set(f.walk(l['body']))
        for c in f.calls():
            if c['i'] not in body or 'obj' not in c:
                continue
            o = f.s(f.strip_casts(c['obj']))
            if not (o and o.get('d') == lv):
                continue
            if not any(reaches_user(prog, t) for t in callee_funcs(prog, c)):
                continue
            ok = False
            for cond, br in q.lexical_guards(f, c['i']):
                if br != 'then' or cond not in body and not (set(f.walk(cond)) & body):
                    continue
                elem_ref = any(f.stmts[y]['k'] == 'DeclRefExpr' and f.stmts[y].get('d') == lv for y in f.walk(cond))
                finder = any(cc.get('callee', '').startswith(('std::find', 'std::count', 'std::any_of')) or cc.get('fn') in ('find', 'count') for cc in q.subtree_calls(f, cond))
                live = False
                for y in f.walk(cond):
                    sy = f.stmts[y]
                    if sy['k'] == 'MemberExpr' and sy.get('mk') == 'field' and sy['q'].endswith(member_suffix):
                        live = True
                    if sy['k'] == 'DeclRefExpr' and sy.get('dk') == 'Var' and sy.get('d') not in (lv, x['d']):
                        for dfn in rd.local_defs(f, sy['d']):
                            if dfn['rhs'] is not None and dfn['sid'] in body and from_member(dfn['rhs']):
                                live = True
                if elem_ref and finder and live:
                    ok = True
            out.append({'loop': l, 'call': c, 'ok': ok})
    return out
