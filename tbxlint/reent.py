"""A7 re-entrancy / invalidation rules under the USER model (a user callback may call any public
method of the object, on the calling thread)."""
from . import q

INVALIDATED_BY_INSERT = ('std::unordered_map<', 'std::unordered_set<', 'std::vector<', 'std::deque<',
                         'std::unordered_multimap<')


def user_invokes(f):
    """std::function / function-pointer invocations in f (the USER call sites)"""
    return q.invokes(f)


def handle_vars(f, member_suffixes=None):
    """locals initialised from find()/begin()/front()-style accessors of a *member* container:
    returns list of (decl dict, container field q, container type, kind 'iter'|'ref')"""
    out = []
    for st in f.stmts:
        if not st or st['k'] != 'DeclStmt':
            continue
        for d in st['decls']:
            if 'init' not in d:
                continue
            c = f.s(f.strip_casts(d['init']))
            if not c or c['k'] not in q.CALL_KINDS or 'obj' not in c:
                continue
            fq = f.field_of(c['obj'])
            if not fq:
                continue
            if member_suffixes and not any(fq.endswith(m) for m in member_suffixes):
                continue
            fn = c.get('fn')
            if fn in ('find', 'begin', 'end', 'lower_bound', 'upper_bound', 'rbegin'):
                out.append((d, fq, c.get('cls', ''), 'iter', st))
            elif fn in ('front', 'back', 'at', 'operator[]') and d.get('t', '').rstrip().endswith('&'):
                out.append((d, fq, c.get('cls', ''), 'ref', st))
    return out


def stale_handle_uses(f, handle_decl, decl_stmt):
    """(user invoke stmt, use stmt) pairs: a use of the handle reachable after a USER call that is
    itself reachable from the handle's initialisation"""
    out = []
    dp = f.cfg.point_of(decl_stmt['i'])
    uses = [st for st in f.stmts if st and st['k'] == 'DeclRefExpr' and st.get('d') == handle_decl]
    for inv in user_invokes(f):
        ip = f.cfg.point_of(inv['i'])
        if ip is None or dp is None or not f.cfg.exists_path(dp, ip):
            continue
        inv_sub = set(f.walk(inv['i']))
        for u in uses:
            if u['i'] in inv_sub:
                continue   # the use that forms the call itself
            up = f.cfg.point_of(u['i'])
            if up is None:
                continue
            # reachable after the invoke without passing the (re)definition
            if f.cfg.exists_path(ip, up, avoid=[dp]):
                out.append((inv, u))
    return out
