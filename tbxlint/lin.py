"""Symbolic linear evaluation of an expression at a program point: the value as an affine form over the function's
parameters and opaque locals (results of calls), following single reaching definitions of named temporaries.
Casts are transparent (the callers' guards establish the sign facts that make them value-preserving)."""
from .affine import Aff, Ptr
from . import rd, q

TOP = None


def lin(f, e, p=None, depth=0):
    """Aff | Ptr | None"""
    if e is None or e < 0 or depth > 10:
        return TOP
    st = f.stmts[e]
    if p is None:
        p = f.cfg.point_of(e)
    k = st['k']
    if st.get('cv') is not None and k != 'DeclRefExpr':
        return Aff(st['cv'])
    if k in ('ParenExpr', 'ExprWithCleanups', 'MaterializeTemporaryExpr', 'ConstantExpr', 'CXXBindTemporaryExpr', 'ImplicitCastExpr', 'CStyleCastExpr',
             'CXXStaticCastExpr', 'CXXReinterpretCastExpr', 'CXXFunctionalCastExpr', 'CXXConstCastExpr'):
        return lin(f, st['ch'][0], p, depth + 1) if st.get('ch') else TOP
    if k == 'DeclRefExpr':
        if st.get('dk') == 'ParmVar':
            ty = st.get('ct') or st.get('t') or ''
            return Ptr('param:' + st['n'], Aff(0)) if '*' in ty else Aff.sym(st['n'])
        if st.get('dk') == 'Var' and not st.get('gl'):
            defs = rd.local_defs(f, st['d'])
            r = rd.reaching(f, st['d'], p) if p is not None else frozenset()
            vals = []
            for i in r:
                d = defs[i]
                if d['kind'] in ('init', '=') and d['rhs'] is not None and d['point'] is not None:
                    rs = f.s(f.strip_casts(d['rhs']))
                    if rs is not None and rs['k'] in q.CALL_KINDS:
                        vals.append(Aff.sym('local:' + st['n']))        # opaque: the result of a call, named after the local that holds it
                    else:
                        vals.append(lin(f, d['rhs'], d['point'], depth + 1))
                else:
                    return TOP
            if vals and all(v is not None and v == vals[0] for v in vals):
                return vals[0]
        return TOP
    if k == 'BinaryOperator' and st.get('op') in ('+', '-'):
        a, b = lin(f, st['ch'][0], p, depth + 1), lin(f, st['ch'][1], p, depth + 1)
        if a is None or b is None:
            return TOP
        if isinstance(a, Ptr) and isinstance(b, Aff):
            return Ptr(a.base, a.off + b if st['op'] == '+' else a.off - b)
        if isinstance(a, Aff) and isinstance(b, Ptr) and st['op'] == '+':
            return Ptr(b.base, b.off + a)
        if isinstance(a, Aff) and isinstance(b, Aff):
            return a + b if st['op'] == '+' else a - b
        if isinstance(a, Ptr) and isinstance(b, Ptr) and st['op'] == '-' and a.base == b.base:
            return a.off - b.off
        return TOP
    return TOP
