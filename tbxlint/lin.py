"""Symbolic linear evaluation of an expression at a program point: the value as an affine form over the function's
parameters and opaque locals (results of calls), following single reaching definitions of named temporaries.
Casts are transparent (the callers' guards establish the sign facts that make them value-preserving)."""
from .affine import Aff, Ptr
from . import rd, q

TOP = None


def lin(f, e, p=None, depth=0):
    """Aff | Ptr | None"""
    if e is None or e < 0 or depth > 10:
        return TOP
    st = f.stmts[e]
    if p is None:
        p = f.cfg.point_of(e)
    k = st['k']
    if st.get('cv') is not None and k != 'DeclRefExpr':
        return Aff(st['cv'])
    if k in ('ParenExpr', 'ExprWithCleanups', 'MaterializeTemporaryExpr', 'ConstantExpr', 'CXXBindTemporaryExpr', 'ImplicitCastExpr', 'CStyleCastExpr',
             'CXXStaticCastExpr', 'CXXReinterpretCastExpr', 'CXXFunctionalCastExpr', 'CXXConstCastExpr'):
        return lin(f, st['ch'][0], p, depth + 1) if st.get('ch') else TOP
    if k == 'DeclRefExpr':
        if st.get('dk') == 'ParmVar':
            ty = st.get('ct') or st.get('t') or ''
            return Ptr('param:' + st['n'], Aff(0)) if '*' in ty else Aff.sym(st['n'])
        if st.get('dk') == 'Var' and not st.get('gl'):
            defs = rd.local_defs(f, st['d'])
            r = rd.reaching(f, st['d'], p) if p is not None else frozenset()
            vals = []
            for i in r:
                d = defs[i]
                if d['kind'] in ('init', '=') and d['rhs'] is not None and d['point'] is not None:
                    rs = f.s(f.strip_casts(d['rhs']))
                    if rs is not None and rs['k'] in q.CALL_KINDS:
                        vals.append(Aff.sym('local:' + st['n']))        # opaque: the result of a call, named after the local that holds it
                    else:
                        vals.append(lin(f, d['rhs'], d['point'], depth + 1))
                else:
                    return TOP
            if vals and all(v is not None and v == vals[0] for v in vals):
                return vals[0]
        return TOP
    if k == 'MemberExpr' and st.get('mk') == 'field':
        base = f.s(f.strip_casts(st['ch'][0])) if st.get('ch') else None
        if base is None or base['k'] == 'CXXThisExpr':
            ty = st.get('ct') or st.get('t') or ''
            return Ptr('this.' + st['n'], Aff(0)) if '*' in ty else Aff.sym('this.' + st['n'])
        return TOP
    if k == 'BinaryOperator' and st.get('op') in ('+', '-'):
        a, b = lin(f, st['ch'][0], p, depth + 1), lin(f, st['ch'][1], p, depth + 1)
        if a is None or b is None:
            return TOP
        if isinstance(a, Ptr) and isinstance(b, Aff):
            return Ptr(a.base, a.off + b if st['op'] == '+' else a.off - b)
        if isinstance(a, Aff) and isinstance(b, Ptr) and st['op'] == '+':
            return Ptr(b.base, b.off + a)
        if isinstance(a, Aff) and isinstance(b, Aff):
            return a + b if st['op'] == '+' else a - b
        if isinstance(a, Ptr) and isinstance(b, Ptr) and st['op'] == '-' and a.base == b.base:
            return a.off - b.off
        return TOP
    return TOP


def cond_fact(f, cond, k, p=None):
    """affine facts g >= 0 established on successor edge k of comparison `cond` (operands evaluated at the condition)"""
    cs = f.s(f.strip_casts(cond))
    if not cs or cs['k'] != 'BinaryOperator' or cs.get('op') not in ('<', '<=', '>', '>=', '==', '!='):
        return []
    cp = f.cfg.point_of(cond) if p is None else p
    a, b = lin(f, cs['ch'][0], cp), lin(f, cs['ch'][1], cp)
    if not isinstance(a, Aff) or not isinstance(b, Aff):
        return []
    op = cs['op']
    if k == 1:
        op = {'<': '>=', '<=': '>', '>': '<=', '>=': '<', '==': '!=', '!=': '=='}[op]
    return {'>=': [a - b], '>': [a - b - Aff(1)], '<=': [b - a], '<': [b - a - Aff(1)], '==': [a - b, b - a], '!=': []}[op]


def value_classes(f, e, p):
    """the value of expression e at point p as a list of (form, facts): when e is a local with several reaching definitions, one
    class per definition with the guards that hold on exactly the paths along which that definition reaches p
    (ival.def_guards) plus the guards dominating p.  Bounded disjunction over reaching definitions; no path enumeration."""
    from . import ival
    base_facts = []
    for cond, k, b in f.cfg.controlling_branches(p):
        base_facts += cond_fact(f, cond, k)
    x = f.s(f.strip_casts(e))
    if x is not None and x['k'] == 'DeclRefExpr' and x.get('dk') == 'Var' and not x.get('gl'):
        defs = rd.local_defs(f, x['d'])
        r = sorted(rd.reaching(f, x['d'], p))
        if len(r) > 1:
            out = []
            for i in r:
                d = defs[i]
                if d['kind'] not in ('init', '=') or d['rhs'] is None or d['point'] is None:
                    return [(TOP, base_facts)]
                facts = list(base_facts)
                for cond, k in ival.def_guards(f, x['d'], i, p):
                    facts += cond_fact(f, cond, k)
                for cond, k, b in f.cfg.controlling_branches(d['point']):      # what held when the definition executed
                    facts += cond_fact(f, cond, k)
                out.append((lin(f, d['rhs'], d['point']), facts))
            return out
    return [(lin(f, e, p), base_facts)]
