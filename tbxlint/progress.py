"""Loops that cannot make progress: a loop whose condition reads only things that some way round the loop never changes stays true for ever once it is entered.

For every while/for/do loop with a condition, the *subjects* of the condition are the access paths it reads (variables, fields, and the receivers of the calls in it);
a way round is a CFG path from the condition through its continue-edge back to the condition.  The loop is reported when some way round contains no statement that may
change any subject (q.mod_points: writes, non-const member calls, hand-over by non-const reference, for this-rooted paths any non-const call on this) — side effects inside the
condition itself (`while (n--)`) count as progress.  Loops without subjects (`for (;;)`, conditions over calls of free functions only) are not judged.  This is a necessary
condition for termination, not a termination proof."""
from . import q


def subjects(f, cond):
    out = set()
    for x in f.walk(cond):
        sx = f.stmts[x]
        if sx['k'] == 'DeclRefExpr' and sx.get('dk') in ('Var', 'ParmVar') and not sx.get('gl'):
            p = f.path(x)
            if p:
                out.add(p)
        elif sx['k'] == 'MemberExpr' and sx.get('mk') == 'field':
            p = f.path(x)
            if p:
                out.add(p)
        elif sx['k'] in q.CALL_KINDS and 'obj' in sx:
            p = f.path(sx['obj'])
            if p:
                out.add(p)
    # keep the longest paths only (s.cursor rather than s)
    return {p for p in out if not any(o != p and o.startswith(p + '.') for o in out)}


def natural_loop(f, header):
    """blocks of the natural loop(s) with this header: the header plus everything that reaches a back edge into it without passing it"""
    cfg = f.cfg
    backs = [b.id for b in cfg.blocks.values() if header in [s for s in b.succ if s is not None] and header in cfg.dom.get(b.id, ())]
    if not backs:
        return set()
    body = {header}
    work = list(backs)
    while work:
        b = work.pop()
        if b in body:
            continue
        body.add(b)
        work.extend(cfg.blocks[b].pred)
    return body


def stuck_loops(f):
    """[(loop stmt, subjects)] for loops with a way round that changes none of the condition's subjects"""
    out = []
    for lp in f.stmts:
        if not lp or lp['k'] not in ('WhileStmt', 'ForStmt', 'DoStmt') or lp.get('cond') is None:
            continue
        hp = f.cfg.point_of(lp['cond'])
        if hp is None:
            continue
        subs = subjects(f, lp['cond'])
        if not subs:
            continue
        inside = set(f.walk(lp['cond']))
        mods = []
        in_cond = False
        for s_ in subs:
            for m in q.mod_points(f, s_, True):
                mods.append(m)
        # a modification inside the condition (or the for-increment, which is on every way round by construction of the CFG) is progress on every way round
        for st in f.stmts:
            if st and st['i'] in inside and st['k'] in ('UnaryOperator', 'CompoundAssignOperator', 'BinaryOperator') and (st.get('op') in ('++', '--') or st.get('op', '').endswith('=') and st['op'] not in ('==', '!=', '<=', '>=')):
                in_cond = True
        if in_cond:
            continue
        body = natural_loop(f, hp[0])
        if not body:
            continue
        if f.cfg.exists_path(hp, hp, avoid=[m for m in mods if m != hp], edge_filter=lambda bb, kk: f.cfg.blocks[bb].succ[kk] in body):
            out.append((lp, sorted(subs)))
    return out


def run(ctx, prog, rule, funcs, what, floor=3):
    ctx.rule(rule, 'A4 no loop without progress on the %s: every loop whose condition reads variables, fields or containers changes one of them on every way round (a way round '
             'is a path from the condition through its continue-edge back to it; writes, non-const member calls and hand-over by non-const reference count, side effects in the condition '
             'too) — otherwise the loop, once entered, never ends and the thread hangs' % what, floor=floor)
    n = 0
    for f in funcs:
        loops = [lp for lp in f.stmts if lp and lp['k'] in ('WhileStmt', 'ForStmt', 'DoStmt') and lp.get('cond') is not None and subjects(f, lp['cond'])]
        if not loops:
            continue
        bad = {lp['i']: subs for lp, subs in stuck_loops(f)}
        for lp in loops:
            n += 1
            ok = lp['i'] not in bad
            ctx.ob(rule, '%s|loop@%s' % (f.name, f.loc(lp['i']).split(':')[-1]), ok, 'every way round changes a subject of the condition' if ok else
                   'a way round this loop changes none of %s, which is all its condition reads: once entered it never ends' % ', '.join(bad[lp['i']]), where=f.loc(lp['i']))
    return n


def run_files(ctx, prog, rule, anchors, what, floor=3):
    """apply the rule to every function (lambdas included) defined in the property's anchored source files"""
    fs = [f for f in prog.funcs.values() if any(f.file.endswith(a) for a in anchors) and not f.file.endswith('_test.cpp')]
    n = run(ctx, prog, rule, fs, what, floor=floor)
    if n < floor:
        from .facts import AnalysisBroken
        raise AnalysisBroken('%s: expected at least %d loops with a judged condition in %s, found %d' % (rule, floor, what, n))
