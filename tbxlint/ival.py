"""A10 — interval evaluation of integer expressions from types, masks, shifts, casts, constants,
dominating comparisons and (for locals) their reaching-definition shapes.  No path enumeration."""
from . import q, rd

TYPE_RANGE = {
    'bool': (0, 1), 'char': (-128, 127), 'signed char': (-128, 127), 'unsigned char': (0, 255),
    'short': (-32768, 32767), 'unsigned short': (0, 65535), 'int': (-2**31, 2**31 - 1), 'unsigned int': (0, 2**32 - 1),
    'long': (-2**63, 2**63 - 1), 'unsigned long': (0, 2**64 - 1), 'long long': (-2**63, 2**63 - 1), 'unsigned long long': (0, 2**64 - 1),
}


def type_range(t):
    t = (t or '').replace('const ', '').replace('volatile ', '').strip()
    return TYPE_RANGE.get(t)


def ctype(st):
    return st.get('ct') or st.get('t') or ''


def _clip(iv, tr):
    if iv is None:
        return tr
    if tr is None:
        return iv
    lo, hi = iv
    if lo < tr[0] or hi > tr[1]:
        return tr     # wraps: anything of the type
    return iv


def interval(f, e, p=None, depth=0):
    """(lo, hi) for expression e evaluated at point p (defaults to e's own point); None when unknown/non-integer"""
    if e is None or e < 0 or depth > 8:
        return None
    st = f.stmts[e]
    if p is None:
        p = f.cfg.point_of(e)
    if 'cv' in st:
        return (st['cv'], st['cv'])
    k = st['k']
    tr = type_range(ctype(st))
    if k in ('ParenExpr', 'ExprWithCleanups', 'MaterializeTemporaryExpr', 'ConstantExpr', 'CXXBindTemporaryExpr'):
        return interval(f, st['ch'][0], p, depth + 1)
    if k in ('ImplicitCastExpr', 'CStyleCastExpr', 'CXXStaticCastExpr', 'CXXFunctionalCastExpr', 'CXXReinterpretCastExpr'):
        if not st['ch']:
            return tr
        inner = interval(f, st['ch'][0], p, depth + 1)
        if st.get('ck') in ('LValueToRValue', 'NoOp'):
            return inner if inner is not None else tr
        if inner is None or tr is None:
            return tr
        # integral conversion: value preserved when it fits, else modular (any value of the target)
        return inner if (inner[0] >= tr[0] and inner[1] <= tr[1]) else tr
    if k == 'CharacterLiteral':
        return (st.get('v', 0), st.get('v', 0))
    if k == 'BinaryOperator':
        op = st.get('op')
        a, b = st['ch']
        ia, ib = interval(f, a, p, depth + 1), interval(f, b, p, depth + 1)
        if op == '&':
            cands = []
            for iv in (ia, ib):
                if iv is not None and iv[0] >= 0:
                    cands.append(iv[1])
            if cands:
                return (0, min(cands))
            return tr
        if op in ('|', '^'):
            if ia is not None and ib is not None and ia[0] >= 0 and ib[0] >= 0:
                m = max(ia[1], ib[1])
                bits = m.bit_length()
                return (0, (1 << bits) - 1)
            return tr
        if op == '>>':
            if ia is not None and ib is not None and ia[0] >= 0 and ib[0] == ib[1] and ib[0] >= 0:
                return (ia[0] >> ib[0], ia[1] >> ib[0])
            return tr
        if op == '<<':
            if ia is not None and ib is not None and ia[0] >= 0 and ib[0] == ib[1] and 0 <= ib[0] < 64:
                return _clip((ia[0] << ib[0], ia[1] << ib[0]), tr)
            return tr
        if op == '%':
            if ib is not None and ib[0] == ib[1] and ib[0] > 0 and ia is not None and ia[0] >= 0:
                return (0, min(ia[1], ib[0] - 1))
            return tr
        if op == '/':
            if ib is not None and ib[0] == ib[1] and ib[0] > 0 and ia is not None and ia[0] >= 0:
                return (ia[0] // ib[0], ia[1] // ib[0])
            return tr
        if op in ('+', '-', '*') and ia is not None and ib is not None:
            if op == '+':
                r = (ia[0] + ib[0], ia[1] + ib[1])
            elif op == '-':
                r = (ia[0] - ib[1], ia[1] - ib[0])
            else:
                c = [ia[0] * ib[0], ia[0] * ib[1], ia[1] * ib[0], ia[1] * ib[1]]
                r = (min(c), max(c))
            return _clip(r, tr)
        if op in ('<', '>', '<=', '>=', '==', '!=', '&&', '||'):
            return (0, 1)
        if op == ',':
            return ib
        return tr
    if k == 'UnaryOperator':
        op = st.get('op')
        if op == '!':
            return (0, 1)
        if op in ('++', '--') and st.get('post'):
            return interval(f, st['ch'][0], p, depth + 1)
        return tr
    if k == 'ConditionalOperator':
        a, b = interval(f, st['ch'][1], p, depth + 1), interval(f, st['ch'][2], p, depth + 1)
        if a is None or b is None:
            return tr
        return (min(a[0], b[0]), max(a[1], b[1]))
    if k == 'DeclRefExpr' and st.get('dk') in ('Var', 'ParmVar') and not st.get('gl'):
        return var_interval(f, st['d'], p, tr, depth + 1)
    return tr


def guard_bounds(f, decl, p, depth=0):
    """(lo, hi) implied for local `decl` at p by dominating comparisons with constants / bounded expressions"""
    lo, hi = None, None
    if p is None:
        return lo, hi
    for cond, k, b in f.cfg.controlling_branches(p):
        cs = f.s(f.strip_casts(cond))
        if not cs or cs['k'] != 'BinaryOperator' or cs.get('op') not in ('<', '<=', '>', '>=', '==', '!='):
            continue
        cp = f.cfg.point_of(cond)
        # the guard speaks about the current value only if no definition lies between it and p
        if cp is None or rd.reaching(f, decl, cp) != rd.reaching(f, decl, p):
            continue
        l, r = f.s(f.strip_casts(cs['ch'][0])), f.s(f.strip_casts(cs['ch'][1]))
        op = cs['op']
        if r and r['k'] == 'DeclRefExpr' and r.get('d') == decl and not (l and l['k'] == 'DeclRefExpr' and l.get('d') == decl):
            l, r = r, l
            op = {'<': '>', '<=': '>=', '>': '<', '>=': '<=', '==': '==', '!=': '!='}[op]
            other = cs['ch'][0]
        else:
            other = cs['ch'][1]
        if not (l and l['k'] == 'DeclRefExpr' and l.get('d') == decl):
            continue
        ob = interval(f, other, cp, depth + 1) if depth < 4 else None
        if ob is None:
            continue
        if k == 1:   # false edge: negate
            op = {'<': '>=', '<=': '>', '>': '<=', '>=': '<', '==': '!=', '!=': '=='}[op]
        if op == '<':
            hi = ob[1] - 1 if hi is None else min(hi, ob[1] - 1)
        elif op == '<=':
            hi = ob[1] if hi is None else min(hi, ob[1])
        elif op == '>':
            lo = ob[0] + 1 if lo is None else max(lo, ob[0] + 1)
        elif op == '>=':
            lo = ob[0] if lo is None else max(lo, ob[0])
        elif op == '==':
            lo = ob[0] if lo is None else max(lo, ob[0])
            hi = ob[1] if hi is None else min(hi, ob[1])
    return lo, hi


def var_interval(f, decl, p, tr, depth=0):
    if depth > 8:
        return tr
    glo, ghi = guard_bounds(f, decl, p, depth)
    defs = rd.local_defs(f, decl)
    reach = rd.reaching(f, decl, p) if p is not None else ()
    dlo, dhi = None, None
    known = bool(reach)
    for i in reach:
        d = defs[i]
        iv = None
        if d['kind'] in ('init', '=') and d['rhs'] is not None:
            iv = interval(f, d['rhs'], d['point'], depth + 1)
        elif d['kind'] in ('++', '--', '+=', '-=') and d['point'] is not None:
            # value before the step: the variable just before the defining statement, with the guards in force there
            step = 1
            if d['kind'] in ('+=', '-='):
                s_ = interval(f, d['rhs'], d['point'], depth + 1)
                if s_ is None or s_[0] != s_[1]:
                    known = False
                    continue
                step = s_[0]
            sign = 1 if d['kind'] in ('++', '+=') else -1
            g_lo, g_hi = guard_bounds(f, decl, d['point'], depth + 1)
            # lower/upper bounds before the step come from guards there, or from the monotone base definitions
            base_lo, base_hi = _base_bounds(f, decl, depth + 1)
            b_lo = g_lo if g_lo is not None else (base_lo if sign > 0 else None)
            b_hi = g_hi if g_hi is not None else (base_hi if sign < 0 else None)
            if b_lo is None and tr:
                b_lo = tr[0]
            if b_hi is None and tr:
                b_hi = tr[1]
            if b_lo is None or b_hi is None:
                known = False
                continue
            iv = (b_lo + sign * step, b_hi + sign * step)
        if iv is None:
            known = False
            continue
        dlo = iv[0] if dlo is None else min(dlo, iv[0])
        dhi = iv[1] if dhi is None else max(dhi, iv[1])
    lo = tr[0] if tr else None
    hi = tr[1] if tr else None
    if known and dlo is not None:
        lo = dlo if lo is None else max(lo, dlo)
        hi = dhi if hi is None else min(hi, dhi)
    if glo is not None:
        lo = glo if lo is None else max(lo, glo)
    if ghi is not None:
        hi = ghi if hi is None else min(hi, ghi)
    if lo is None or hi is None:
        return None
    return (lo, hi)


def _base_bounds(f, decl, depth):
    """bounds of the non-stepping definitions (initialisers/assignments) of a variable that is otherwise only stepped monotonically"""
    lo, hi = None, None
    for d in rd.local_defs(f, decl):
        if d['kind'] in ('init', '=') and d['rhs'] is not None:
            iv = interval(f, d['rhs'], d['point'], depth + 1)
            if iv is None:
                return None, None
            lo = iv[0] if lo is None else min(lo, iv[0])
            hi = iv[1] if hi is None else max(hi, iv[1])
        elif d['kind'] in ('param', 'unknown'):
            return None, None
    steps = {d['kind'] for d in rd.local_defs(f, decl) if d['kind'] in ('++', '--', '+=', '-=')}
    if steps <= {'++', '+='}:
        return lo, None     # only grows: the initial lower bound persists
    if steps <= {'--', '-='}:
        return None, hi
    return None, None


def def_guards(f, decl, def_index, use_pt):
    """conditional edges (cond, k) that every path from definition `def_index` of local `decl` to use_pt must take when it
    does not pass another definition of the same variable (those paths would carry another value)."""
    defs = rd.local_defs(f, decl)
    d = defs[def_index]
    if d['point'] is None:
        return []
    others = [x['point'] for i, x in enumerate(defs) if i != def_index and x['point'] is not None]
    out = []
    for blk in f.cfg.blocks.values():
        if blk.cond is None or len(blk.succ) != 2 or None in blk.succ:
            continue
        cp = f.cfg.point_of(blk.cond)
        if cp is None:
            continue
        # the branch lies on every def-clear path from the definition to the use
        if f.cfg.exists_path(d['point'], use_pt, avoid=others + [cp]):
            continue
        if not f.cfg.exists_path(d['point'], cp, avoid=others):
            continue
        endp = (blk.id, len(blk.el))
        ok = []
        for k in (0, 1):
            if f.cfg.exists_path(endp, use_pt, avoid=others, src_inclusive=True,
                                 edge_filter=lambda bb, kk, b=blk.id, k=k: not (bb == b and kk != k)):
                ok.append(k)
        if len(ok) == 1:
            out.append((blk.cond, ok[0]))
    return out


def bounds_from_guards(f, decl, guards, depth=0):
    """(lo, hi) for local `decl` implied by a list of (cond, k) comparisons with bounded expressions"""
    lo, hi = None, None
    for cond, k in guards:
        cs = f.s(f.strip_casts(cond))
        if not cs or cs['k'] != 'BinaryOperator' or cs.get('op') not in ('<', '<=', '>', '>=', '==', '!='):
            continue
        l, r = f.s(f.strip_casts(cs['ch'][0])), f.s(f.strip_casts(cs['ch'][1]))
        op = cs['op']
        if r and r['k'] == 'DeclRefExpr' and r.get('d') == decl and not (l and l['k'] == 'DeclRefExpr' and l.get('d') == decl):
            op = {'<': '>', '<=': '>=', '>': '<', '>=': '<=', '==': '==', '!=': '!='}[op]
            other = cs['ch'][0]
        elif l and l['k'] == 'DeclRefExpr' and l.get('d') == decl:
            other = cs['ch'][1]
        else:
            continue
        ob = interval(f, other, f.cfg.point_of(cond), depth + 1)
        if ob is None:
            continue
        if k == 1:
            op = {'<': '>=', '<=': '>', '>': '<=', '>=': '<', '==': '!=', '!=': '=='}[op]
        if op == '<':
            hi = ob[1] - 1 if hi is None else min(hi, ob[1] - 1)
        elif op == '<=':
            hi = ob[1] if hi is None else min(hi, ob[1])
        elif op == '>':
            lo = ob[0] + 1 if lo is None else max(lo, ob[0] + 1)
        elif op == '>=':
            lo = ob[0] if lo is None else max(lo, ob[0])
        elif op == '==':
            lo = ob[0] if lo is None else max(lo, ob[0])
            hi = ob[1] if hi is None else min(hi, ob[1])
    return lo, hi
