"""Query helpers shared by the rule tables (A3/A4/A6 building blocks)."""
from .facts import AnalysisBroken

CALL_KINDS = ('CallExpr', 'CXXMemberCallExpr', 'CXXOperatorCallExpr')


def calls(f, callee=None, fn=None, cls=None, obj_field=None, obj_path=None, op=None):
    """call statements in f filtered by resolved callee (prefix), method name, class prefix,
    receiver field (qualified-name suffix) or receiver access path."""
    out = []
    for st in f.stmts:
        if not st or st['k'] not in CALL_KINDS:
            continue
        if callee is not None and not st.get('callee', '').startswith(callee):
            continue
        if fn is not None and st.get('fn') != fn:
            continue
        if cls is not None and not st.get('cls', '').startswith(cls):
            continue
        if op is not None and st.get('op') != op:
            continue
        if obj_field is not None:
            q = f.field_of(st.get('obj')) if 'obj' in st else None
            if not q or not q.endswith(obj_field):
                continue
        if obj_path is not None:
            if 'obj' not in st or f.path(st['obj']) != obj_path:
                continue
        out.append(st)
    return out


def invokes(f, field=None):
    """calls through a std::function / function pointer value; optional receiver field suffix"""
    out = []
    for st in f.stmts:
        if not st:
            continue
        if st['k'] == 'CXXOperatorCallExpr' and st.get('op') == '()' and st.get('cls', '').startswith('std::function<'):
            q = f.field_of(st.get('obj'))
            if field is None or (q and q.endswith(field)):
                out.append(st)
        elif st['k'] == 'CallExpr' and not st.get('callee'):
            ce = st.get('calleeexpr')
            q = f.field_of(ce)
            if field is None or (q and q.endswith(field)):
                out.append(st)
    return out


def field_refs(f, field):
    """MemberExpr statements naming the field (qualified-name suffix match)"""
    return [st for st in f.stmts if st and st['k'] == 'MemberExpr' and st.get('mk') == 'field' and st['q'].endswith(field)]


def writes(f, field):
    from .locks import classify_access
    return [st for st in field_refs(f, field) if classify_access(f, st['i']) == 'w']


def assigns(f, field):
    """assignment statements whose LHS is the field; returns (assign stmt, rhs id)"""
    out = []
    for st in f.stmts:
        if not st:
            continue
        if st['k'] in ('BinaryOperator', 'CompoundAssignOperator') and st.get('op', '').endswith('=') and st['op'] not in ('==', '!=', '<=', '>='):
            q = f.field_of(st['ch'][0])
            if q and q.endswith(field):
                out.append((st, st['ch'][1]))
        elif st['k'] == 'CXXOperatorCallExpr' and st.get('op') == '=':
            q = f.field_of(st.get('obj'))
            if q and q.endswith(field):
                out.append((st, st['args'][0] if st.get('args') else None))
    return out


def pt(f, st):
    p = f.cfg.point_of(st['i'] if isinstance(st, dict) else st)
    return p


def pt_or_term(f, st):
    """program point of a statement; for break/continue/goto (block terminators without a CFG element) the end of the block they terminate"""
    p = pt(f, st)
    if p is not None:
        return p
    sid = st['i'] if isinstance(st, dict) else st
    for b in f.cfg.blocks.values():
        if b.term == sid:
            return (b.id, len(b.el))
    return None


def pts(f, sts):
    out = []
    for s in sts:
        p = pt(f, s)
        if p is not None:
            out.append(p)
    return out


def must_precede(f, a_pts, b_pt):
    """every path entry -> b passes one of a_pts"""
    cfg = f.cfg
    return not cfg.exists_path(cfg.entry_point(), b_pt, avoid=a_pts)


def must_follow(f, a_pt, b_pts):
    """every path a -> exit passes one of b_pts"""
    return not f.cfg.exists_path(a_pt, 'exit', avoid=b_pts)


def reaches(f, a_pt, b_pt, avoid=()):
    return f.cfg.exists_path(a_pt, b_pt, avoid=avoid)


def subtree_fields(f, sid):
    """qualified fields read anywhere in the expression subtree"""
    out = set()
    for x in f.walk(sid):
        st = f.stmts[x]
        if st['k'] == 'MemberExpr' and st.get('mk') == 'field':
            out.add(st['q'])
    return out


def subtree_paths(f, sid):
    out = set()
    for x in f.walk(sid):
        st = f.stmts[x]
        if st['k'] in ('MemberExpr', 'DeclRefExpr', 'CXXMemberCallExpr'):
            out.add(f.path(x))
    return out


def subtree_calls(f, sid):
    return [f.stmts[x] for x in f.walk(sid) if f.stmts[x]['k'] in CALL_KINDS]


def controlled_by(f, p, pred):
    """list of (cond id, edge index) among the branches controlling point p whose
    condition satisfies pred(f, cond_id)"""
    return [(c, k) for (c, k, b) in f.cfg.controlling_branches(p) if pred(f, c)]


def returns(f):
    return [st for st in f.stmts if st and st['k'] == 'ReturnStmt']


def return_const(f, st):
    v = st.get('val')
    if v is None:
        return None
    s = f.s(f.strip_casts(v))
    x = f.s(v)
    for cand in (x, s):
        if cand is not None and 'cv' in cand:
            return cand['cv']
        if cand is not None and cand['k'] == 'CXXBoolLiteralExpr':
            return 1 if cand.get('v') else 0
    return None


def transitive_callees(prog, f, depth=6, within=None):
    """Funcs reachable through direct calls with a body in the program"""
    seen = {f.key: f}
    work = [(f, 0)]
    while work:
        g, d = work.pop()
        if d >= depth:
            continue
        for st in g.calls():
            u = st.get('usr')
            for h in prog.by_usr.get(u, ()):
                if h.parent_usr:
                    continue
                if within is not None and not within(h):
                    continue
                if h.key not in seen:
                    seen[h.key] = h
                    work.append((h, d + 1))
    return list(seen.values())


def region_atomic(eng, f, entry, e1_pt, e2_pt, mutex):
    """A3: on every CFG path from e1 to e2 the mutex stays held (no point on such a path has
    the mutex outside the must-lockset, and no condition-variable wait releases it).
    Returns (ok, offending point or None)."""
    res = eng.analyze(f, entry)
    cfg = f.cfg
    bad = []
    for p, e in cfg.points():
        ls = res.get(p)
        if ls is None:
            continue
        if mutex not in ls:
            bad.append(p)
            continue
        if e[0] == 'S':
            st = f.stmts[e[1]]
            if st['k'] == 'CXXMemberCallExpr' and st.get('fn') in ('wait', 'wait_for', 'wait_until') and \
                    st.get('cls', '').startswith('std::condition_variable'):
                bad.append(p)
    if mutex not in (res.get(e1_pt) or ()) and mutex not in (res.get((e1_pt[0], e1_pt[1] + 1)) or ()):
        return False, e1_pt
    for b in bad:
        if b == e1_pt or b == e2_pt:
            continue
        if cfg.exists_path(e1_pt, b, avoid=[e2_pt, e1_pt]) and cfg.exists_path(b, e2_pt, avoid=[e1_pt], src_inclusive=True):
            return False, b
    if mutex not in (res.get(e2_pt) or ()):
        return False, e2_pt
    return True, None


def contains_event(prog, eng, g, pred, depth=0, _seen=None):
    """does g (or a scope callee, transitively) contain a statement satisfying pred(func, stmt)?"""
    _seen = _seen if _seen is not None else set()
    if g.key in _seen or depth > 6:
        return False
    _seen.add(g.key)
    for st in g.stmts:
        if st and pred(g, st):
            return True
    for st in g.calls():
        h = eng.resolve_callee(st)
        if h is not None and contains_event(prog, eng, h, pred, depth + 1, _seen):
            return True
    return False


def event_stmts(prog, eng, f, pred):
    """statements of f that are the event themselves or calls into scope functions that
    (transitively) perform it — the event 'as seen from f'"""
    out = []
    for st in f.stmts:
        if not st:
            continue
        if pred(f, st):
            out.append(st)
        elif st['k'] in CALL_KINDS:
            h = eng.resolve_callee(st)
            if h is not None and contains_event(prog, eng, h, pred):
                out.append(st)
    return out


def is_call(st, fn=None, cls=None, callee=None):
    if st['k'] not in CALL_KINDS:
        return False
    if fn is not None and st.get('fn') != fn:
        return False
    if cls is not None and not st.get('cls', '').startswith(cls):
        return False
    if callee is not None and not st.get('callee', '').startswith(callee):
        return False
    return True


def obj_field_is(f, st, suffix):
    q = f.field_of(st.get('obj')) if 'obj' in st else None
    return bool(q and q.endswith(suffix))


def lockset_at(eng, f, entry, st):
    res = eng.analyze(f, entry)
    p = f.cfg.point_of(st['i'])
    return res.get(p)


def lexical_guards(f, sid):
    """(cond stmt id, 'then'|'else'|'loop') of the if/loop statements lexically enclosing sid, innermost first.
    Unlike CFG guards this keeps `a || b` conditions whole."""
    out = []
    cur = sid
    for a in f.ancestors(sid):
        st = f.stmts[a]
        if st['k'] == 'IfStmt':
            if cur == st.get('then') or cur in set(f.walk(st.get('then'))):
                out.append((st['cond'], 'then'))
            elif st.get('else') is not None and (cur == st['else'] or cur in set(f.walk(st['else']))):
                out.append((st['cond'], 'else'))
        elif st['k'] in ('WhileStmt', 'ForStmt') and st.get('cond') is not None and st.get('body') is not None:
            if cur == st['body'] or cur in set(f.walk(st['body'])):
                out.append((st['cond'], 'loop'))
        cur = a
    return out


def simple_test(f, cond):
    """(decl id, 'nz'|'z') when the condition is a plain test of a local variable: V, !V, V != 0/nullptr, V == 0/nullptr.
    The tag says what the variable is on the *true* edge."""
    cs = f.s(f.strip_casts(cond))
    neg = False
    while cs and cs['k'] == 'UnaryOperator' and cs.get('op') == '!':
        neg = not neg
        cs = f.s(f.strip_casts(cs['ch'][0]))
    if cs is None:
        return None
    if cs['k'] == 'DeclRefExpr' and cs.get('dk') in ('Var', 'ParmVar'):
        return cs['d'], ('z' if neg else 'nz')
    if cs['k'] == 'BinaryOperator' and cs.get('op') in ('==', '!='):
        l, r = f.s(f.strip_casts(cs['ch'][0])), f.s(f.strip_casts(cs['ch'][1]))
        def isz(x):
            return x is not None and (x['k'] in ('CXXNullPtrLiteralExpr', 'GNUNullExpr') or x.get('cv') == 0)
        v = None
        if l and l['k'] == 'DeclRefExpr' and l.get('dk') in ('Var', 'ParmVar') and isz(r):
            v = l
        elif r and r['k'] == 'DeclRefExpr' and r.get('dk') in ('Var', 'ParmVar') and isz(l):
            v = r
        if v is not None:
            t = 'z' if cs['op'] == '==' else 'nz'
            if neg:
                t = 'z' if t == 'nz' else 'nz'
            return v['d'], t
    return None


def correlated_filter(f, target_pt):
    """edge filter that removes paths contradicting the simple variable tests guarding target_pt:
    at every branch testing the same variable (same reaching definitions as at the target's guard) the
    edge with the opposite outcome is infeasible on a path that reaches the target through its guard."""
    from . import rd
    want = {}
    for cond, k, b in f.cfg.controlling_branches(target_pt):
        t = simple_test(f, cond)
        if t is None:
            continue
        decl, tag = t
        val = tag if k == 0 else ('z' if tag == 'nz' else 'nz')
        cp = f.cfg.point_of(cond)
        want[decl] = (val, rd.reaching(f, decl, cp) if cp else None)
    blocked = set()
    for blk in f.cfg.blocks.values():
        if blk.cond is None or len(blk.succ) != 2:
            continue
        t = simple_test(f, blk.cond)
        if t is None or t[0] not in want:
            continue
        decl, tag = t
        val, rds = want[decl]
        cp = f.cfg.point_of(blk.cond)
        if cp is None or rds is None or rd.reaching(f, decl, cp) != rds:
            continue
        # edge 0 gives `tag`, edge 1 gives the opposite
        for k in (0, 1):
            v = tag if k == 0 else ('z' if tag == 'nz' else 'nz')
            if v != val:
                blocked.add((blk.id, k))
    if not blocked:
        return None
    return lambda b, k: (b, k) not in blocked


def set_flag_filter(f, pt):
    """Edge filter for paths that start at pt: a local flag that was assigned a non-zero constant by a statement dominating pt and that no statement
    reachable from pt assigns again is non-zero on every such path, so the zero edge of any plain test of it is infeasible."""
    from . import rd
    flags = {}
    for st in f.stmts:
        if not st or st['k'] != 'DeclRefExpr' or st.get('dk') != 'Var' or st.get('gl') or st['d'] in flags:
            continue
        defs = rd.local_defs(f, st['d'])
        sets = [d for d in defs if d['kind'] in ('init', '=') and d['rhs'] is not None and d['point'] is not None and
                ((f.s(d['rhs']) or {}).get('cv') not in (None, 0) or (f.s(f.strip_casts(d['rhs'])) or {}).get('v') is True)]
        if not any(f.cfg.dominates(d['point'], pt) for d in sets):
            flags[st['d']] = False
            continue
        # no later definition with another value
        others = [d for d in defs if d not in sets and d['point'] is not None]
        flags[st['d']] = not any(f.cfg.exists_path(pt, d['point']) for d in others)
    good = {d for d, ok in flags.items() if ok}
    if not good:
        return None
    blocked = set()
    for blk in f.cfg.blocks.values():
        if blk.cond is None or len(blk.succ) != 2:
            continue
        t = simple_test(f, blk.cond)
        if t is None or t[0] not in good:
            continue
        blocked.add((blk.id, 1 if t[1] == 'nz' else 0))      # the edge on which the flag would be zero
    return (lambda b, k: (b, k) not in blocked) if blocked else None


def forward_correlated_filter(f, pt):
    """Edge filter for paths that *start* at pt: pt is guarded by simple tests of local variables (V, !V, V == 0 ...);
    the first later branch on the same variable — reached from pt without an intervening definition of V — must take
    the same outcome.  Only such 'first encounter' branches are constrained, so the refinement stays sound in loops."""
    from . import rd
    blocked = set()
    for cond, k, b in f.cfg.controlling_branches(pt):
        t = simple_test(f, cond)
        if t is None:
            continue
        decl, tag = t
        val = tag if k == 0 else ('z' if tag == 'nz' else 'nz')
        # the guard must still describe the variable at pt: no definition between the guard and pt
        cp = f.cfg.point_of(cond)
        if cp is None or rd.reaching(f, decl, cp) != rd.reaching(f, decl, pt):
            continue
        defs = [d['point'] for d in rd.local_defs(f, decl) if d['point'] is not None]
        for blk in f.cfg.blocks.values():
            if blk.cond is None or len(blk.succ) != 2:
                continue
            t2 = simple_test(f, blk.cond)
            if t2 is None or t2[0] != decl:
                continue
            cp2 = f.cfg.point_of(blk.cond)
            if cp2 is None or not f.cfg.exists_path(pt, cp2):
                continue
            # a definition reachable from pt *before* this test would make the test see another value
            if any(f.cfg.exists_path(pt, dp, avoid=[cp2]) and f.cfg.exists_path(dp, cp2) for dp in defs):
                continue
            for kk in (0, 1):
                v = t2[1] if kk == 0 else ('z' if t2[1] == 'nz' else 'nz')
                if v != val:
                    blocked.add((blk.id, kk))
    if not blocked:
        return None
    return lambda b, k: (b, k) not in blocked


def must_fact(f, gen_edge, kill, entry=False):
    """forward must-dataflow of one boolean fact: established on branch edges (gen_edge(block, succ_index) -> True),
    destroyed by statements (kill(point, stmt) -> True), joined with AND.  Returns {point: fact-before-point}."""
    def transfer(pt, e, st):
        if e[0] == 'S' and st and kill(pt, f.stmts[e[1]]):
            return False
        return st

    def edge(b, k, st):
        if gen_edge(b, k):
            return True
        return st
    inn, before = f.cfg.forward(entry, transfer, lambda a, b: a and b, edge=edge)
    return before


def zero_test_edge(f, blk, k, is_subject):
    """does taking successor k of block blk establish `subject == 0` ?  (subject recognised by is_subject(expr id))"""
    if blk.cond is None or len(blk.succ) != 2:
        return False
    cs = f.s(f.strip_casts(blk.cond))
    neg = False
    while cs and cs['k'] == 'UnaryOperator' and cs.get('op') == '!':
        neg = not neg
        cs = f.s(f.strip_casts(cs['ch'][0]))
    if cs is None:
        return False
    if is_subject(cs['i']):
        # `if (x)` : zero on the false edge
        zero_on = 0 if neg else 1
        return k == zero_on
    if cs['k'] == 'BinaryOperator' and cs.get('op') in ('==', '!=', '>', '<=', '<', '>='):
        l, r = cs['ch']
        lz = f.s(f.strip_casts(l)).get('cv') == 0
        rz = f.s(f.strip_casts(r)).get('cv') == 0
        op = cs['op']
        if is_subject(f.strip_casts(l)) and rz:
            pass
        elif is_subject(f.strip_casts(r)) and lz:
            op = {'>': '<', '<': '>', '>=': '<=', '<=': '>=', '==': '==', '!=': '!='}[op]
        else:
            return False
        # subject OP 0 (subject unsigned)
        zero_true = op in ('==', '<=')        # true edge means zero
        zero_false = op in ('!=', '>')        # false edge means zero
        if neg:
            zero_true, zero_false = zero_false, zero_true
        return (k == 0 and zero_true) or (k == 1 and zero_false)
    return False


# ---- stability of container facts -------------------------------------------------------------
# A fact such as "pos <= S.size()", "i < V.size()", "M contains k" or "J is a number" is established at one point and used at
# another; it only carries over if S cannot have been changed on any path between the two.

NON_RESIZING = ('operator[]', 'at', 'begin', 'end', 'rbegin', 'rend', 'cbegin', 'cend', 'front', 'back', 'data', 'c_str')


def _ref_aliases(f):
    """local reference variables -> access path of their initialiser"""
    c = f.__dict__.setdefault('_alias_cache', None)
    if c is not None:
        return c
    out = {}
    for st in f.stmts:
        if st and st['k'] == 'DeclStmt':
            for d in st.get('decls', ()):
                if d.get('dk') == 'Var' and (d.get('t') or '').rstrip().endswith('&') and not (d.get('t') or '').rstrip().endswith('&&') and d.get('init') is not None:
                    p = f.path(d['init'])
                    if p and '?' not in p and '(' not in p:
                        out[d['n']] = p
    f.__dict__['_alias_cache'] = out
    return out


def canon_path(f, p, depth=0):
    """resolve a leading local reference variable to what it is bound to"""
    if depth > 4 or not p:
        return p
    al = _ref_aliases(f)
    root, sep, rest = p.partition('.')
    base = root.rstrip('[]')
    if base in al and base == root:
        return canon_path(f, al[base] + sep + rest, depth + 1)
    return p


def _is_prefix(p, X):
    return p == X or X.startswith(p + '.') or X.startswith(p + '[')


def mod_points(f, X, content=False):
    """CFG points of statements in f that may resize (content=True: or otherwise change) the object with access path X.
    Counted: writes to X or to an object containing it; non-const member calls on X (except element access when only the size
    matters) or on an object containing it; X or a containing object handed to a call through a non-const pointer/reference;
    when X is reached through `this`: any non-const member call on this and any call through a std::function / function pointer.
    Not seen (stated assumption): changes through an unrelated alias obtained elsewhere."""
    from .locks import classify_access
    X = canon_path(f, X)
    key = ('modpts', X, content)
    cache = f.__dict__.setdefault('_modcache', {})
    if key in cache:
        return cache[key]
    root = X.partition('.')[0].rstrip('[]')
    local_names = set(p['n'] for p in f.params)
    for st in f.stmts:
        if st and st['k'] == 'DeclStmt':
            local_names.update(d['n'] for d in st.get('decls', ()) if d.get('n'))
    this_rooted = root not in local_names and '::' not in root
    out = []

    def add(st):
        p = f.cfg.point_of(st['i'])
        if p is not None:
            out.append(p)
    for st in f.stmts:
        if not st:
            continue
        k = st['k']
        if k in ('MemberExpr', 'DeclRefExpr'):
            P = canon_path(f, f.path(st['i']))
            if P and _is_prefix(P, X) and classify_access(f, st['i']) == 'w':
                # a non-const method call on X itself is judged below (element access does not resize)
                par = f.s(f.parent.get(st['i'])) if hasattr(f, 'parent') else None
                up = st['i']
                while True:
                    pp = f.parent.get(up)
                    ps = f.s(pp) if pp is not None else None
                    if ps is None or ps['k'] not in ('ImplicitCastExpr', 'ParenExpr'):
                        break
                    up = pp
                if ps is not None and ps['k'] in ('CXXMemberCallExpr', 'CXXOperatorCallExpr') and ps.get('obj') is not None and f.strip_casts(ps['obj']) == st['i']:
                    continue
                add(st)
        if k in CALL_KINDS:
            if 'obj' in st and st.get('obj') is not None:
                P = canon_path(f, f.path(st['obj']))
                const = st.get('mconst') or (k == 'CXXOperatorCallExpr' and st.get('op') in ('==', '!=', '<', '>', '<=', '>=', '()') and not st.get('cls', '').startswith('std::function'))
                if P == 'this':
                    if this_rooted and not const:
                        add(st)
                elif P and _is_prefix(P, X) and not const:
                    if P == X and not content and (st.get('fn') in NON_RESIZING or st.get('op') == '[]'):
                        pass
                    else:
                        add(st)
            if this_rooted and (k == 'CXXOperatorCallExpr' and st.get('op') == '()' and st.get('cls', '').startswith('std::function<') or (k == 'CallExpr' and not st.get('callee'))):
                add(st)
            for a in st.get('args', ()):
                if a == st.get('obj'):
                    continue
                P = canon_path(f, f.path(a))
                if not P or P == '?':
                    continue
                ty = (f.s(a).get('t') or '')
                if (_is_prefix(P, X) or (P == 'this' and this_rooted)) and not (ty.startswith('const ') or ' const' in ty):
                    inner = f.s(f.strip_casts(a))
                    # passing the *value* of a scalar is harmless; objects/pointers/references are not
                    if inner is not None and inner.get('k') in ('IntegerLiteral',):
                        continue
                    add(st)
    cache[key] = out
    return out


def stable(f, X, p_from, p_to, content=False, ignore=()):
    """no statement that may change X lies on a path p_from -> p_to (p_from None = function entry)"""
    if p_to is None:
        return False
    src = p_from if p_from is not None else f.cfg.entry_point()
    for m in mod_points(f, X, content):
        if m in ignore or m == p_from:
            continue
        if m == p_to:
            continue
        if f.cfg.exists_path(src, m, src_inclusive=False) and f.cfg.exists_path(m, p_to, src_inclusive=False):
            return False
    return True


# ---- facts carried by a local flag -------------------------------------------------------------
def flag_true_defs(f, cond, k):
    """If (cond, k) is the edge on which a local boolean/integer flag is non-zero, return the definitions of the flag that can
    make it non-zero, as rd.local_defs entries (those assigning a constant 0/false are left out).  None if the condition is not
    such a test or a definition is not understood.  A fact that holds at every returned definition holds wherever the flag is
    seen true (the flag is a witness of having passed one of them)."""
    from . import rd
    t = simple_test(f, cond)
    if t is None:
        return None
    decl, tag = t
    if (tag == 'nz') != (k == 0):
        return None
    out = []
    for d in rd.local_defs(f, decl):
        if d['kind'] in ('init', '=') and d['rhs'] is not None:
            v = f.s(f.strip_casts(d['rhs']))
            if v is not None and v.get('cv') == 0:
                continue
            if v is not None and v['k'] == 'CXXBoolLiteralExpr' and not v.get('v'):
                continue
            out.append(d)
        elif d['kind'] == 'init' and d['rhs'] is None:
            return None         # uninitialised
        else:
            return None
    return out


def flag_cond(f, cond):
    """(expression, negated) when the condition is a plain test of a local flag that has exactly one definition, its initialiser, and every local the
    initialiser reads is unchanged between that definition and the test: the test then says what the initialiser said.  None otherwise."""
    from . import rd
    t = simple_test(f, cond)
    if t is None:
        return None
    decl, tag = t
    defs = rd.local_defs(f, decl)
    if len(defs) != 1 or defs[0]['kind'] != 'init' or defs[0]['rhs'] is None:
        return None
    rhs = defs[0]['rhs']
    p_def, p_use = f.cfg.point_of(defs[0]['sid']), f.cfg.point_of(cond)
    if p_def is None or p_use is None:
        return None
    for x in f.walk(rhs):
        sx = f.stmts[x]
        if sx['k'] in ('CallExpr', 'CXXMemberCallExpr', 'CXXOperatorCallExpr'):
            return None
        if sx['k'] == 'DeclRefExpr' and sx.get('dk') in ('Var', 'ParmVar'):
            for d in rd.local_defs(f, sx['d']):
                dp = f.cfg.point_of(d['sid'])
                if d['kind'] != 'init' and dp is not None and f.cfg.exists_path(p_def, dp, src_inclusive=False) and f.cfg.exists_path(dp, p_use, src_inclusive=False):
                    return None
        if sx['k'] == 'MemberExpr':
            return None
    return rhs, tag == 'z'


def guards_incl_flags(f, p):
    """controlling_branches(p) extended with the guards common to all true-definitions of every flag tested on the way"""
    base = list(f.cfg.controlling_branches(p))
    extra = []
    for cond, k, b in base:
        defs = flag_true_defs(f, cond, k)
        if not defs:
            continue
        common = None
        for d in defs:
            g = set((c, kk) for c, kk, bb in f.cfg.controlling_branches(d['point'])) if d['point'] is not None else set()
            common = g if common is None else (common & g)
        for c, kk in (common or ()):
            extra.append((c, kk, None))
    return base + extra


def dominated_incl_flags(f, a_pts, p):
    """some point of a_pts lies on every path to p — directly, or because p is behind a flag all of whose true-definitions are
    dominated by a point of a_pts"""
    if any(f.cfg.dominates(a, p) for a in a_pts):
        return True
    for cond, k, b in f.cfg.controlling_branches(p):
        defs = flag_true_defs(f, cond, k)
        if defs and all(d['point'] is not None and any(f.cfg.dominates(a, d['point']) for a in a_pts) for d in defs):
            return True
    return False


# ---- what a branch edge establishes -------------------------------------------------------------
_NEG = {'<': '>=', '<=': '>', '>': '<=', '>=': '<', '==': '!=', '!=': '=='}
_SWAP = {'<': '>', '<=': '>=', '>': '<', '>=': '<=', '==': '==', '!=': '!='}


def edge_relation(f, cond, k):
    """the relation (lhs path, op, rhs path) that holds on successor edge k (0 = true edge) of a comparison condition,
    negations unfolded; None if the condition is not a comparison.  A boolean call / variable test B gives (path(B), '!=', '0')
    on its true edge."""
    cs = f.s(f.strip_casts(cond))
    taken = (k == 0)
    while cs is not None and cs['k'] == 'UnaryOperator' and cs.get('op') == '!':
        taken = not taken
        cs = f.s(f.strip_casts(cs['ch'][0]))
    if cs is None:
        return None
    if cs['k'] == 'BinaryOperator' and cs.get('op') in _NEG:
        op = cs['op'] if taken else _NEG[cs['op']]
        return f.path(cs['ch'][0]), op, f.path(cs['ch'][1])
    p = f.path(cs['i'])
    if p and p != '?':
        return p, ('!=' if taken else '=='), '0'
    return None


def edge_holds(f, cond, k, lhs, op, rhs):
    """does edge k of cond establish `lhs op rhs` (paths compared textually, operands may be swapped)?"""
    r = edge_relation(f, cond, k)
    if r is None:
        return False
    l, o, rr = r
    implied = {'<': ('<', '<=', '!='), '<=': ('<=',), '>': ('>', '>=', '!='), '>=': ('>=',), '==': ('==', '<=', '>='), '!=': ('!=',)}
    if l == lhs and rr == rhs and op in implied[o]:
        return True
    if l == rhs and rr == lhs and op in implied[_SWAP[o]]:
        return True
    return False


# ---- canonical text of small arithmetic expressions ---------------------------------------------
def expr_text(f, e, depth=0):
    """parenthesised text of an arithmetic/index expression with casts removed: '((c+r)%4)', 'state[r][((c+r)%4)]', 'FFmul(2,t[r])'"""
    if e is None or depth > 12:
        return '?'
    st = f.s(f.strip_casts(e))
    if st is None:
        return '?'
    k = st['k']
    if st.get('cv') is not None and k != 'DeclRefExpr':
        return str(st['cv'])
    if k == 'DeclRefExpr':
        return st.get('n', '?')
    if k in ('ParenExpr',):
        return expr_text(f, st['ch'][0], depth + 1)
    if k == 'BinaryOperator' or k == 'CompoundAssignOperator':
        return '(%s%s%s)' % (expr_text(f, st['ch'][0], depth + 1), st.get('op'), expr_text(f, st['ch'][1], depth + 1))
    if k == 'UnaryOperator':
        return '%s%s' % (st.get('op'), expr_text(f, st['ch'][0], depth + 1))
    if k == 'ArraySubscriptExpr':
        return '%s[%s]' % (expr_text(f, st['ch'][0], depth + 1), expr_text(f, st['ch'][1], depth + 1))
    if k == 'MemberExpr':
        return f.path(st['i'])
    if k in CALL_KINDS:
        return '%s(%s)' % (st.get('fn') or st.get('callee', '?'), ','.join(expr_text(f, a, depth + 1) for a in st.get('args', ())))
    return '?'


def eval_int(f, e, env, depth=0):
    """value of a pure integer expression under env {variable name: int}; None if it contains anything else.
    (a static evaluator for index expressions over small finite domains; nothing of the repository is executed)"""
    if e is None or depth > 16:
        return None
    st = f.s(f.strip_casts(e))
    if st is None:
        return None
    k = st['k']
    if st.get('cv') is not None and k != 'DeclRefExpr':
        return st['cv']
    if k == 'DeclRefExpr':
        return env.get(st.get('n'))
    if k == 'ParenExpr':
        return eval_int(f, st['ch'][0], env, depth + 1)
    if k == 'UnaryOperator' and st.get('op') == '-':
        v = eval_int(f, st['ch'][0], env, depth + 1)
        return None if v is None else -v
    if k == 'BinaryOperator':
        a, b = eval_int(f, st['ch'][0], env, depth + 1), eval_int(f, st['ch'][1], env, depth + 1)
        if a is None or b is None:
            return None
        op = st.get('op')
        try:
            if op == '+': return a + b
            if op == '-': return a - b
            if op == '*': return a * b
            if op == '/': return int(a / b) if b else None
            if op == '%': return (abs(a) % abs(b)) * (1 if a >= 0 else -1) if b else None
            if op == '<<': return a << b
            if op == '>>': return a >> b
            if op == '&': return a & b
            if op == '|': return a | b
            if op == '^': return a ^ b
        except Exception:
            return None
    return None


def eval_expr(f, e, leaf, depth=0, signed=False):
    """constant folding of an integer/boolean expression; leaf(stmt) supplies the value of a variable reference or call (int) or
    None.  Comparisons and logical operators give 0/1.  None when something is not understood or an intermediate is negative
    (the callers reason about unsigned sizes; a wrap is never folded silently)."""
    if e is None or depth > 20:
        return None
    raw = f.s(e)
    if raw is not None and raw.get('cv') is not None:           # folded by the compiler (a cast around a constant carries the value)
        return raw['cv'] if (raw['cv'] >= 0 or signed) else None
    st = f.s(f.strip_casts(e))
    if st is None:
        return None
    k = st['k']
    if st.get('cv') is not None and k != 'DeclRefExpr':
        return st['cv'] if (st['cv'] >= 0 or signed) else None
    v = leaf(st)
    if v is not None:
        return v
    if k in ('ParenExpr', 'ExprWithCleanups', 'MaterializeTemporaryExpr', 'CXXBindTemporaryExpr', 'ConstantExpr'):
        return eval_expr(f, st['ch'][0], leaf, depth + 1, signed)
    if k == 'UnaryOperator' and st.get('op') == '-' and signed:
        v = eval_expr(f, st['ch'][0], leaf, depth + 1, signed)
        return None if v is None else -v
    if k == 'UnaryOperator' and st.get('op') == '!':
        v = eval_expr(f, st['ch'][0], leaf, depth + 1, signed)
        return None if v is None else int(not v)
    if k in CALL_KINDS and st.get('fn') in ('__builtin_expect',) and st.get('args'):
        return eval_expr(f, st['args'][0], leaf, depth + 1, signed)
    if k == 'BinaryOperator':
        a, b = eval_expr(f, st['ch'][0], leaf, depth + 1, signed), eval_expr(f, st['ch'][1], leaf, depth + 1, signed)
        op = st.get('op')
        if op == '&&' and (a == 0 or b == 0):
            return 0
        if op == '||' and (a or b):
            return 1
        if a is None or b is None:
            return None
        r = {'+': lambda: a + b, '-': lambda: a - b, '*': lambda: a * b, '/': lambda: a // b if b else None, '%': lambda: a % b if b else None,
             '<<': lambda: a << b if b < 64 else None, '>>': lambda: a >> b if b < 64 else None, '&': lambda: a & b, '|': lambda: a | b,
             '<': lambda: int(a < b), '<=': lambda: int(a <= b), '>': lambda: int(a > b), '>=': lambda: int(a >= b), '==': lambda: int(a == b),
             '!=': lambda: int(a != b), '&&': lambda: int(bool(a and b)), '||': lambda: int(bool(a or b))}.get(op)
        if r is None:
            return None
        v = r()
        return v if v is not None and (v >= 0 or signed) else None
    return None


def loop_trips(f, lp, bound_name, counts=range(0, 5), extra_env=None):
    """For a `for (T i = c0; <cond>; ++i)` loop: {N: (number of iterations, first index)} with the variable `bound_name` set to N, by folding the conjuncts of the
    condition that mention the bound (other conjuncts are taken as true).  None when the loop is not of that form."""
    if lp is None or lp['k'] != 'ForStmt' or lp.get('cond') is None or lp.get('inc') is None or lp.get('init') is None:
        return None
    ivar = None
    for x in f.walk(lp['init']):
        if f.stmts[x]['k'] == 'DeclStmt' and f.stmts[x]['decls']:
            ivar = f.stmts[x]['decls'][0]
    inc = f.s(lp['inc'])
    if ivar is None or 'init' not in ivar or inc is None or inc['k'] != 'UnaryOperator' or inc.get('op') != '++':
        return None
    start = (f.s(ivar['init']) or {}).get('cv')
    if start is None:
        return None

    def conj(e):
        st = f.s(f.strip_casts(e))
        if st is not None and st['k'] == 'ParenExpr':
            return conj(st['ch'][0])
        if st is not None and st['k'] == 'BinaryOperator' and st.get('op') == '&&':
            return conj(st['ch'][0]) + conj(st['ch'][1])
        return [e]
    is_bound = bound_name if callable(bound_name) else (lambda sx: sx['k'] == 'DeclRefExpr' and sx.get('n') == bound_name)
    cs = [c for c in conj(lp['cond']) if any(is_bound(f.stmts[x]) for x in f.walk(c))]
    if not cs:
        return None
    out = {}
    for N in counts:
        env = dict(extra_env or {})
        i, t = start, 0
        while t < 16:
            env[ivar['n']] = i
            v = [eval_expr(f, c, lambda sx: N if is_bound(sx) else (env.get(sx.get('n')) if sx['k'] == 'DeclRefExpr' else None)) for c in cs]
            if any(x is None for x in v):
                return None
            if not all(v):
                break
            i += 1
            t += 1
        out[N] = (t, start)
    return out


def edge_rels(f, cond, k):
    """both orientations of the relation established on edge k of cond: [(lhs, op, rhs), (rhs, swapped op, lhs)] — empty if not a comparison"""
    r = edge_relation(f, cond, k)
    if r is None:
        return []
    l, o, rr = r
    return [(l, o, rr), (rr, _SWAP[o], l)]


def edge_says(f, cond, k, lhs_pred, ops, rhs_pred):
    """does edge k of cond establish `L op R` with lhs_pred(L), rhs_pred(R) and op in ops (either orientation)?  '<' implies '<=' and '!=', etc."""
    implied = {'<': ('<', '<=', '!='), '<=': ('<=',), '>': ('>', '>=', '!='), '>=': ('>=',), '==': ('==', '<=', '>='), '!=': ('!=',)}
    for l, o, r in edge_rels(f, cond, k):
        if lhs_pred(l) and rhs_pred(r) and any(x in implied[o] for x in ops):
            return True
    return False


def carries(f, expr, call_ids, depth=0):
    """does the value of `expr` come from one of the calls: the call is inside the expression, or the expression reads a local every definition of which carries it"""
    from . import rd
    ids = set(call_ids)
    for x in f.walk(expr):
        if x in ids:
            return True
    if depth > 3:
        return False
    for x in f.walk(expr):
        sx = f.stmts[x]
        if sx['k'] == 'DeclRefExpr' and sx.get('dk') == 'Var':
            defs = rd.local_defs(f, sx['d'])
            if defs and all(d['kind'] in ('init', '=') and d['rhs'] is not None and carries(f, d['rhs'], ids, depth + 1) for d in defs):
                return True
    return False


def const_of(f, e, depth=0):
    """the compile-time value of an expression: folded by the compiler, or a local that has exactly one definition, its initialiser, with such a value; None otherwise"""
    from . import rd
    x = f.s(f.strip_casts(e))
    if x is None:
        return None
    if x.get('cv') is not None:
        return x['cv']
    if depth < 3 and x['k'] == 'DeclRefExpr' and x.get('dk') == 'Var':
        defs = rd.local_defs(f, x['d'])
        if len(defs) == 1 and defs[0]['kind'] == 'init' and defs[0]['rhs'] is not None:
            return const_of(f, defs[0]['rhs'], depth + 1)
    return None
