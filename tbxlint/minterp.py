"""A small abstract interpreter over the syntax trees of a few functions: integers are computed exactly (with the width of their C type), memory is a set
of named regions whose cells hold either integers or *markers* (opaque provenance tags: "byte 17 of the message"), and selected callees are uninterpreted
events handled by hooks.  It is used to replay buffer-management code (which byte goes where, how many, in which order) over a finite grid of lengths while
the bytes themselves — and whatever is computed from them — stay abstract.  Nothing of the repository is compiled or run; arithmetic on a marker is unknown,
and a branch on an unknown value is analysis-broken rather than guessed.

Faults (an access outside a region, a negative length given to a copy) are collected, not raised: they are the findings."""
import sys
from .facts import AnalysisBroken
from . import q

sys.setrecursionlimit(max(sys.getrecursionlimit(), 40000))

WIDTH = {'unsigned char': 8, 'unsigned short': 16, 'unsigned int': 32, 'unsigned long': 64, 'unsigned long long': 64, 'bool': 1,
         'char': -8, 'signed char': -8, 'short': -16, 'int': -32, 'long': -64, 'long long': -64}


class P:
    """pointer value: (region, offset)"""
    __slots__ = ('r', 'o')

    def __init__(self, r, o=0):
        self.r, self.o = r, o

    def __repr__(self):
        return '%s+%d' % (self.r, self.o)

    def __eq__(self, o):
        return isinstance(o, P) and self.r == o.r and self.o == o.o

    def __ne__(self, o):
        return not self.__eq__(o)

    def __hash__(self):
        return hash((self.r, self.o))


class D(frozenset):
    """abstract byte value: the set of input positions it was computed from"""
    def __repr__(self):
        return 'dep{%s}' % ','.join(str(x) for x in sorted(self))


class S(str):
    """a std::string value with concrete contents"""
    __slots__ = ()


NPOS = (1 << 64) - 1


def _pos(i):
    return NPOS if i < 0 else i


import re as _re_mod
_DIMS = _re_mod.compile(r'\[(\d+)\]')


class It:
    """iterator value: a position in a sequence (index) or in a map (key, or END)"""
    END = ('<end>',)
    __slots__ = ('c', 'k', 'rev')

    def __init__(self, c, k, rev=False):
        self.c, self.k, self.rev = c, k, rev

    def same(self, o):
        return isinstance(o, It) and self.c is o.c and self.k == o.k and self.rev == o.rev

    def __repr__(self):
        return 'it@%s' % (self.k,)


class _Return(Exception):
    def __init__(self, v):
        self.v = v


class _Break(Exception):
    pass


class Throw(Exception):
    """a C++ exception travelling up the interpreted call chain; `types` are the class names a handler may name (most derived first)"""
    def __init__(self, types, what=''):
        Exception.__init__(self, what)
        self.types, self.what = tuple(types), what


class _Abort(Exception):
    """the replay has recorded a fault and reached a point that depends on the faulty value: stop, the fault is the finding"""


class _Continue(Exception):
    pass


def wrap(v, ct):
    if not isinstance(v, int):
        return v
    w = WIDTH.get((ct or '').replace('const ', '').strip())
    if w is None:
        return v
    if w > 0:
        return v & ((1 << w) - 1)
    w = -w
    v &= (1 << w) - 1
    return v - (1 << w) if v >> (w - 1) else v


class Interp:
    def __init__(self, prog, regions, hooks=None, inline=(), max_steps=200000):
        self.prog, self.mem, self.hooks, self.inline = prog, regions, hooks or {}, set(inline)
        self.steps, self.max_steps = 0, max_steps
        self.faults = []
        self.this = {}          # scalar fields of the object
        self._tmp = 0
        self._alias = {}
        self._keep = []         # keeps records alive so that id()-based region names stay unique
        self.cur_obj = None
        self.struct_init = {}       # name of a structure of a library -> initialiser(it, record) run when a local of that type is declared
        self.ctor_hooks = {}        # class-name prefix -> construction(it, f, st, args) -> record / pointer
        self.delete_hooks = []      # called with (it, f, st, record) when an object is deleted
        self.raii = {}              # class-name prefix -> (on construction(it, f, st, args) -> object, on scope exit(it, f, st, object))
        self.freed = set()
        self.heap = 0
        self.globals = {}
        self.max_depth = 150
        self.string_mode = False     # build std::string values as concrete text (S) instead of passing C-string pointers through
        self.noeval = {'LogPrintfFunc', 'LogPrintf', 'printf', 'fprintf'}

    # ---- memory ------------------------------------------------------------
    def fault(self, f, st, what):
        self.faults.append('%s (%s)' % (what, f.loc(st['i'])))

    def load(self, f, st, p):
        if not isinstance(p, P) or p.r not in self.mem:
            raise AnalysisBroken('%s: load through an unknown pointer at %s' % (f.short, f.loc(st['i'])))
        reg = self.mem[p.r]
        if isinstance(reg, dict):
            return p            # "the object at p": records are handled by reference
        if p.r in self.freed:
            self.fault(f, st, 'read of %s after it was deleted' % p.r)
            return None
        if not (0 <= p.o < len(reg)):
            self.fault(f, st, 'read of %s[%d] outside its %d cell(s)' % (p.r, p.o, len(reg)))
            return None
        return reg[p.o]

    def store(self, f, st, p, v):
        if not isinstance(p, P) or p.r not in self.mem:
            raise AnalysisBroken('%s: store through an unknown pointer at %s' % (f.short, f.loc(st['i'])))
        reg = self.mem[p.r]
        if p.r in self.freed:
            self.fault(f, st, 'write of %s after it was deleted' % p.r)
            return
        if not (0 <= p.o < len(reg)):
            self.fault(f, st, 'write of %s[%d] outside its %d cell(s)' % (p.r, p.o, len(reg)))
            return
        reg[p.o] = v

    def span(self, f, st, p, n, what):
        """cells [p, p+n) or None (fault recorded)"""
        if isinstance(n, int) and n == 0 and (p == 0 or isinstance(p, P)):
            return [], 0
        if p == 0 and isinstance(n, int):
            self.fault(f, st, '%s of %d byte(s) through a null pointer' % (what, n))
            return None
        if not isinstance(p, P) or p.r not in self.mem or not isinstance(n, int):
            raise AnalysisBroken('%s: %s with an unknown pointer or length at %s' % (f.short, what, f.loc(st['i'])))
        reg = self.mem[p.r]
        if n < 0 or n > (1 << 40):
            self.fault(f, st, '%s of %d byte(s): the length has wrapped' % (what, n))
            return None
        if p.r in self.freed and n > 0:
            self.fault(f, st, '%s touches %s after it was deleted' % (what, p.r))
            return None
        if p.o < 0 or p.o + n > len(reg):
            self.fault(f, st, '%s touches %s[%d, %d) outside its %d cell(s)' % (what, p.r, p.o, p.o + n, len(reg)))
            return None
        return reg, p.o

    # ---- records -----------------------------------------------------------
    def canon(self, rec, name):
        """members of an anonymous union share one slot"""
        cls = rec.get('__cls__') if isinstance(rec, dict) else None
        if cls is None:
            return name
        key = (cls, name)
        if key not in self._alias:
            out = name
            for fd in self.prog.classes.get(cls, {}).get('fields', ()):
                if fd.get('n') == '' and 'union' in (fd.get('t') or ''):
                    for ucls in (cls + '::(anonymous)',):
                        if any(m.get('n') == name for m in self.prog.classes.get(ucls, {}).get('fields', ())):
                            out = '#union%s' % fd.get('fd')
            self._alias[key] = out
        return self._alias[key]

    def new_record(self, cls):
        c = self.prog.classes.get(cls)
        if c is None:
            raise AnalysisBroken('class %s is not known to the replay' % cls)
        rec = {'__cls__': cls}
        for b in c.get('bases', ()):
            if b in self.prog.classes:
                base = self.new_record(b)
                base.pop('__cls__', None)
                rec.update(base)
        for fd in c.get('fields', ()):
            ct = fd.get('ct') or ''
            if fd.get('n') == '' and 'union' in (fd.get('t') or ''):
                first = (self.prog.classes.get(cls + '::(anonymous)', {}).get('fields') or [{}])[0]
                rec['#union%s' % fd.get('fd')] = (first.get('initv') or 0) if first.get('hasinit') else 'uninit'
            elif ct.startswith(('std::vector<', 'std::deque<', 'std::list<', 'std::queue<')):
                rec[fd['n']] = []
            elif 'initv_hex' in fd:
                rec[fd['n']] = int(fd['initv_hex'], 16)
            elif fd.get('hasinit') and 'initv' in fd:
                rec[fd['n']] = fd['initv'] if fd['initv'] is not None else 0
            elif ct.startswith('std::map<') or ct.startswith('std::unordered_map<') or ct.startswith('std::set<') or ct.startswith('std::unordered_set<'):
                rec[fd['n']] = {'__map__': True}
            elif _DIMS.search(ct) and not ct.startswith('std::') and ct.split('[')[0].strip() in WIDTH:
                n = 1
                for dim in _DIMS.findall(ct):
                    n *= int(dim)
                self._tmp = getattr(self, '_tmp', 0) + 1
                name = 'field:%s#%d' % (fd['n'], self._tmp)
                self.mem[name] = ['uninit'] * n          # an array member: a region of its own, row-major
                rec[fd['n']] = P(name, 0)
            elif ct.startswith('std::atomic<'):
                rec[fd['n']] = {'__cls__': 'std::atomic', '__open__': True, 'v': (fd.get('initv') or 0) if fd.get('hasinit') else 0}       # a cell of its own
            elif ct.startswith('std::pair<'):
                rec[fd['n']] = {'__cls__': None, '__open__': True, 'first': 0, 'second': 0}
            elif ct.startswith('std::function<'):
                rec[fd['n']] = 0
            elif ct.startswith('std::') and ('string' in ct):
                rec[fd['n']] = S('') if self.string_mode else P('str:empty', 0)
            elif ct in self.prog.classes:
                rec[fd['n']] = self.new_record(ct)
            elif '*' in ct and fd.get('hasinit') and fd.get('initv', 0) is None:
                rec[fd['n']] = 0
            else:
                rec[fd['n']] = 'uninit'
        return rec

    def class_chain(self, cls):
        out, work = [], [cls]
        while work:
            c = work.pop(0)
            if c in out or c not in self.prog.classes:
                continue
            out.append(c)
            work.extend(self.prog.classes[c].get('bases', ()))
        return out

    def find_method(self, cls, name, nparams):
        """the final overrider of `name` for dynamic class cls: the first class of the chain (most derived first) that defines it with a body"""
        for c in self.class_chain(cls):
            for g in self.prog.by_name.get(c + '::' + name, ()):
                if not g.parent_usr and g.body is not None and len(g.params) == nparams:
                    return g
        return None

    def cstr(self, v):
        """the text a pointer into a string region designates, or None"""
        if isinstance(v, P) and isinstance(self.mem.get(v.r), list) and (v.r.startswith(('str', 'role:')) or v.r.startswith('local:')):
            out = []
            for c in self.mem[v.r][v.o:]:
                if c == 0:
                    return ''.join(out)
                if not isinstance(c, int):
                    return None
                out.append(chr(c))
        return None

    def to_text(self, v):
        if isinstance(v, str):
            return str(v)
        c = self.cstr(v)
        if c is not None:
            return c
        if isinstance(v, P) and isinstance(self.mem.get(v.r), list):
            out = []
            for x in self.mem[v.r][v.o:]:
                if x == 0:
                    return ''.join(out)
                if not isinstance(x, int):
                    return None
                out.append(chr(x))
        return None

    def string_call(self, f, st, env, name, obj, args):
        """std::string operations on concrete text (obj may be S or, for the free operators, a C string)"""
        s_ = self.to_text(obj)
        if s_ is None:
            return NotImplemented
        a = list(args)
        t0 = self.to_text(a[0]) if a else None
        ch0 = chr(a[0] & 0xff) if a and isinstance(a[0], int) and -128 <= a[0] < 256 else None       # a char that went through a signed `char` variable is negative from 0x80 on
        pat = t0 if t0 is not None else ch0

        def mutate(v):
            if 'obj' in st:
                self.write(f, st, self.lv(f, st['obj'], env), S(v), env)
            return S(v)
        if name in ('size', 'length'):
            return len(s_)
        if name == 'empty':
            return int(not s_)
        if name in ('c_str', 'data'):
            self._tmp += 1
            nm = 'str:tmp#%d' % self._tmp
            self.mem[nm] = [ord(c) for c in s_] + [0]
            return P(nm, 0)
        if name in ('operator[]', 'at'):
            i = a[0]
            if not isinstance(i, int):
                return NotImplemented
            if i == len(s_) and name == 'operator[]':
                return 0
            if not (0 <= i < len(s_)):
                self.fault(f, st, 'std::string::%s(%d) on a string of %d character(s)%s' % (name, i, len(s_), ': std::out_of_range is thrown' if name == 'at' else ''))
                raise _Abort()
            return ord(s_[i])
        if name in ('front', 'back'):
            if not s_:
                self.fault(f, st, 'std::string::%s() on an empty string' % name)
                raise _Abort()
            return ord(s_[0] if name == 'front' else s_[-1])
        if name in ('find', 'find_first_of', 'find_first_not_of', 'rfind', 'find_last_of', 'find_last_not_of') and pat is not None:
            start = a[1] if len(a) > 1 and isinstance(a[1], int) else (NPOS if name in ('rfind', 'find_last_of', 'find_last_not_of') else 0)
            if name == 'find':
                return _pos(s_.find(pat, start)) if start <= len(s_) else NPOS
            if name == 'rfind':
                return _pos(s_.rfind(pat, 0, min(start, len(s_)) + len(pat)))
            idxs = range(min(start, len(s_) - 1), -1, -1) if name.startswith('find_last') else range(start, len(s_))
            want_in = name in ('find_first_of', 'find_last_of')
            for i in idxs:
                if (s_[i] in pat) == want_in:
                    return i
            return NPOS
        if name == 'substr':
            pos = a[0] if a and isinstance(a[0], int) else 0
            n = a[1] if len(a) > 1 and isinstance(a[1], int) else NPOS
            if pos > len(s_):
                self.fault(f, st, 'std::string::substr(%d) on a string of %d character(s): std::out_of_range is thrown' % (pos, len(s_)))
                raise _Abort()
            return S(s_[pos:pos + n] if n < NPOS - pos else s_[pos:])
        if name == 'compare':
            if len(a) == 3 and isinstance(a[0], int) and isinstance(a[1], int):
                t = self.to_text(a[2])
                if t is None:
                    return NotImplemented
                if a[0] > len(s_):
                    self.fault(f, st, 'std::string::compare(%d, ...) on a string of %d character(s): std::out_of_range is thrown' % (a[0], len(s_)))
                    raise _Abort()
                x = s_[a[0]:a[0] + a[1]]
                return (x > t) - (x < t)
            if t0 is not None:
                return (s_ > t0) - (s_ < t0)
            return NotImplemented
        if name in ('operator==', 'operator!=') and t0 is not None:
            return int((s_ == t0) == (name == 'operator=='))
        if name in ('operator<', 'operator>') and t0 is not None:
            return int(s_ < t0 if name == 'operator<' else s_ > t0)
        if name == 'operator+' and pat is not None:
            return S(s_ + pat)
        if name in ('operator+=', 'append', 'push_back') and pat is not None:
            if name == 'append' and len(a) == 3 and isinstance(a[1], int) and isinstance(a[2], int) and t0 is not None:
                if a[1] > len(t0):
                    self.fault(f, st, 'std::string::append(str, %d, ...) with a string of %d character(s): std::out_of_range is thrown' % (a[1], len(t0)))
                    raise _Abort()
                pat = t0[a[1]:a[1] + a[2]] if a[2] < NPOS - a[1] else t0[a[1]:]
            elif name == 'append' and len(a) == 2 and isinstance(a[1], int) and t0 is not None:
                pat = t0[:a[1]]
            elif name == 'append' and len(a) == 2 and isinstance(a[0], int) and isinstance(a[1], int):
                pat = chr(a[1] & 0xff) * a[0]
            return mutate(s_ + pat)
        if name in ('operator=', 'assign'):
            if pat is None and a and a[0] in (None,):
                return NotImplemented
            return mutate(pat if pat is not None else '')
        if name == 'clear':
            return mutate('')
        if name == 'pop_back':
            if not s_:
                self.fault(f, st, 'std::string::pop_back() on an empty string')
                raise _Abort()
            return mutate(s_[:-1])
        if name == 'erase' and a and isinstance(a[0], int):
            n = a[1] if len(a) > 1 and isinstance(a[1], int) else NPOS
            if a[0] > len(s_):
                self.fault(f, st, 'std::string::erase(%d) on a string of %d character(s): std::out_of_range is thrown' % (a[0], len(s_)))
                raise _Abort()
            return mutate(s_[:a[0]] + (s_[a[0] + n:] if n < NPOS - a[0] else ''))
        if name in ('reserve', 'shrink_to_fit'):
            return None
        return NotImplemented

    def is_callable(self, v):
        return callable(v) or (isinstance(v, tuple) and v and v[0] in ('lambda', 'bind', 'method', 'func'))

    def invoke(self, f, st, fn, args):
        """call a callable value: a python function (harness), a lambda closure, a bind expression or a member-function designator"""
        if fn in (0, None, 'uninit'):
            self.fault(f, st, 'an empty std::function is called (std::bad_function_call)')
            raise _Abort()
        if callable(fn):
            return fn(*args)
        if fn[0] == 'func':
            tg = [g for g in self.prog.by_usr.get(fn[1], ()) if g.body is not None]
            if len(tg) != 1:
                raise AnalysisBroken('%s: call through a pointer to %s, which has no single body the replay can follow (%s)' % (f.short, fn[2], f.loc(st['i'])))
            return self.call(tg[0], list(args)[:len(tg[0].params)])
        if fn[0] == 'lambda':
            _, lam, caps, this = fn
            env = dict(caps)
            for p_, a in zip(lam.params, args):
                env[p_['d']] = wrap(a, p_.get('ct'))
            saved = self.this
            if this is not None:
                self.this = this
            self._depth = getattr(self, '_depth', 0) + 1
            try:
                self.run(lam, lam.body, env)
            except _Return as r:
                return r.v
            finally:
                self._depth -= 1
                self.this = saved
            return None
        if fn[0] == 'bind':
            _, target, bound = fn
            actual = [args[b[1] - 1] if (isinstance(b, tuple) and b and b[0] == 'ph' and b[1] - 1 < len(args)) else b for b in bound]
            if isinstance(target, tuple) and target[0] == 'method':
                this = self.record_of(actual[0])
                if this is None:
                    raise AnalysisBroken('%s: bind of a member function to an object the replay does not hold (%s)' % (f.short, f.loc(st['i'])))
                g = self.method_by_usr(target[1], this, target[2], len(actual) - 1)
                return self.call(g, actual[1:], this=this)
            return self.invoke(f, st, target, actual)
        if fn[0] == 'method':
            stat = [g for g in self.prog.by_usr.get(fn[1], ()) if g.body is not None and (g.d.get('static') or (fn[1] or '').endswith('#S'))]     # the USR of a static member function ends in #S
            if stat:
                return self.call(stat[0], list(args)[:len(stat[0].params)])      # a static member function: a plain function
            this = self.record_of(args[0])
            g = self.method_by_usr(fn[1], this, fn[2], len(args) - 1)
            return self.call(g, args[1:], this=this)
        raise AnalysisBroken('%s: call of a value that is not callable (%s)' % (f.short, f.loc(st['i'])))

    def method_by_usr(self, usr, this, name, nparams):
        tg = [g for g in self.prog.by_usr.get(usr, ()) if not g.parent_usr and g.body is not None]
        if tg and not tg[0].d.get('virtual'):
            return tg[0]
        g = self.find_method((this or {}).get('__cls__', ''), name, nparams) if this else None
        if g is None and tg:
            g = tg[0]
        if g is None:
            raise AnalysisBroken('member function %s has no body the replay can follow' % name)
        return g

    def ref(self, rec):
        name = 'rec@%d' % id(rec)
        self.mem[name] = rec
        return P(name, 0)

    def record_of(self, v):
        if isinstance(v, P) and isinstance(self.mem.get(v.r), dict):
            return self.mem[v.r]
        if isinstance(v, dict):
            return v
        return None

    def construct(self, f, st, env):
        cls = st.get('ctor') or ''
        if cls == '(anonymous)' and st.get('t'):
            cls = st['t']           # a typedef of an unnamed structure (fd_set)
        args = [self.ev(f, a, env) for a in st.get('args', [])]
        hk = next((k_ for k_ in self.ctor_hooks if cls.startswith(k_)), None)
        if hk is not None:
            return self.ctor_hooks[hk](self, f, st, args)       # a class of a library the harness models (std::thread)
        if cls not in self.prog.classes:
            if cls.startswith(('std::vector<', 'std::deque<', 'std::list<', 'std::queue<')):
                out = list(args[0]) if args and isinstance(args[0], list) else []
                if st.get('move') and args and isinstance(args[0], list):
                    del args[0][:]          # move construction: the source is left empty (what libstdc++ does, and what the code relies on)
                return out
            if cls.startswith(('std::set<', 'std::unordered_set<')) and args and isinstance(args[0], list):
                return list(args[0])            # a set a harness holds as a sequence of distinct elements
            if cls.startswith(('std::map<', 'std::unordered_map<', 'std::set<', 'std::unordered_set<')):
                out = dict(args[0]) if args and isinstance(args[0], dict) else {'__map__': True}
                if st.get('move') and args and isinstance(args[0], dict):
                    for k_ in [k_ for k_ in args[0] if k_ != '__map__']:
                        del args[0][k_]
                return out
            if cls.startswith(('std::basic_string', 'std::__cxx11::basic_string')):
                a_ = [x for x in args if x is not None]
                if self.string_mode:
                    if not a_:
                        return S('')
                    if isinstance(a_[0], S):
                        return a_[0]
                    if isinstance(a_[0], int) and len(a_) >= 2 and isinstance(a_[1], int):
                        return S(chr(a_[1]) * a_[0])
                    if isinstance(a_[0], P) and isinstance(self.mem.get(a_[0].r), list):
                        if len(a_) >= 2 and isinstance(a_[1], int):
                            sp = self.span(f, st, a_[0], a_[1], 'std::string(ptr, %d)' % a_[1])
                            if sp is None:
                                raise _Abort()
                            cells = sp[0][sp[1]:sp[1] + a_[1]]
                            if all(isinstance(c, int) for c in cells):
                                return S(''.join(chr(c & 0xff) for c in cells))
                            raise AnalysisBroken('%s: std::string built from bytes the replay keeps abstract (%s)' % (f.short, f.loc(st['i'])))
                        t = self.to_text(a_[0])
                        if t is not None:
                            return S(t)
                return args[0] if args and args[0] is not None else P('str:empty', 0)
            if len(args) >= 1 and cls.startswith('std::function'):
                return args[0] if args[0] is not None else 0
            if cls.startswith('std::function'):
                return 0
            if cls.startswith('std::chrono::'):
                return args[0] if args and isinstance(args[0], int) else 0
            if 'basic_ostringstream' in cls or 'basic_stringstream' in cls:
                rec = {'__cls__': 'std::ostringstream', '__open__': True, '__text__': ''}
                self._keep.append(rec)
                return self.ref(rec)
            if len(args) == 1:
                return args[0]
            if not args and cls and 'std::' not in cls:
                rec = {'__cls__': cls, '__open__': True}     # a plain struct from a system header
                self._keep.append(rec)
                if cls.replace('struct ', '') in self.struct_init:
                    self.struct_init[cls.replace('struct ', '')](self, rec)
                return self.ref(rec)
            return None
        tg = [g for g in self.prog.by_usr.get(st.get('usr'), ()) if g.d.get('ctor') and g.body is not None]
        if not tg and len(args) == 1 and self.record_of(args[0]) is not None and self.record_of(args[0]).get('__cls__') == cls:
            cp = dict(self.record_of(args[0]))       # implicit (memberwise) copy / move construction
            self._keep.append(cp)
            return self.ref(cp)
        rec = self.new_record(cls)
        self._keep.append(rec)
        self.run_ctor(f, st, rec, cls, tg[0] if tg else None, args)
        return self.ref(rec)

    def run_ctor(self, f, st, rec, cls, g, args):
        """run constructor g (or, when it has no body — an inherited or implicit constructor — the matching constructor of a base) on record rec"""
        if g is None:
            for b in self.prog.classes.get(cls, {}).get('bases', ()):
                cands = [h for h in self.prog.by_name.get(b + '::' + b.split('::')[-1], ()) if h.d.get('ctor') and h.body is not None and len(h.params) == len(args)]
                if cands:
                    return self.run_ctor(f, st, rec, b, cands[0], args)
                if b in self.prog.classes:
                    return self.run_ctor(f, st, rec, b, None, args)
            if args:
                raise AnalysisBroken('%s: constructor of %s with arguments has no body the replay can follow (%s)' % (f.short, cls, f.loc(st['i'])))
            return
        cenv = {p_['d']: wrap(a, p_.get('ct')) for p_, a in zip(g.params, args)}
        saved, self.this = self.this, rec
        try:
            for ini in g.d.get('inits', ()):
                if ini.get('init') is None:
                    continue
                if ini.get('base'):
                    ce = None
                    for x in g.walk(ini['init']):
                        if g.stmts[x]['k'] in ('CXXConstructExpr', 'CXXInheritedCtorInitExpr') and g.stmts[x].get('ctor') in self.class_chain(cls):
                            ce = g.stmts[x]
                            break
                    if ce is not None:
                        bargs = [self.ev(g, a, cenv) for a in ce.get('args', [])]
                        btg = [h for h in self.prog.by_usr.get(ce.get('usr'), ()) if h.d.get('ctor') and h.body is not None]
                        self.this = rec
                        self.run_ctor(g, ce, rec, ce['ctor'], btg[0] if btg else None, bargs)
                        self.this = rec
                elif ini.get('written'):
                    rec[self.canon(rec, ini['field'])] = self.ev(g, ini['init'], cenv)
            if g.body is not None:
                try:
                    self.run(g, g.body, cenv)
                except _Return:
                    pass
        finally:
            self.this = saved

    # ---- calls -------------------------------------------------------------
    def call(self, f, args, this=None):
        env = {}
        for p_, a in zip(f.params, args):
            ct = (p_.get('ct') or '')
            if isinstance(a, tuple) and len(a) == 2 and a[0] in ('lref', 'ref'):
                env[p_['d']] = a                # a reference bound by the call site (scalar or string lvalue of the caller)
            elif ct.endswith('&') and not ct.startswith('const ') and isinstance(a, P) and isinstance(self.mem.get(a.r), list) and ct.rstrip('& ').strip() in WIDTH:
                env[p_['d']] = ('ref', a)       # T &x with T a scalar: reads and writes go to the caller's cell
            else:
                env[p_['d']] = wrap(a, ct)
        saved = self.this
        if this is not None:
            self.this = this
        self._depth = getattr(self, '_depth', 0) + 1
        if self._depth > self.max_depth:
            self._depth -= 1
            self.this = saved
            self.fault(f, f.stmts[0], 'the call chain is %d calls deep (recursion that the input controls)' % self.max_depth)
            raise _Abort()
        try:
            self.run(f, f.body, env)
        except _Return as r:
            return r.v
        except _Abort:
            if self._depth > 1:
                raise
            return None
        finally:
            self._depth -= 1
            self.this = saved
        return None

    def _call(self, f, st, env):
        name = st.get('fn') or (st.get('callee') or '').split('<')[0].split('::')[-1]
        if not name.startswith('operator'):
            name = name.split('<')[0]
        if name in self.noeval:
            return None         # calls whose arguments are not worth evaluating (logging)
        if (st.get('callee') or '').startswith('std::swap') and len(st.get('args', [])) == 2 and 'swap' not in self.hooks:
            la, lb = self.lv(f, st['args'][0], env), self.lv(f, st['args'][1], env)
            va, vb = self.read(f, st, la, env), self.read(f, st, lb, env)
            self.write(f, st, la, vb, env)
            self.write(f, st, lb, va, env)
            return None
        args = [self.ev(f, a, env) for a in st.get('args', [])]
        objv = None
        if 'obj' in st and (f.s(f.strip_casts(st['obj'])) or {}).get('k') != 'CXXThisExpr':
            objv = self.ev(f, st['obj'], env)
        elif st['k'] == 'CXXOperatorCallExpr' and 'obj' not in st and args:
            objv = args[0]
        if isinstance(objv, S) and 'obj' in st:
            r = self.string_call(f, st, env, name, objv, args)
            if r is not NotImplemented:
                return r
        if st['k'] == 'CXXOperatorCallExpr' and 'obj' not in st and any(isinstance(a, S) for a in args) and name in ('operator==', 'operator!=', 'operator+', 'operator<', 'operator>'):
            r = self.string_call(f, st, env, name, args[0], args[1:])
            if r is not NotImplemented:
                return r
        ckey = '%s::%s' % ((st.get('cls') or '').split('<')[0].split('::')[-1], name)
        if ckey in self.hooks or (name in self.hooks and not (self.hooks[name] in _CONTAINER_HOOK_FUNCS and (st.get('cls') or '') in self.prog.classes)):
            # (a container hook of this module never shadows a method of a class of the repository that happens to have the same name: Cabinet::at, ...)
            self.cur_obj = objv
            return self.hooks[ckey if ckey in self.hooks else name](self, f, st, args)
        cls_ = st.get('cls') or ''
        if st['k'] == 'CXXOperatorCallExpr' and st.get('op') == '()' and (self.is_callable(objv) or objv in (0, None) and cls_.startswith('std::function')):
            return self.invoke(f, st, objv, args)
        if cls_.startswith('std::function') or cls_.startswith('std::basic_string') or cls_.startswith('std::__cxx11::basic_string'):
            if name == 'operator=' and 'obj' in st:
                v = args[0] if args else 0
                self.write(f, st, self.lv(f, st['obj'], env), v if v is not None else 0, env)
                return objv
            if name == 'operator bool':
                return int(objv not in (0, None, 'uninit'))
        if name in ('operator==', 'operator!=') and st['k'] == 'CXXOperatorCallExpr' and len(args) + (1 if 'obj' in st else 0) == 2:
            a_, b_ = ([objv] + args) if 'obj' in st else args
            sa, sb = self.cstr(a_), self.cstr(b_)
            if sa is not None and sb is not None:
                return int((sa == sb) == (name == 'operator=='))
            if isinstance(a_, It) and isinstance(b_, It):
                return int(a_.same(b_) == (name == 'operator=='))
            if (self.is_callable(a_) or a_ in (0, None)) and (self.is_callable(b_) or b_ in (0, None)):
                eq = (a_ in (0, None)) == (b_ in (0, None)) and (a_ in (0, None) or a_ is b_)
                return int(eq if name == 'operator==' else not eq)
        if name in ('operator++', 'operator--') and isinstance(objv, It) and 'obj' in st:
            d_ = 1 if name == 'operator++' else -1
            if objv.rev:
                d_ = -d_
            if isinstance(objv.c, dict):
                ks = _keys(objv.c)
                pos = ks.index(objv.k) + d_ if objv.k in ks else len(ks)
                nv = It(objv.c, ks[pos] if 0 <= pos < len(ks) else It.END)
            else:
                nv = It(objv.c, objv.k + d_, objv.rev)
            self.write(f, st, self.lv(f, st['obj'], env), nv, env)
            return objv if args else nv         # the postfix form carries a dummy int argument
        callee = st.get('callee') or ''
        if callee.startswith('std::chrono::') or cls_.startswith('std::chrono::'):
            # durations and time points are plain numbers (ticks of the model clock)
            ops = ([objv] if 'obj' in st else []) + list(args)
            if name == 'operator=' and 'obj' in st:
                self.write(f, st, self.lv(f, st['obj'], env), args[0] if args else 0, env)
                return args[0] if args else 0
            if name in ('operator+=', 'operator-=') and 'obj' in st and isinstance(objv, int) and args and isinstance(args[0], int):
                v = objv + args[0] if name == 'operator+=' else objv - args[0]
                self.write(f, st, self.lv(f, st['obj'], env), v, env)
                return v
            if name.startswith('operator') and len(ops) == 2:
                if not (isinstance(ops[0], int) and isinstance(ops[1], int)):
                    return None
                return self.arith(f, st, name[len('operator'):], ops[0], ops[1])
            if name in ('duration_cast', 'time_point_cast', 'floor', 'ceil', 'round'):
                return args[0] if args else None
            if name in ('count', 'time_since_epoch'):
                return objv
            if name == 'zero':
                return 0
            if name in ('max', 'min') and not args:
                return (1 << 62) if name == 'max' else -(1 << 62)
        tg = [g for g in self.prog.by_usr.get(st.get('usr'), ()) if not g.parent_usr and g.body is not None]
        if st.get('virt') and not st.get('qualified') and (name in self.inline or '*' in self.inline):
            this_ = self.record_of(objv) if objv is not None else self.this
            dyn = self.find_method((this_ or {}).get('__cls__', ''), name, len(args)) if isinstance(this_, dict) else None
            if dyn is not None:
                tg = [dyn]
        if tg and (name in self.inline or '*' in self.inline):
            g = tg[0]
            arg_ids = list(st.get('args', []))
            if len(arg_ids) == len(g.params):
                for i_, (p_, aid) in enumerate(zip(g.params, arg_ids)):
                    pct = (p_.get('ct') or '')
                    base_t = pct.rstrip('& ').strip()
                    if pct.endswith('&') and not pct.endswith('&&') and not pct.startswith('const ') and (base_t in WIDTH or base_t.startswith(('std::basic_string', 'std::__cxx11::basic_string'))):
                        if isinstance(args[i_], (int, S)) or args[i_] in (None, 'uninit'):
                            try:
                                loc = self.lv(f, aid, env)
                            except AnalysisBroken:
                                continue
                            if loc[0] == 'var':
                                self._tmp += 1
                                nm_ = 'cell#%d' % self._tmp
                                self.mem[nm_] = [env.get(loc[1])]
                                env[loc[1]] = ('ref', P(nm_, 0))
                                args[i_] = ('ref', P(nm_, 0))
                            elif loc[0] in ('dict', 'field', 'mem', 'global'):
                                if loc[0] == 'field':
                                    loc = ('dict', self.this, loc[1])       # the callee runs with its own `this`
                                args[i_] = ('lref', loc)
            this = self.record_of(objv)
            if objv == 0 and this is None and 'obj' in st:
                self.fault(f, st, 'a member function (%s) is called through a null pointer' % name)
                raise _Abort()
            if objv is not None and this is None:
                raise AnalysisBroken('%s: member call %s on an object the replay does not hold (%s)' % (f.short, name, f.loc(st['i'])))
            if st['k'] == 'CXXOperatorCallExpr' and 'obj' not in st and len(args) == len(g.params) + 1:
                args = args[1:]
            return self.call(g, args, this=this)
        if name == 'operator=' and 'obj' in st and cls_ and cls_ not in self.prog.classes and len(args) == 1:
            self.write(f, st, self.lv(f, st['obj'], env), args[0], env)         # a value type of a library: assignment copies the (opaque) value
            return objv
        if name == 'operator=' and 'obj' in st and len(args) == 1 and self.record_of(objv) is not None and self.record_of(args[0]) is not None:
            # an implicitly defined copy / move assignment of a class of the repository: member-wise
            dst, src = self.record_of(objv), self.record_of(args[0])
            for k_, v_ in list(src.items()):
                if not k_.startswith('__'):
                    dst[k_] = dict(v_) if isinstance(v_, dict) else (list(v_) if isinstance(v_, list) else v_)
            return objv
        if not name and st['k'] == 'CallExpr' and st.get('calleeexpr') is not None:
            # a call through a pointer to function held in a variable or a field
            fnv = self.ev(f, st['calleeexpr'], env)
            if self.is_callable(fnv) or fnv in (0, None):
                return self.invoke(f, st, fnv, args)
        raise AnalysisBroken('%s: call of %s at %s is neither a hook nor inlined' % (f.short, name or '?', f.loc(st['i'])))

    # ---- statements ----------------------------------------------------------
    def run(self, f, sid, env):
        st = f.s(sid)
        if st is None:
            return
        self.steps += 1
        if self.steps > self.max_steps:
            raise AnalysisBroken('%s: the replay does not terminate' % f.short)
        k = st['k']
        if k == 'CompoundStmt':
            if not self.raii:
                for c in st['ch']:
                    self.run(f, c, env)
            else:
                # scope-bound objects of the classes a harness has registered (locks): their destructor action runs on every way out of the block, in reverse order
                stack = env.setdefault('__cleanup__', [])
                stack.append([])
                try:
                    for c in st['ch']:
                        self.run(f, c, env)
                finally:
                    for fn_ in reversed(stack.pop()):
                        fn_()
        elif k == 'DeclStmt':
            for d in st['decls']:
                if 'd' not in d:
                    continue            # a using-declaration, a typedef: nothing to hold
                ct = d.get('ct') or d.get('t') or ''
                if self.raii and 'init' in d:
                    ini = f.s(d['init'])
                    while ini is not None and ini['k'] in ('ExprWithCleanups', 'CXXBindTemporaryExpr', 'MaterializeTemporaryExpr') and ini.get('ch'):
                        ini = f.s(ini['ch'][0])
                    key = next((k_ for k_ in self.raii if ini is not None and ini['k'] == 'CXXConstructExpr' and (ini.get('ctor') or '').startswith(k_)), None)
                    if key is not None:
                        args_ = [self.ev(f, a, env) for a in ini.get('args', [])]
                        obj = self.raii[key][0](self, f, ini, args_)
                        env[d['d']] = obj
                        if env.get('__cleanup__'):
                            env['__cleanup__'][-1].append(lambda obj=obj, key=key, f=f, ini=ini: self.raii[key][1](self, f, ini, obj))
                        continue
                if d.get('vla') is not None and 'init' not in d:
                    n = self.ev(f, d['vla'], env)
                    if not isinstance(n, int) or n < 0 or n > (1 << 24):
                        raise AnalysisBroken('%s: variable-length array %s with a size the replay cannot use (%s)' % (f.short, d.get('n'), f.loc(sid)))
                    self._tmp += 1
                    name = 'local:%s[%d]#%d' % (d['n'], n, self._tmp)
                    self.mem[name] = ['uninit'] * n
                    env[d['d']] = P(name, 0)
                elif 'init' not in d and '[' not in ct and '*' not in ct and (ct in self.prog.classes or ct.replace('struct ', '') not in WIDTH and not ct.startswith(('unsigned', 'int', 'long', 'short', 'char', 'bool', 'size_t', 'uint', 'float', 'double'))):
                    rec = self.new_record(ct) if ct in self.prog.classes else {'__cls__': ct, '__open__': True}
                    self._keep.append(rec)
                    if ct.replace('struct ', '') in self.struct_init:
                        self.struct_init[ct.replace('struct ', '')](self, rec)
                    env[d['d']] = self.ref(rec)
                elif '[' in ct and ('init' not in d or ((f.s(d['init']) or {}).get('k') == 'CXXConstructExpr' and not (f.s(d['init']) or {}).get('args'))) and ct.split('[')[0].replace('struct ', '').strip() not in WIDTH and '*' not in ct.split('[')[0] and ct.split('[')[1].split(']')[0].isdigit():
                    # an array of records (struct iovec rbuf[2]): each cell refers to a record of its own
                    n = int(ct.split('[')[1].split(']')[0])
                    elem = ct.split('[')[0].replace('struct ', '').strip()
                    self._tmp += 1
                    name = 'local:%s#%d' % (d['n'], self._tmp)
                    cells = []
                    for _ in range(n):
                        r_ = self.new_record(elem) if elem in self.prog.classes else {'__cls__': elem, '__open__': True}
                        self._keep.append(r_)
                        cells.append(self.ref(r_))
                    self.mem[name] = cells
                    env[d['d']] = P(name, 0)
                elif '[' in ct and 'init' not in d:
                    n = 1
                    for dim in _DIMS.findall(ct):
                        n *= int(dim)           # T a[2][3]: one region of 6 cells, row-major
                    self._tmp += 1
                    name = 'local:%s#%d' % (d['n'], self._tmp)
                    self.mem[name] = ['uninit'] * n
                    env[d['d']] = P(name, 0)
                elif 'init' in d and (d.get('t') or ct).rstrip().endswith('&') and not (d.get('t') or ct).rstrip().endswith('&&'):
                    v = self.ev(f, d['init'], env)
                    if isinstance(v, (S, int)) and not isinstance(v, bool):
                        try:
                            loc = self.lv(f, d['init'], env)
                        except AnalysisBroken:
                            loc = None
                        env[d['d']] = ('lref', loc) if loc is not None and loc[0] in ('dict', 'field', 'mem', 'global') else v
                    else:
                        env[d['d']] = v
                elif 'init' in d:
                    env[d['d']] = wrap(self.ev(f, d['init'], env), ct)
                else:
                    env[d['d']] = None
        elif k == 'IfStmt':
            v = self.truth(f, st['cond'], env)
            if v:
                if st.get('then') is not None:
                    self.run(f, st['then'], env)
            elif st.get('else') is not None:
                self.run(f, st['else'], env)
        elif k in ('ForStmt', 'WhileStmt'):
            if st.get('init') is not None:
                self.run(f, st['init'], env)
            while st.get('cond') is None or self.truth(f, st['cond'], env):
                try:
                    if st.get('body') is not None:
                        self.run(f, st['body'], env)
                except _Break:
                    break
                except _Continue:
                    pass
                if st.get('inc') is not None:
                    self.ev(f, st['inc'], env)
                self.steps += 1
                if self.steps > self.max_steps:
                    raise AnalysisBroken('%s: the replayed loop at %s does not terminate' % (f.short, f.loc(st['i'])))
        elif k == 'CXXForRangeStmt':
            seq = self.ev(f, st['range'], env)
            if isinstance(seq, dict) and seq.get('__map__'):
                items = [self.ref({'__cls__': None, '__open__': True, 'first': k_, 'second': seq[k_]}) for k_ in _keys(seq)]
            elif isinstance(seq, list):
                items = list(seq)
            elif isinstance(seq, S) and not hasattr(seq, 'iter_values'):
                items = [ord(c) for c in seq]          # the characters of a std::string, as operator[] gives them
            elif hasattr(seq, 'iter_values'):
                items = list(seq.iter_values())       # a value type of a harness that knows how to be walked (a JSON array)
            else:
                raise AnalysisBroken('%s: range-for over something the replay does not hold as a sequence (%s)' % (f.short, f.loc(st['i'])))
            for it_ in items:
                env[st['lvd']] = self.ref(it_) if isinstance(it_, dict) else it_
                try:
                    self.run(f, st['body'], env)
                except _Break:
                    break
                except _Continue:
                    pass
                self.steps += 1
        elif k == 'DoStmt':
            while True:
                try:
                    self.run(f, st['body'], env)
                except _Break:
                    break
                except _Continue:
                    pass
                if not self.truth(f, st['cond'], env):
                    break
        elif k == 'SwitchStmt':
            v = self.ev(f, st['cond'], env)
            if not isinstance(v, int):
                raise AnalysisBroken('%s: the switch at %s depends on a value the replay keeps abstract' % (f.short, f.loc(st['i'])))
            items = []
            body = f.s(st['body'])
            for c in (body['ch'] if body['k'] == 'CompoundStmt' else [body['i']]):
                x, labels = f.s(c), []
                while x is not None and x['k'] in ('CaseStmt', 'DefaultStmt'):
                    labels.append(x.get('v') if x['k'] == 'CaseStmt' else 'default')
                    x = f.s(x['ch'][-1]) if x.get('ch') else None
                items.append((labels, x['i'] if x is not None else None))
            start = next((i for i, (ls, _) in enumerate(items) if v in ls), None)
            if start is None:
                start = next((i for i, (ls, _) in enumerate(items) if 'default' in ls), None)
            if start is not None:
                try:
                    for _, sid2 in items[start:]:
                        if sid2 is not None:
                            self.run(f, sid2, env)
                except _Break:
                    pass
        elif k == 'ReturnStmt':
            raise _Return(self.ev(f, st['ch'][0], env) if st.get('ch') else None)
        elif k == 'BreakStmt':
            raise _Break()
        elif k == 'CXXTryStmt':
            try:
                self.run(f, st['try'], env)
            except Throw as ex:
                for h in st.get('handlers', ()):
                    ht = (h.get('t') or '').replace('const ', '').replace('&', '').strip()
                    if ht == '...' or any(ht == t or ht.endswith('::' + t.split('::')[-1]) for t in ex.types):
                        hs = f.s(h['s'])
                        body = hs['ch'][-1] if hs and hs.get('ch') else None
                        if hs is not None and 'd' in hs:
                            env[hs['d']] = 0
                        if body is not None:
                            self.run(f, body, env)
                        break
                else:
                    raise
        elif k == 'ContinueStmt':
            raise _Continue()
        elif k == 'NullStmt':
            pass
        else:
            self.ev(f, sid, env)

    def truth(self, f, e, env):
        v = self.ev(f, e, env)
        if isinstance(v, P):
            return True
        if self.is_callable(v):
            return True             # a non-null pointer to function / a non-empty std::function
        if not isinstance(v, int):
            if self.faults:
                raise _Abort()
            raise AnalysisBroken('%s: the condition at %s depends on a value the replay keeps abstract' % (f.short, f.loc(e)))
        return v != 0

    # ---- expressions -------------------------------------------------------
    def lv(self, f, e, env):
        """('var', decl) | ('mem', P) | ('field', name)"""
        st = f.s(e)
        k = st['k']
        if k in ('ParenExpr',) or (k in q_CASTS and st.get('ck') in ('NoOp', None)):
            return self.lv(f, st['ch'][0], env)
        if k == 'DeclRefExpr':
            if st.get('gl') and st['d'] not in env and st.get('q') in self.globals:
                return ('global', st['q'])
            v = env.get(st.get('d'))
            if isinstance(v, tuple) and len(v) == 2 and v[0] == 'ref':
                return ('mem', v[1])            # a reference parameter bound to a scalar cell of the caller
            if isinstance(v, tuple) and len(v) == 2 and v[0] == 'lref':
                return v[1]                     # a local reference bound to a member / element
            return ('var', st['d'])
        if k == 'MemberExpr' and st.get('mk') == 'static' and st.get('q') in self.globals:
            return ('global', st['q'])
        if k == 'MemberExpr':
            base = f.s(f.strip_casts(st['ch'][0])) if st['ch'] else None
            if base is None or base['k'] == 'CXXThisExpr':
                return ('field', st['n'])
            rec = self.rec_of_expr(f, st['ch'][0], env, st.get('arrow'))
            if rec is not None:
                return ('dict', rec, st['n'])
            if self.faults:
                raise _Abort()
            if st.get('arrow') and self.ev(f, st['ch'][0], env) == 0:
                self.fault(f, st, 'a null pointer is dereferenced (->%s)' % st.get('n'))
                raise _Abort()
        if k == 'ArraySubscriptExpr':
            b, i = self.ev(f, st['ch'][0], env), self.ev(f, st['ch'][1], env)
            if isinstance(i, P):
                b, i = i, b
            if isinstance(b, P) and isinstance(i, int):
                sub = _DIMS.findall(st.get('ct') or st.get('t') or '')
                if sub:
                    stride = 1
                    for dim in sub:
                        stride *= int(dim)
                    return ('val', P(b.r, b.o + i * stride))        # a[i] of T a[..][n][m]: the sub-array, i.e. a pointer to its first cell
                return ('mem', P(b.r, b.o + i))
            if isinstance(b, P) and isinstance(i, D) and b.r in self.mem:
                return ('dep', i)       # a table looked up at an abstract index: the value depends on what the index depends on
        if k == 'UnaryOperator' and st.get('op') == '*':
            p = self.ev(f, st['ch'][0], env)
            if isinstance(p, P):
                return ('mem', p)
        if (k == 'UnaryOperator' and st.get('op') in ('++', '--') and not st.get('post')) or (k in ('BinaryOperator', 'CompoundAssignOperator') and st.get('op', '').endswith('=') and
                                                                                               st['op'] not in ('==', '!=', '<=', '>=')):
            # in C++ these are lvalues: carry the operation out, then designate the operand
            self.ev(f, e, env)
            return self.lv(f, st['ch'][0], env)
        if k == 'CXXOperatorCallExpr' and st.get('op') == '[]' and 'obj' in st and st.get('args'):
            m = self.ev(f, st['obj'], env)
            if isinstance(m, dict) and m.get('__map__'):
                key = self.ev(f, st['args'][0], env)
                key = self.cstr(key) if self.cstr(key) is not None else key
                if not isinstance(key, (int, str)):
                    raise AnalysisBroken('%s: map subscript with a key the replay keeps abstract (%s)' % (f.short, f.loc(e)))
                m.setdefault(key, 0)
                return ('dict', m, key)
        if k in q.CALL_KINDS or k in ('ConditionalOperator', 'MaterializeTemporaryExpr', 'CXXBindTemporaryExpr', 'ExprWithCleanups'):
            v = self.ev(f, e, env)          # a call / conditional yielding a reference: designate the value it denotes
            if self.record_of(v) is not None:
                return ('mem', v)
            return ('val', v)
        raise AnalysisBroken('%s: unsupported lvalue %s at %s' % (f.short, k, f.loc(e)))

    def rec_of_expr(self, f, e, env, arrow=False):
        """the record an expression designates (an lvalue of class type, or with arrow a pointer to one); None when the replay holds none"""
        x = f.s(f.strip_casts(e))
        if x is None:
            return None
        if arrow:
            v_ = self.ev(f, e, env)
            if isinstance(v_, P) and v_.r in self.freed and isinstance(self.mem.get(v_.r), dict):
                self.fault(f, x, 'a member of an object is accessed after the object was deleted / returned to its pool (invalid memory access)')
                raise _Abort()
            return self.record_of(v_)
        if x['k'] == 'CXXThisExpr':
            return self.this
        if x['k'] == 'MemberExpr' and x.get('n') == '':
            # the anonymous struct/union member: its fields live in the enclosing record
            b = f.s(f.strip_casts(x['ch'][0])) if x.get('ch') else None
            if b is None or b['k'] == 'CXXThisExpr':
                return self.this
            return self.rec_of_expr(f, x['ch'][0], env, x.get('arrow'))
        if x['k'] == 'UnaryOperator' and x.get('op') == '*':
            return self.record_of(self.ev(f, x['ch'][0], env))
        try:
            loc = self.lv(f, x['i'], env)
        except AnalysisBroken:
            return self.record_of(self.ev(f, e, env))
        if loc[0] == 'var':
            return self.record_of(env.get(loc[1]))
        if loc[0] == 'field':
            v = self.this.get(self.canon(self.this, loc[1]))
            return v if isinstance(v, dict) else self.record_of(v)
        if loc[0] == 'dict':
            v = loc[1].get(self.canon(loc[1], loc[2]))
            return v if isinstance(v, dict) else self.record_of(v)
        if loc[0] == 'mem':
            return self.record_of(self.load(f, x, loc[1]))
        return None

    def read(self, f, st, loc, env):
        if loc[0] == 'var':
            if loc[1] not in env:
                raise AnalysisBroken('%s: read of a variable the replay does not know at %s' % (f.short, f.loc(st['i'])))
            return env[loc[1]]
        if loc[0] == 'field':
            if ('this.' + loc[1]) in self.mem:
                return P('this.' + loc[1], 0)
            v = self.this.get(self.canon(self.this, loc[1]))
            return self.ref(v) if (isinstance(v, dict) and v is not self.this and '__map__' not in v) else v
        if loc[0] in ('dep', 'val'):
            return loc[1]
        if loc[0] == 'global':
            return self.globals[loc[1]]
        if loc[0] == 'dict':
            key = self.canon(loc[1], loc[2])
            if key not in loc[1]:
                if loc[1].get('__open__'):
                    return 'uninit'         # a record of a class the replay has no definition of (system header): its fields are unknown values
                raise AnalysisBroken('%s: field %s is not part of the replayed record (%s)' % (f.short, loc[2], f.loc(st['i'])))
            v = loc[1][key]
            return self.ref(v) if (isinstance(v, dict) and '__map__' not in v) else v
        return self.load(f, st, loc[1])

    def write(self, f, st, loc, v, env):
        if loc[0] == 'var':
            env[loc[1]] = v
        elif loc[0] == 'field':
            self.this[self.canon(self.this, loc[1])] = v
        elif loc[0] == 'global':
            self.globals[loc[1]] = v
        elif loc[0] == 'val':
            pass
        elif loc[0] == 'dep':
            raise AnalysisBroken('%s: store at an abstract index (%s)' % (f.short, f.loc(st['i'])))
        elif loc[0] == 'dict':
            loc[1][self.canon(loc[1], loc[2])] = v
        else:
            self.store(f, st, loc[1], v)

    def ev(self, f, e, env):
        st = f.s(e)
        if st is None:
            return None
        k = st['k']
        if 'cv' in st and k != 'DeclRefExpr':
            return st['cv']
        if k in ('ParenExpr', 'ExprWithCleanups', 'ConstantExpr', 'CXXBindTemporaryExpr', 'MaterializeTemporaryExpr'):
            return self.ev(f, st['ch'][0], env)
        if k in q_CASTS:
            ck = st.get('ck')
            if ck == 'ToVoid':
                # (void)expr: the value is dropped, the side effects are not (FD_SET and friends expand to a cast to void of an assignment)
                for x in f.walk(st['ch'][0]):
                    sx = f.stmts[x]
                    if sx['k'] == 'CompoundAssignOperator' or sx['k'] in q.CALL_KINDS or (sx['k'] == 'BinaryOperator' and sx.get('op') == '=') or \
                            (sx['k'] == 'UnaryOperator' and sx.get('op') in ('++', '--')):
                        self.ev(f, st['ch'][0], env)
                        break
                return None
            if ck in ('LValueToRValue',):
                c0 = f.s(st['ch'][0])
                if c0 is not None and c0['k'] == 'DeclRefExpr' and c0.get('n') == 'npos' and 'basic_string' in (c0.get('q') or '') and c0.get('d') not in env:
                    return NPOS         # std::string::npos
                return self.read(f, st, self.lv(f, st['ch'][0], env), env)
            v = self.ev(f, st['ch'][0], env)
            if ck in ('IntegralToBoolean', 'PointerToBoolean'):
                if isinstance(v, P) or self.is_callable(v):
                    return 1
                return int(v != 0) if isinstance(v, int) else None
            if ck in ('IntegralCast',) or (ck in ('NoOp', None) and isinstance(v, int) and '*' not in (st.get('ct') or st.get('t') or '')):
                return wrap(v, st.get('ct') or st.get('t'))
            return v
        if k == 'DeclRefExpr':
            if st.get('dk') in ('Var', 'ParmVar'):
                if st['d'] in env:
                    v = env[st['d']]
                    if isinstance(v, tuple) and len(v) == 2 and v[0] == 'ref':
                        return self.load(f, st, v[1])
                    if isinstance(v, tuple) and len(v) == 2 and v[0] == 'lref':
                        return self.read(f, st, v[1], env)
                    return v
                if 'cv' in st:
                    return st['cv']         # a constant the compiler has folded (constexpr / const integral global)
                if ('g:' + st['n']) in self.mem:
                    return P('g:' + st['n'], 0)
                if st.get('n') == 'npos' and 'basic_string' in (st.get('q') or ''):
                    return NPOS         # std::string::npos
                if (st.get('q') or '').startswith('std::placeholders::_'):
                    return ('ph', int(st['q'].rsplit('_', 1)[1]))
                if st.get('gl') and st.get('q') in self.globals:
                    return self.globals[st['q']]
                raise AnalysisBroken('%s: %s at %s is not known to the replay' % (f.short, st.get('n'), f.loc(e)))
            if st.get('dk') == 'CXXMethod':
                return ('method', st.get('usr'), st.get('n'))
            if st.get('dk') == 'EnumConstant' and 'cv' in st:
                return st['cv']
            if st.get('dk') == 'Function' and st.get('usr'):
                return ('func', st['usr'], st.get('n'))         # a function designator (decays to a pointer to function)
            return None
        if k == 'LambdaExpr':
            lam = self.prog.lambda_func(f, st)
            if lam is None:
                raise AnalysisBroken('%s: the lambda at %s has no body the replay can follow' % (f.short, f.loc(e)))
            caps, this = {}, None
            for c in st.get('caps', ()):
                if c.get('this'):
                    this = self.this
                elif c.get('d') is not None and c.get('ref') and c['d'] in env and self.record_of(env[c['d']]) is None and not isinstance(env[c['d']], (list, dict)):
                    # captured by reference: the variable lives in a cell both the enclosing function and the closure refer to
                    cur = env[c['d']]
                    if not (isinstance(cur, tuple) and len(cur) == 2 and cur[0] in ('ref', 'lref')):
                        self._tmp += 1
                        nm_ = 'cell#%d' % self._tmp
                        self.mem[nm_] = [cur]
                        env[c['d']] = ('ref', P(nm_, 0))
                    caps[c['d']] = env[c['d']]
                elif c.get('d') is not None:
                    v = self.ev(f, c['init'], env) if c.get('init') is not None else env.get(c['d'])
                    r_ = self.record_of(v)
                    if r_ is not None and not c.get('ref') and f.s(f.strip_casts(c['init']))['k'] not in ('CXXConstructExpr',) and '*' not in (c.get('ct') or ''):
                        cp = dict(r_)            # captured by copy
                        self._keep.append(cp)
                        v = self.ref(cp)
                    caps[c['d']] = v
            return ('lambda', lam, caps, this)
        if k == 'MemberExpr':
            return self.read(f, st, self.lv(f, e, env), env)
        if k == 'ArraySubscriptExpr':
            b, i = self.ev(f, st['ch'][0], env), self.ev(f, st['ch'][1], env)
            if isinstance(b, P) and isinstance(i, D) and b.r in self.mem:
                return i        # a table looked up at an abstract index: the result depends on what the index depends on
            return self.read(f, st, self.lv(f, e, env), env)
        if k == 'CXXThisExpr':
            return self.ref(self.this) if isinstance(self.this, dict) and '__cls__' in self.this else P('this', 0)
        if k == 'ConditionalOperator':
            return self.ev(f, st['ch'][1] if self.truth(f, st['ch'][0], env) else st['ch'][2], env)
        if k == 'UnaryOperator':
            op = st.get('op')
            if op in ('++', '--'):
                loc = self.lv(f, st['ch'][0], env)
                old = self.read(f, st, loc, env)
                d = 1 if op == '++' else -1
                new = P(old.r, old.o + d) if isinstance(old, P) else (wrap(old + d, st.get('ct') or st.get('t')) if isinstance(old, int) else None)
                self.write(f, st, loc, new, env)
                return old if st.get('post') else new
            if op == '&':
                sub = f.s(f.strip_casts(st['ch'][0]))
                if sub is not None and sub['k'] == 'ParenExpr' and sub.get('ch'):
                    sub = f.s(f.strip_casts(sub['ch'][0]))
                if sub is not None and sub['k'] == 'MemberExpr' and sub.get('arrow') and sub.get('ch') and self.ev(f, sub['ch'][0], env) == 0:
                    return 0            # the address of a member of *nullptr: never dereferenced by well-behaved code; keep it null
                if sub is not None and sub['k'] == 'DeclRefExpr' and sub.get('dk') == 'CXXMethod':
                    return ('method', sub.get('usr'), sub.get('n'))
                loc = self.lv(f, st['ch'][0], env)
                sct = ((sub or {}).get('ct') or (sub or {}).get('t') or '').replace('struct ', '').replace('const ', '').strip()
                if loc[0] in ('dict', 'field') and sct and sct not in WIDTH and '*' not in sct and '&' not in sct and '[' not in sct and sct not in self.prog.classes:
                    # the address of a member that is a structure of a library (ucontext_t, stack_t, ...): an open record made on first use
                    holder = loc[1] if loc[0] == 'dict' else self.this
                    key = loc[2] if loc[0] == 'dict' else self.canon(self.this, loc[1])
                    if not isinstance(holder.get(key), dict) and holder.get(key) in (None, 'uninit', 0):
                        holder[key] = {'__cls__': sct, '__open__': True}
                        self._keep.append(holder[key])
                if loc[0] == 'mem':
                    return loc[1]
                if loc[0] == 'global' and isinstance(self.globals.get(loc[1]), P):
                    return self.globals[loc[1]]
                if loc[0] == 'field' and isinstance(self.this.get(self.canon(self.this, loc[1])), dict):
                    return self.ref(self.this[self.canon(self.this, loc[1])])
                if loc[0] == 'dict' and isinstance(loc[1].get(loc[2]), dict):
                    name = 'rec@%d' % id(loc[1][loc[2]])
                    self.mem[name] = loc[1][loc[2]]
                    return P(name, 0)
                if loc[0] == 'var' and isinstance(env.get(loc[1]), P):
                    return env[loc[1]]
                if loc[0] == 'var':
                    # the address of a scalar local: from now on the variable lives in a cell of its own, and the name is a reference to it
                    cur = env.get(loc[1])
                    if isinstance(cur, (D,)) or (st.get('ct') or st.get('t') or '').replace('const ', '').strip() in ('void *', 'const void *'):
                        raise AnalysisBroken('%s: the address of a local is taken for access to its bytes at %s (not modelled)' % (f.short, f.loc(e)))
                    self._tmp += 1
                    name = 'cell#%d' % self._tmp
                    self.mem[name] = [cur]
                    env[loc[1]] = ('ref', P(name, 0))
                    return P(name, 0)
                raise AnalysisBroken('%s: unsupported address-of at %s (%s)' % (f.short, f.loc(e), loc[0]))
            if op == '*':
                return self.read(f, st, self.lv(f, e, env), env)
            if op == '!':
                return int(not self.truth(f, st['ch'][0], env))
            v = self.ev(f, st['ch'][0], env)
            if isinstance(v, D):
                return v
            if not isinstance(v, int):
                return None
            return wrap({'-': -v, '+': v, '~': ~v}[op], st.get('ct') or st.get('t'))
        if k in ('BinaryOperator', 'CompoundAssignOperator'):
            op = st.get('op')
            if op == ',':
                self.ev(f, st['ch'][0], env)
                return self.ev(f, st['ch'][1], env)
            if op == '&&':
                return int(self.truth(f, st['ch'][0], env) and self.truth(f, st['ch'][1], env))
            if op == '||':
                return int(self.truth(f, st['ch'][0], env) or self.truth(f, st['ch'][1], env))
            if op == '=':
                loc = self.lv(f, st['ch'][0], env)
                v = wrap(self.ev(f, st['ch'][1], env), st.get('ct') or st.get('t'))
                self.write(f, st, loc, v, env)
                return v
            if k == 'CompoundAssignOperator':
                loc = self.lv(f, st['ch'][0], env)
                a = self.read(f, st, loc, env)
                b = self.ev(f, st['ch'][1], env)
                # the operation is carried out in the computation type, then converted to the left type
                v = wrap(wrap(self.arith(f, st, op[:-1], a, b), st.get('comptype') or st.get('ct') or st.get('t')), st.get('ct') or st.get('t'))
                self.write(f, st, loc, v, env)
                return v
            a, b = self.ev(f, st['ch'][0], env), self.ev(f, st['ch'][1], env)
            return wrap(self.arith(f, st, op, a, b), st.get('ct') or st.get('t'))
        if k in ('CXXNullPtrLiteralExpr', 'GNUNullExpr'):
            return 0
        if k == 'ImplicitValueInitExpr':
            return 0
        if k == 'PredefinedExpr':
            return None
        if k in ('CXXDefaultArgExpr', 'CXXDefaultInitExpr', 'CXXScalarValueInitExpr'):
            if k == 'CXXScalarValueInitExpr':
                return 0
            # the default expression itself is not part of the caller's syntax tree; for class types the library's defaults are value-initialised temporaries
            # (Reason(), Trace()): build one; anything else stays unknown
            ct = (st.get('ct') or st.get('t') or '').replace('const ', '').strip()
            if ct in self.prog.classes:
                rec = self.new_record(ct)
                self._keep.append(rec)
                ctor0 = [g for g in self.prog.by_name.get(ct + '::' + ct.split('::')[-1], ()) if g.d.get('ctor') and not g.params and g.body is not None]
                if ctor0:
                    self.run_ctor(f, st, rec, ct, ctor0[0], [])
                return self.ref(rec)
            if ct.startswith(('std::vector<', 'std::deque<', 'std::queue<')):
                return []
            return None
        if k == 'StringLiteral':
            name = 'str@%d:%d' % (st['l'], st['i'])
            if name not in self.mem:
                import re as _re
                raw = _re.sub(r'\\x([0-9a-f]{2})', lambda m: chr(int(m.group(1), 16)), st.get('v') or '')    # the extractor writes bytes outside printable ASCII (and the backslash) as \xNN
                self.mem[name] = [ord(c) & 0xff for c in raw] + [0]
            return P(name, 0)
        if k == 'InitListExpr':
            ct = st.get('ct') or st.get('t') or ''
            cls = ct if ct in self.prog.classes else None
            if cls is None and 'unnamed struct' in ct:
                outer = ct.split('::(unnamed')[0]
                cls = outer + '::(anonymous)' if (outer + '::(anonymous)') in self.prog.classes else None
            if cls is not None:
                rec = self.new_record(cls)
                self._keep.append(rec)
                names = [fd['n'] for fd in self.prog.classes[cls]['fields']]
                for nme, c in zip(names, st.get('ch', [])):
                    v = self.ev(f, c, env)
                    sub = self.record_of(v)
                    rec[self.canon(rec, nme)] = sub if (sub is not None and f.s(c)['k'] == 'InitListExpr') else v
                return self.ref(rec)
            if '[' in ct:
                vals = [self.ev(f, c, env) for c in st.get('ch', [])]
                n = int(ct.split('[')[1].split(']')[0]) if ct.split('[')[1].split(']')[0].isdigit() else len(vals)
                self._tmp += 1
                name = 'init#%d' % self._tmp
                self.mem[name] = (vals + [0] * n)[:n]
                return P(name, 0)
            if len(st.get('ch', [])) == 1:
                return self.ev(f, st['ch'][0], env)
            raise AnalysisBroken('%s: initialiser list of a type the replay does not know (%s)' % (f.short, f.loc(e)))
        if k == 'CXXNewExpr':
            self.heap += 1
            if st.get('arr'):
                n = self.ev(f, st['ch'][0], env) if st.get('ch') else None
                if not isinstance(n, int):
                    raise AnalysisBroken('%s: new[] with a size the replay keeps abstract (%s)' % (f.short, f.loc(e)))
                if n > (1 << 32):
                    self.fault(f, st, 'new[] of %d elements (the size has wrapped)' % n)
                    raise _Abort()
                name = 'heap#%d[%d]@%s' % (self.heap, n, st['l'])
                self.mem[name] = ['uninit'] * n
                return P(name, 0)
            cls = (st.get('cat') or st.get('at') or '')
            hk = next((k_ for k_ in self.ctor_hooks if cls.startswith(k_)), None)
            if hk is not None and st.get('ch'):
                v = self.ev(f, st['ch'][-1], env)
                if self.record_of(v) is not None:
                    return v if isinstance(v, P) else self.ref(v)
            if cls in self.prog.classes:
                if st.get('ch'):
                    v = self.ev(f, st['ch'][-1], env)       # new T{...} / new T(args): the initialiser builds the object
                    if self.record_of(v) is not None:
                        return v
                rec = self.new_record(cls)
                self._keep.append(rec)
                return self.ref(rec)
            raise AnalysisBroken('%s: new of a type the replay does not know (%s)' % (f.short, f.loc(e)))
        if k == 'CXXDeleteExpr':
            v = self.ev(f, st['ch'][0], env)
            if v == 0:
                return None
            if not isinstance(v, P) or v.r not in self.mem:
                raise AnalysisBroken('%s: delete of a pointer the replay does not hold (%s)' % (f.short, f.loc(e)))
            for dh in self.delete_hooks:
                if isinstance(self.mem.get(v.r), dict):
                    dh(self, f, st, self.mem[v.r])
            if v.r in self.freed:
                self.fault(f, st, '%s is deleted twice' % v.r)
            elif v.o != 0:
                self.fault(f, st, 'delete of a pointer %d byte(s) into %s' % (v.o, v.r))
            self.freed.add(v.r)
            return None
        if k == 'CXXThrowExpr':
            sub = f.s(st['ch'][0]) if st.get('ch') else None
            while sub is not None and sub['k'] in ('ExprWithCleanups', 'CXXBindTemporaryExpr', 'MaterializeTemporaryExpr', 'CXXFunctionalCastExpr', 'ImplicitCastExpr') and sub.get('ch'):
                sub = f.s(sub['ch'][0])
            t = ((sub or {}).get('ct') or (sub or {}).get('t') or (sub or {}).get('cls') or 'exception').replace('const ', '').replace('class ', '').replace('struct ', '').strip()
            std_up = {'std::out_of_range': ['std::logic_error'], 'std::invalid_argument': ['std::logic_error'], 'std::length_error': ['std::logic_error'], 'std::domain_error': ['std::logic_error'],
                      'std::logic_error': ['std::exception'], 'std::range_error': ['std::runtime_error'], 'std::overflow_error': ['std::runtime_error'], 'std::runtime_error': ['std::exception']}
            types, work = [], [t]
            while work:
                c = work.pop(0)
                if c in types:
                    continue
                types.append(c)
                work.extend(self.prog.classes.get(c, {}).get('bases', ()))
                work.extend(std_up.get(c, ()))
            raise Throw(types, 'thrown at %s' % f.loc(e))
        if k in ('CXXConstructExpr', 'CXXTemporaryObjectExpr'):
            return self.construct(f, st, env)
        if k in q.CALL_KINDS:
            return self._call(f, st, env)
        raise AnalysisBroken('%s: unsupported expression %s at %s' % (f.short, k, f.loc(e)))

    def arith(self, f, st, op, a, b):
        if isinstance(a, P) or isinstance(b, P):
            if op == '+':
                p, n = (a, b) if isinstance(a, P) else (b, a)
                return P(p.r, p.o + n) if isinstance(n, int) else None
            if op == '-' and isinstance(a, P) and isinstance(b, int):
                return P(a.r, a.o - b)
            if op == '-' and isinstance(a, P) and isinstance(b, P) and a.r == b.r:
                return a.o - b.o
            if op in ('==', '!=') and (a is None or b is None or a == 0 or b == 0):
                return int(op == '!=')
            if op in ('==', '!=') and isinstance(a, P) and isinstance(b, P) and a.r != b.r:
                return int(op == '!=')
            if op in ('==', '!=', '<', '<=', '>', '>=') and isinstance(a, P) and isinstance(b, P) and a.r == b.r:
                return int({'==': a.o == b.o, '!=': a.o != b.o, '<': a.o < b.o, '<=': a.o <= b.o, '>': a.o > b.o, '>=': a.o >= b.o}[op])
            return None
        if isinstance(a, D) or isinstance(b, D):
            if (isinstance(a, (D, int)) and isinstance(b, (D, int))):
                return D((a if isinstance(a, D) else frozenset()) | (b if isinstance(b, D) else frozenset()))
            return None
        if op in ('==', '!=') and (self.is_callable(a) or self.is_callable(b)) and (isinstance(a, int) or self.is_callable(a)) and (isinstance(b, int) or self.is_callable(b)):
            # a function pointer compared with another one or with a constant (SIG_DFL, SIG_IGN, SIG_ERR, nullptr): equal only to itself
            same = (a is b) or (not isinstance(a, int) and not isinstance(b, int) and a == b)
            return int(same == (op == '=='))
        if not isinstance(a, int) or not isinstance(b, int):
            return None
        if op in ('/', '%') and b == 0:
            self.fault(f, st, 'division by zero')
            return None
        if op in ('<<', '>>') and not (0 <= b < 64):
            self.fault(f, st, 'shift by %d' % b)
            return None
        return {'+': lambda: a + b, '-': lambda: a - b, '*': lambda: a * b, '/': lambda: abs(a) // abs(b) * (1 if (a >= 0) == (b >= 0) else -1),
                '%': lambda: abs(a) % abs(b) * (1 if a >= 0 else -1), '<<': lambda: a << b, '>>': lambda: a >> b, '&': lambda: a & b, '|': lambda: a | b, '^': lambda: a ^ b,
                '<': lambda: int(a < b), '<=': lambda: int(a <= b), '>': lambda: int(a > b), '>=': lambda: int(a >= b), '==': lambda: int(a == b), '!=': lambda: int(a != b)}[op]()


q_CASTS = ('ImplicitCastExpr', 'CStyleCastExpr', 'CXXStaticCastExpr', 'CXXReinterpretCastExpr', 'CXXConstCastExpr', 'CXXFunctionalCastExpr')


# ---- ready-made hooks ------------------------------------------------------------------------------------------

def h_memcpy(it, f, st, args):
    dst, src, n = args[0], args[1], args[2]
    s_ = it.span(f, st, src, n, 'memcpy source')
    d_ = it.span(f, st, dst, n, 'memcpy destination')
    if s_ is not None and d_ is not None:
        vals = s_[0][s_[1]:s_[1] + n]
        d_[0][d_[1]:d_[1] + n] = vals
    return dst


def h_memcmp(it, f, st, args):
    a, b, n = args[0], args[1], args[2]
    sa, sb = it.span(f, st, a, n, 'memcmp first operand'), it.span(f, st, b, n, 'memcmp second operand')
    if sa is None or sb is None:
        return None
    for i in range(n):
        x, y = sa[0][sa[1] + i], sb[0][sb[1] + i]
        if not isinstance(x, int) or not isinstance(y, int):
            if x == 'uninit' or y == 'uninit':
                it.fault(f, st, 'memcmp reads a byte that was never written')
                return None
            raise AnalysisBroken('%s: memcmp over values the replay keeps abstract (%s)' % (f.short, f.loc(st['i'])))
        if (x & 0xff) != (y & 0xff):
            return -1 if (x & 0xff) < (y & 0xff) else 1
    return 0


def h_memset(it, f, st, args):
    dst, v, n = args[0], args[1], args[2]
    d_ = it.span(f, st, dst, n, 'memset')
    if d_ is not None:
        d_[0][d_[1]:d_[1] + n] = [v & 0xff if isinstance(v, int) else v] * n
    return dst


# ---- std::vector of records, numeric_limits ---------------------------------------------------------------------

def _vec(it, f, st):
    v = it.cur_obj
    if isinstance(v, dict) and v.get('__map__'):
        return v
    if isinstance(v, P) and it.cstr(v) is not None:
        return [ord(c) for c in it.cstr(v)]         # a std::string read as a sequence of characters
    if not isinstance(v, list):
        raise AnalysisBroken('%s: container operation on something the replay does not hold as a sequence (%s)' % (f.short, f.loc(st['i'])))
    return v


def _elem(it, f, st, v, i, what, throws):
    if not isinstance(i, int):
        raise AnalysisBroken('%s: %s with an index the replay keeps abstract (%s)' % (f.short, what, f.loc(st['i'])))
    if not (0 <= i < len(v)):
        it.fault(f, st, '%s(%d) on a sequence of %d element(s): %s' % (what, i, len(v), 'std::out_of_range is thrown' if throws else 'undefined behaviour (stale or foreign memory is read)'))
        return None
    return it.ref(v[i]) if isinstance(v[i], dict) else v[i]


def _push(it, f, st, a):
    v = _vec(it, f, st)
    r = it.record_of(a[0]) if a else None
    elem = (st.get('cls') or '').split('<', 1)[-1].split(',')[0].strip()
    by_pointer = elem.endswith('*') and not elem.startswith('std::pair')
    if len(a) > 1:
        v.append(tuple(a))          # emplace_back(x, y, ...): an element built in place, kept opaque
    else:
        v.append(dict(r) if (r is not None and not by_pointer) else (a[0] if a else None))


def _numeric_limit(which):
    def h(it, f, st, a):
        if len(a) == 2:
            if all(isinstance(x, int) for x in a):
                return max(a) if which == 'max' else min(a)     # std::max / std::min
            return None
        w = WIDTH.get((st.get('t') or '').replace('const ', '').strip()) or WIDTH.get((st.get('ct') or '').strip())
        if w is None:
            raise AnalysisBroken('%s: numeric_limits of a type the replay does not know (%s)' % (f.short, f.loc(st['i'])))
        if w > 0:
            return (1 << w) - 1 if which == 'max' else 0
        return (1 << (-w - 1)) - 1 if which == 'max' else -(1 << (-w - 1))
    return h


def _mlen(v):
    return len(v) - (1 if isinstance(v, dict) and '__map__' in v else 0)


def _clear(it, f, st, a):
    v = _vec(it, f, st)
    if isinstance(v, dict):
        for k_ in [k_ for k_ in v if k_ != '__map__']:
            del v[k_]
    else:
        v.clear()


def _index(it, f, st, a, what, throws):
    v = _vec(it, f, st)
    if isinstance(v, dict):
        key = it.cstr(a[-1]) if it.cstr(a[-1]) is not None else a[-1]
        if throws and key not in v:
            it.fault(f, st, 'map::at() with a key that is not present: std::out_of_range is thrown')
            return None
        return v.setdefault(key, 0)
    return _elem(it, f, st, v, a[-1], what, throws)


VECTOR_HOOKS = {
    'at': lambda it, f, st, a: _index(it, f, st, a, 'at', True),
    'operator[]': lambda it, f, st, a: _index(it, f, st, a, 'operator[]', False),
    'size': lambda it, f, st, a: _mlen(_vec(it, f, st)),
    'empty': lambda it, f, st, a: int(_mlen(_vec(it, f, st)) == 0),
    'clear': _clear,
    'reserve': lambda it, f, st, a: None,
    'shrink_to_fit': lambda it, f, st, a: None,
    'push_back': _push,
    'emplace_back': _push,
    'max': _numeric_limit('max'),
    'min': _numeric_limit('min'),
}


# ---- iterators over sequences and maps ---------------------------------------------------------------------------------------------

def _keys(m):
    """the keys of a map in the order std::map walks them (by key, when the keys are all numbers or all text; insertion order otherwise, one of the orders an unordered
    container may have)"""
    ks = [k_ for k_ in m if k_ != '__map__']
    if all(isinstance(k_, int) for k_ in ks) or all(isinstance(k_, str) for k_ in ks):
        return sorted(ks)
    return ks


def _find(it, f, st, a):
    if 'obj' not in st and len(a) == 3 and isinstance(a[0], It) and isinstance(a[1], It) and isinstance(a[0].c, list):
        # std::find(first, last, value)
        for i in range(a[0].k, a[1].k):
            if a[0].c[i] == a[2]:
                return It(a[0].c, i)
        return It(a[0].c, a[1].k)
    m = _vec(it, f, st)
    if isinstance(m, dict):
        key = it.cstr(a[0]) if it.cstr(a[0]) is not None else a[0]
        return It(m, key if key in m else It.END)
    for i, x in enumerate(m):
        if x == a[0]:
            return It(m, i)
    return It(m, len(m))


def _begin(it, f, st, a):
    v = _vec(it, f, st)
    if isinstance(v, dict):
        ks = _keys(v)
        return It(v, ks[0] if ks else It.END)
    return It(v, 0)


def _end(it, f, st, a):
    v = _vec(it, f, st)
    return It(v, It.END if isinstance(v, dict) else len(v))


def _deref(it, f, st, a):
    x = it.cur_obj if isinstance(it.cur_obj, It) else (a[0] if a and isinstance(a[0], It) else None)
    if x is None:
        raise AnalysisBroken('%s: dereference of something the replay does not hold as an iterator (%s)' % (f.short, f.loc(st['i'])))
    if isinstance(x.c, dict):
        if x.k is It.END or x.k not in x.c:
            it.fault(f, st, 'the end iterator of a map is dereferenced')
            raise _Abort()
        pair = {'__cls__': None, '__open__': True, 'first': x.k, 'second': x.c[x.k]}
        it._keep.append(pair)
        return it.ref(pair)
    if not (0 <= x.k < len(x.c)):
        it.fault(f, st, 'an iterator at position %s of a sequence of %d element(s) is dereferenced' % (x.k, len(x.c)))
        raise _Abort()
    e = x.c[x.k]
    return it.ref(e) if isinstance(e, dict) else e


def _find_if(it, f, st, a):
    b, e, pred = a[0], a[1], a[2]
    if not (isinstance(b, It) and isinstance(e, It) and isinstance(b.c, list)):
        raise AnalysisBroken('%s: std::find_if over something the replay does not hold as a sequence (%s)' % (f.short, f.loc(st['i'])))
    for i in range(b.k, e.k):
        x = b.c[i]
        if it.invoke(f, st, pred, [it.ref(x) if isinstance(x, dict) else x]):
            return It(b.c, i)
    return It(b.c, e.k)


def _erase(it, f, st, a):
    v = _vec(it, f, st)
    x = a[0]
    if isinstance(v, dict):
        key = x.k if isinstance(x, It) else (it.cstr(x) if it.cstr(x) is not None else x)
        if not isinstance(x, It):
            return int(v.pop(key, None) is not None)
        ks = _keys(v)
        nxt = ks[ks.index(key) + 1] if key in ks and ks.index(key) + 1 < len(ks) else It.END         # erase(iterator) answers the element that followed
        v.pop(key, None)
        return It(v, nxt)
    if isinstance(x, It):
        if len(a) == 2 and isinstance(a[1], It):
            del v[x.k:a[1].k]
        elif 0 <= x.k < len(v):
            del v[x.k]
        return It(v, x.k)
    raise AnalysisBroken('%s: erase with an argument the replay does not understand (%s)' % (f.short, f.loc(st['i'])))


def _emplace(it, f, st, a):
    m = _vec(it, f, st)
    if not isinstance(m, dict):
        m.append(tuple(a) if len(a) > 1 else a[0])
        return None
    key = it.cstr(a[0]) if it.cstr(a[0]) is not None else a[0]
    fresh = key not in m
    if fresh:
        m[key] = a[1] if len(a) > 1 else 1
    pair = {'__cls__': None, '__open__': True, 'first': It(m, key), 'second': int(fresh)}
    it._keep.append(pair)
    return it.ref(pair)


def _rbegin(it, f, st, a):
    v = _vec(it, f, st)
    if isinstance(v, dict):
        raise AnalysisBroken('%s: reverse iteration over a map is not modelled (%s)' % (f.short, f.loc(st['i'])))
    return It(v, len(v) - 1, True)


def _rend(it, f, st, a):
    v = _vec(it, f, st)
    return It(v, -1, True)


VECTOR_HOOKS.update({'rbegin': _rbegin, 'rend': _rend, 'crbegin': _rbegin, 'crend': _rend, 'emplace': _emplace, 'find': _find, 'begin': _begin, 'end': _end, 'cbegin': _begin, 'cend': _end, 'operator->': _deref, 'operator*': _deref, 'find_if': _find_if, 'erase': _erase,
                     'count': lambda it, f, st, a: int((it.cstr(a[0]) if it.cstr(a[0]) is not None else a[0]) in _vec(it, f, st)),
                     'back': lambda it, f, st, a: _elem(it, f, st, _vec(it, f, st), len(_vec(it, f, st)) - 1, 'back', False),
                     'front': lambda it, f, st, a: _elem(it, f, st, _vec(it, f, st), 0, 'front', False),
                     'pop_back': lambda it, f, st, a: _vec(it, f, st).pop() if _vec(it, f, st) else it.fault(f, st, 'pop_back on an empty sequence'),
                     })


# ---- std::ostringstream as a text accumulator -----------------------------------------------------------------------------------------

def h_stream_out(it, f, st, a):
    """operator<< on a string stream (member or free form): append the text of the value"""
    rec = it.record_of(it.cur_obj)
    val_id = None
    if rec is not None and '__text__' in rec:
        val = a[-1] if a else None
        val_id = st.get('args', [None])[-1]
    else:
        rec = it.record_of(a[0]) if a else None
        val = a[-1] if len(a) > 1 else None
        val_id = st.get('args', [None, None])[-1]
    if rec is None or '__text__' not in rec:
        return it.cur_obj
    t = it.to_text(val)
    if t is None and isinstance(val, int):
        vt = (f.s(val_id) or {}).get('t', '') if val_id is not None else ''
        t = chr(val & 0xff) if 'char' in vt else str(val)
    if t is None:
        raise AnalysisBroken('%s: a value the replay keeps abstract is written to a string stream (%s)' % (f.short, f.loc(st['i'])))
    rec['__text__'] += t
    return it.ref(rec)


def h_stream_str(it, f, st, a):
    rec = it.record_of(it.cur_obj)
    if rec is None or '__text__' not in rec:
        raise AnalysisBroken('%s: str() on something the replay does not hold as a string stream (%s)' % (f.short, f.loc(st['i'])))
    return S(rec['__text__'])


STREAM_HOOKS = {'operator<<': h_stream_out, 'str': h_stream_str}


def _bound(upper):
    def h(it, f, st, a):
        """std::lower_bound / upper_bound(first, last, value) over a sequence of numbers"""
        if not ('obj' not in st and len(a) >= 3 and isinstance(a[0], It) and isinstance(a[1], It) and isinstance(a[0].c, list)):
            raise AnalysisBroken('%s: binary search over something the replay does not hold as a sequence (%s)' % (f.short, f.loc(st['i'])))
        v = a[0].c
        for i in range(a[0].k, a[1].k):
            if not isinstance(v[i], int) or not isinstance(a[2], int):
                raise AnalysisBroken('%s: binary search over values the replay keeps abstract (%s)' % (f.short, f.loc(st['i'])))
            if (v[i] > a[2]) if upper else (v[i] >= a[2]):
                return It(v, i)
        return It(v, a[1].k)
    return h


def _vec_insert(it, f, st, a):
    """vector::insert(position, value)"""
    v = _vec(it, f, st)
    if isinstance(v, dict):
        return _emplace(it, f, st, a)
    if not (len(a) == 2 and isinstance(a[0], It) and a[0].c is v):
        raise AnalysisBroken('%s: insert with arguments the replay does not understand (%s)' % (f.short, f.loc(st['i'])))
    r = it.record_of(a[1])
    v.insert(a[0].k, dict(r) if r is not None else a[1])
    return It(v, a[0].k)


VECTOR_HOOKS.update({'lower_bound': _bound(False), 'upper_bound': _bound(True), 'vector::insert': _vec_insert, 'deque::insert': _vec_insert})

_CONTAINER_HOOK_FUNCS = set()
for _h in list(VECTOR_HOOKS.values()):
    _CONTAINER_HOOK_FUNCS.add(_h)
