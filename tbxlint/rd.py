"""Reaching definitions of local variables and the 'position within a string' prover
(e <= S.size() - slack) used by the A8 presence proofs."""
from . import q
from .exc import is_string_cls, STR_POS_FUNCS

NPOS = ('18446744073709551615',)


def local_defs(f, decl):
    """definitions of local `decl`: list of dicts {sid, point, kind, rhs}"""
    key = ('defs', decl)
    cache = f.__dict__.setdefault('_rdcache', {})
    if key in cache:
        return cache[key]
    out = []
    for st in f.stmts:
        if not st:
            continue
        k = st['k']
        if k == 'DeclStmt':
            for d in st['decls']:
                if d.get('d') == decl:
                    out.append({'sid': st['i'], 'kind': 'init', 'rhs': d.get('init')})
        elif k in ('BinaryOperator', 'CompoundAssignOperator') and st.get('op', '').endswith('=') and st['op'] not in ('==', '!=', '<=', '>='):
            l = f.s(f.strip_casts(st['ch'][0]))
            if l and l['k'] == 'DeclRefExpr' and l.get('d') == decl:
                out.append({'sid': st['i'], 'kind': st['op'], 'rhs': st['ch'][1]})
        elif k == 'UnaryOperator' and st.get('op') in ('++', '--'):
            l = f.s(f.strip_casts(st['ch'][0]))
            if l and l['k'] == 'DeclRefExpr' and l.get('d') == decl:
                out.append({'sid': st['i'], 'kind': st['op'], 'rhs': None})
        elif k == 'DeclRefExpr' and st.get('d') == decl:
            from .locks import classify_access
            if classify_access(f, st['i']) == 'w':
                p, _ = f.up(st['i'])
                ps = f.s(p)
                if ps and ps['k'] in ('BinaryOperator', 'CompoundAssignOperator', 'UnaryOperator') and (ps.get('op', '').endswith('=') or ps.get('op') in ('++', '--')):
                    continue
                out.append({'sid': st['i'], 'kind': 'unknown', 'rhs': None})
    for p in f.params:
        if p['d'] == decl:
            out.append({'sid': -1, 'kind': 'param', 'rhs': None})
    for d in out:
        d['point'] = f.cfg.point_of(d['sid']) if d['sid'] >= 0 else None
    cache[key] = out
    return out


def reaching(f, decl, p):
    """indices (into local_defs) of the definitions of decl that reach point p"""
    defs = local_defs(f, decl)
    key = ('rd', decl)
    cache = f.__dict__.setdefault('_rdcache', {})
    if key not in cache:
        at = {}
        for i, d in enumerate(defs):
            if d['point'] is not None:
                at.setdefault(d['point'], []).append(i)
        init = frozenset(i for i, d in enumerate(defs) if d['kind'] == 'param')

        def transfer(pt, e, state):
            if pt in at:
                return frozenset(at[pt])
            return state
        inn, before = f.cfg.forward(init, transfer, lambda a, b: a | b)
        cache[key] = before
    return cache[key].get(p, frozenset())


def _is_npos(f, sid):
    x = f.s(f.strip_casts(sid))
    return x is not None and ((x['k'] == 'DeclRefExpr' and x.get('n') == 'npos') or x.get('cvs') in NPOS or x.get('cv') == -1)


def npos_guards(f, p, decl):
    """condition points of dominating guards that exclude `decl == npos` at p"""
    out = []
    for cond, k, b in f.cfg.controlling_branches(p):
        cs = f.s(f.strip_casts(cond))
        if not cs or cs['k'] != 'BinaryOperator' or cs.get('op') not in ('==', '!='):
            continue
        l, r = f.s(f.strip_casts(cs['ch'][0])), f.s(f.strip_casts(cs['ch'][1]))
        isv = lambda x: x and x['k'] == 'DeclRefExpr' and x.get('d') == decl
        if (isv(l) and _is_npos(f, cs['ch'][1])) or (isv(r) and _is_npos(f, cs['ch'][0])):
            if (cs['op'] == '==' and k == 1) or (cs['op'] == '!=' and k == 0):
                out.append(f.cfg.point_of(cond))
    return out


def _find_call(f, rhs, S):
    c = f.s(f.strip_casts(rhs))
    if c and c['k'] == 'CXXMemberCallExpr' and is_string_cls(c.get('cls', '')) and c.get('fn', '').startswith(('find', 'rfind')) and f.path(c['obj']) == S:
        return c
    return None


def _match_len(f, c):
    """minimum length of what a successful find* matched"""
    fn = c['fn']
    if fn in ('find_first_of', 'find_first_not_of', 'find_last_of', 'find_last_not_of'):
        return 1, None
    a = f.s(f.strip_casts(c['args'][0])) if c.get('args') else None
    if a is None:
        return 0, None
    if a['k'] == 'StringLiteral':
        return a.get('len', 0), None
    if a['k'] == 'CharacterLiteral' or (f.s(c['args'][0]).get('t') in ('char',)):
        return 1, None
    return 0, f.path(c['args'][0])   # symbolic: length of that string


def slack(f, e, p, S, depth=0):
    """largest k proven with  value(e) + k <= S.size()  at point p (None = unknown).
    Also returns a symbolic string path whose size() is additionally available as slack."""
    if depth > 6:
        return None
    x = f.s(f.strip_casts(e))
    if x is None:
        return None
    if x.get('cv') == 0:
        return 0
    if x['k'] in q.CALL_KINDS and x.get('fn') in ('size', 'length') and 'obj' in x and f.path(x['obj']) == S:
        return 0
    if x['k'] == 'BinaryOperator' and x.get('op') == '+':
        a, b = x['ch']
        cb = f.s(f.strip_casts(b)).get('cv')
        ca = f.s(f.strip_casts(a)).get('cv')
        if cb is not None and cb >= 0:
            s = slack(f, a, p, S, depth + 1)
            return s - cb if s is not None and s - cb >= 0 else None
        if ca is not None and ca >= 0:
            s = slack(f, b, p, S, depth + 1)
            return s - ca if s is not None and s - ca >= 0 else None
        # V + X.size() where V was found by searching for X
        for v, o in ((a, b), (b, a)):
            os_ = f.s(f.strip_casts(o))
            if os_ and os_['k'] in q.CALL_KINDS and os_.get('fn') in ('size', 'length') and 'obj' in os_:
                sym = f.path(os_['obj'])
                if _sym_slack(f, v, p, S, sym, depth + 1):
                    return 0
        return None
    if x['k'] == 'DeclRefExpr' and x.get('dk') == 'Var' and not x.get('gl'):
        decl = x['d']
        defs = local_defs(f, decl)
        rd = reaching(f, decl, p)
        if not rd:
            return None
        guards = npos_guards(f, p, decl)
        best = None
        for i in rd:
            d = defs[i]
            s = None
            if d['kind'] in ('init', '=') and d['rhs'] is not None:
                fc = _find_call(f, d['rhs'], S)
                if fc is not None:
                    # the guard must have tested *this* definition: d reaches the guard, and the guard lies after d
                    if any(g is not None and i in reaching(f, decl, g) for g in guards):
                        s = _match_len(f, fc)[0]
                elif d['point'] is not None:
                    s = slack(f, d['rhs'], d['point'], S, depth + 1)
            elif d['kind'] in ('++', '+=') and d['point'] is not None:
                inc = 1 if d['kind'] == '++' else f.s(f.strip_casts(d['rhs'])).get('cv')
                if inc is not None and inc >= 0:
                    # value before the increment: evaluate the variable at the def point, excluding cycles
                    prev = _slack_var_at(f, decl, d['point'], S, depth + 1, exclude=i)
                    s = prev - inc if prev is not None and prev - inc >= 0 else None
            if s is None:
                return None
            if not q.stable(f, S, d['point'], p):
                return None     # the string may have been changed between the definition and this use
            best = s if best is None else min(best, s)
        return best
    return None


def _slack_var_at(f, decl, p, S, depth, exclude):
    defs = local_defs(f, decl)
    rd = reaching(f, decl, p)
    if exclude in rd and len(rd) > 1:
        return None   # the increment feeds itself around a loop: unbounded
    rd = [i for i in rd if i != exclude]
    if not rd:
        return None
    guards = npos_guards(f, p, decl)
    best = None
    for i in rd:
        d = defs[i]
        s = None
        if d['kind'] in ('init', '=') and d['rhs'] is not None:
            fc = _find_call(f, d['rhs'], S)
            if fc is not None:
                if any(g is not None and i in reaching(f, decl, g) for g in guards):
                    s = _match_len(f, fc)[0]
            elif d['point'] is not None:
                s = slack(f, d['rhs'], d['point'], S, depth + 1)
        if s is None:
            return None
        if not q.stable(f, S, d['point'], p):
            return None
        best = s if best is None else min(best, s)
    return best


def _sym_slack(f, v, p, S, sym, depth):
    """v is a guarded result of S.find(sym ...): then v + sym.size() <= S.size()"""
    x = f.s(f.strip_casts(v))
    if not (x and x['k'] == 'DeclRefExpr' and x.get('dk') == 'Var'):
        return False
    decl = x['d']
    defs = local_defs(f, decl)
    rd = reaching(f, decl, p)
    guards = npos_guards(f, p, decl)
    if not rd:
        return False
    for i in rd:
        d = defs[i]
        if d['kind'] not in ('init', '=') or d['rhs'] is None:
            return False
        fc = _find_call(f, d['rhs'], S)
        if fc is None or _match_len(f, fc)[1] != sym:
            return False
        if not any(g is not None and i in reaching(f, decl, g) for g in guards):
            return False
        if not q.stable(f, S, d['point'], p):
            return False
    return True


def prove_string_pos_rd(f, st, label):
    """std::string::substr/erase/insert/compare(pos..) and ::at(pos): pos proven <= size (resp. < size)
    from reaching definitions, find() results and their npos guards."""
    need = None
    if label.startswith('std::string::'):
        fn = label.split('::')[-1]
        idx = STR_POS_FUNCS.get(fn, 0)
        need = 0
    elif label == 'std::basic_string::at':
        idx = 0
        need = 1
    else:
        return None
    args = st.get('args', [])
    if len(args) <= idx or 'obj' not in st:
        return None
    at = (f.s(args[idx]).get('ct') or f.s(args[idx]).get('t') or '')
    if 'iterator' in at:
        return 'iterator overload'
    p = f.cfg.point_of(st['i'])
    if p is None:
        return None
    S = f.path(st['obj'])
    s = slack(f, args[idx], p, S)
    if s is not None and s >= need:
        return 'position %s proven <= %s.size()%s from reaching definitions / guarded find() results' % (f.path(args[idx]), S, ' - %d' % need if need else '')
    return None
