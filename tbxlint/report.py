"""Obligation bookkeeping, known findings, evidence and exit codes (0 ok / 1 violation /
2 analysis broken)."""
import json
import os
import sys
import time

from .facts import VERIF, AnalysisBroken


EVDIR = os.environ.get('TBX_EVIDENCE_DIR') or os.path.join(VERIF, 'evidence')


class KnownFindings:
    def __init__(self, path=None):
        self.path = path or os.path.join(VERIF, 'known_findings.txt')
        self.findings = []   # (property, rule, site, what)
        self.fixed = []
        if os.path.exists(self.path):
            for line in open(self.path):
                line = line.strip()
                if not line or line.startswith('#'):
                    continue
                kind, _, rest = line.partition(':')
                kv = {}
                # key=value pairs; 'what=' takes the rest of the line
                rest = rest.strip()
                what = ''
                if ' what=' in rest:
                    rest, _, what = rest.partition(' what=')
                for tok in rest.split():
                    if '=' in tok:
                        k, _, v = tok.partition('=')
                        kv[k] = v
                if kind.strip() == 'finding':
                    self.findings.append((kv.get('property'), kv.get('rule'), kv.get('site'), what))
                elif kind.strip() == 'fixed':
                    self.fixed.append((kv.get('property'), kv.get('rule'), kv.get('site'), what))

    def lookup(self, prop, rule, site):
        for p, r, s, w in self.findings:
            if p == prop and r == rule and s == site:
                return w or 'listed'
        return None


class Ctx:
    def __init__(self, prop, tier):
        self.prop = prop
        self.tier = tier
        self.t0 = time.time()
        self.obligations = []      # dicts
        self.floors = {}           # rule -> min instances
        self.notes = []
        self.rules_doc = {}        # rule -> one line
        self.known = KnownFindings()
        self.stats = {}
        self.extra = {}
        self.broken = []

    def rule(self, rule, doc, floor=1):
        self.rules_doc[rule] = doc
        self.floors[rule] = floor

    def ob(self, rule, site, ok, what, where=None, detail=None):
        """record one obligation: rule instance at `site` (stable key: function|entity)."""
        site = site.replace(' ', '')
        self.obligations.append({'rule': rule, 'site': site, 'ok': bool(ok), 'what': what,
                                 'where': where, 'detail': detail})
        return ok

    def note(self, s):
        self.notes.append(s)

    def guard(self, fn, *args, **kw):
        """run one rule group; an analysis-broken condition inside it is remembered so that the other groups still report"""
        try:
            return fn(*args, **kw)
        except AnalysisBroken as e:
            self.broken.append('%s: %s' % (getattr(fn, '__name__', '?'), e))
            return None

    def finish(self, prog=None):
        # instance floors
        counts = {}
        for o in self.obligations:
            counts[o['rule']] = counts.get(o['rule'], 0) + 1
        for r, n in self.floors.items():
            if counts.get(r, 0) < n and not any(b.startswith(r.split('.')[-1].lower()) for b in self.broken):
                self.broken.append('rule %s matched %d instance(s), expected at least %d — anchor code moved or renamed; '
                                   'the rule table must be re-confirmed' % (r, counts.get(r, 0), n))
        violations = []
        known_printed = []
        seen = set()
        for o in self.obligations:
            if o['ok']:
                continue
            k = (o['rule'], o['site'])
            if k in seen:
                continue
            seen.add(k)
            w = self.known.lookup(self.prop, o['rule'], o['site'])
            if w is not None:
                known_printed.append('KNOWN-FINDING: property=%s rule=%s site=%s %s' % (self.prop, o['rule'], o['site'], w))
            else:
                violations.append(o)
        wall = time.time() - self.t0
        total = len(self.obligations)
        okc = sum(1 for o in self.obligations if o['ok'])
        # print summary
        print('[%s] tier=%s obligations=%d discharged=%d rules=%d wall=%.1fs'
              % (self.prop, self.tier, total, okc, len(self.rules_doc), wall))
        for r in sorted(self.rules_doc):
            n = counts.get(r, 0)
            bad = sum(1 for o in self.obligations if o['rule'] == r and not o['ok'])
            print('  %-8s %3d obligation(s) %s  %s' % (r, n, 'ok ' if not bad else 'FAIL(%d)' % bad, self.rules_doc[r]))
        for l in known_printed:
            print(l)
        replay = None
        if violations:
            rd = os.path.join(EVDIR, 'replay')
            os.makedirs(rd, exist_ok=True)
            replay = os.path.join(rd, '%s.json' % self.prop)
            with open(replay, 'w') as fh:
                json.dump({'property': self.prop, 'violations': violations}, fh, indent=1)
            for v in violations:
                print('  violation %s at %s [%s]: %s' % (v['rule'], v.get('where') or '?', v['site'], v['what']))
        # evidence
        samples = []
        per_rule_seen = {}
        for o in self.obligations:
            c = per_rule_seen.get(o['rule'], 0)
            if c < 3 or not o['ok']:
                samples.append({'rule': o['rule'], 'site': o['site'], 'where': o.get('where'),
                                'verdict': 'holds' if o['ok'] else 'fails', 'what': o['what'],
                                'detail': o.get('detail')})
                per_rule_seen[o['rule']] = c + 1
        cov = {
            'explanation': 'static rule conformance over the clang AST/CFG of the current /repo working tree; '
                           'one obligation = one rule instance at one site; rules: ' +
                           '; '.join('%s: %s' % (r, self.rules_doc[r]) for r in sorted(self.rules_doc)),
            'obligations': total,
            'discharged': okc + len(known_printed),
            'checker_cmd': './check %s --tier %s' % (self.prop, self.tier),
            'trusted_base': ['clang 14 Sema + CFG builder (tbxfacts extractor)', 'rule tables in rules/%s.py' % self.prop,
                             'USER model: a user callback may call any public method of any reachable object'],
            'samples': samples[:60],
            'rules': {r: {'doc': self.rules_doc[r], 'obligations': counts.get(r, 0), 'floor': self.floors.get(r, 0),
                          'failed': sum(1 for o in self.obligations if o['rule'] == r and not o['ok'])}
                      for r in sorted(self.rules_doc)},
            'known_findings_printed': known_printed,
            'notes': self.notes,
            'analysis_broken': self.broken,
        }
        if prog is not None:
            cov['translation_units'] = len(prog.tus)
            cov['functions_analysed'] = len(prog.funcs)
            cov['cfg_blocks'] = sum(len(f.d['cfg'].get('blocks', ())) for f in prog.funcs.values())
            cov['compdb_source'] = getattr(prog, 'compdb_source', '?')
            cov['variables_mapped_to_reference_names'] = getattr(prog, 'realiased', 0)
        cov.update(self.stats)
        cov.update(self.extra)
        ev = {
            'property_id': self.prop, 'tier': self.tier,
            'seed': int(os.environ.get('VERIF_SEED', '0') or 0),
            'level': 'other', 'coverage': cov,
            'assumptions': ['thread roles and rule slots are frozen tables confirmed by reading (rules/%s.py)' % self.prop,
                            'no EH edges in the CFG; exception behaviour only via the A8 rules',
                            'access paths are syntactic; aliasing through other pointers is not tracked'],
            'wall_s': round(time.time() - self.t0, 2),
            'violations': len(violations),
        }
        os.makedirs(EVDIR, exist_ok=True)
        with open(os.path.join(EVDIR, '%s.json' % self.prop), 'w') as fh:
            json.dump(ev, fh, indent=1)
        for b in self.broken:
            print('  analysis-broken: %s' % b)
        if violations:
            print('VIOLATION property=%s replay=%s' % (self.prop, replay))
            return 1
        if self.broken:
            raise AnalysisBroken('; '.join(self.broken))
        return 0


class RuleAlias:
    """Proxy that lets one property's check reuse another property's rule group under its own rule ids
    (e.g. the Buffer window rules C07.R* run inside C06 as C06.B*): everything is recorded in the real Ctx."""
    def __init__(self, ctx, src_prefix, dst_prefix):
        self._ctx, self._src, self._dst = ctx, src_prefix, dst_prefix

    def _m(self, rule):
        return self._dst + rule[len(self._src):] if rule.startswith(self._src) else rule

    def rule(self, rule, doc, floor=1):
        return self._ctx.rule(self._m(rule), doc, floor)

    def ob(self, rule, site, ok, what, where=None, detail=None):
        return self._ctx.ob(self._m(rule), site, ok, what, where, detail)

    def __getattr__(self, name):
        return getattr(self._ctx, name)
