// Positive examples for rules whose expected instance count on the real tree is zero: each detector must find its probe on
// every run (otherwise the rule passes vacuously and the check reports analysis-broken).  Parsed only, never built or run.
#include <cstddef>
#include <cstdint>
#include <cstring>
#include <alloca.h>

namespace verif_probe {

// unbounded variable-length array sized by a caller-supplied value
std::size_t vla_unbounded(const std::uint8_t *p, std::size_t n)
{
    std::uint8_t tmp[n];
    std::memcpy(tmp, p, n);
    return tmp[0];
}

// bounded variable-length array: the guard limits the size
std::size_t vla_bounded(const std::uint8_t *p, std::size_t n)
{
    if (n > 256)
        return 0;
    std::uint8_t tmp[n + 1];
    std::memcpy(tmp, p, n);
    return tmp[0];
}

std::size_t alloca_unbounded(const std::uint8_t *p, std::size_t n)
{
    std::uint8_t *tmp = static_cast<std::uint8_t*>(alloca(n));
    std::memcpy(tmp, p, n);
    return tmp[0];
}

}

// narrowing of an input-derived wide integer
#include <cstdlib>
#include <climits>
namespace verif_probe {

int narrow_unchecked(const char *s)
{
    int v = ::strtol(s, nullptr, 10);      // long -> int without a range test
    return v;
}

int narrow_checked(const char *s)
{
    long w = ::strtol(s, nullptr, 10);
    if (w < INT_MIN || w > INT_MAX)
        return 0;
    int v = static_cast<int>(w);
    return v;
}

}

// a library number parser used as a digit decoder (accepts " 7", "+7", "-1", "0x7")
#include <string>
#include <stdexcept>
namespace verif_probe {

int lenient_hex(const std::string &s)
{
    size_t n = 0;
    int v = std::stoi(s, &n, 16);
    if (n != 2)
        throw std::out_of_range("two hex digits expected");
    return v;
}

int strict_hex(const std::string &s)
{
    int v = 0;
    for (char c : s) {
        if (c >= '0' && c <= '9') v = v * 16 + (c - '0');
        else if (c >= 'a' && c <= 'f') v = v * 16 + (c - 'a' + 10);
        else throw std::out_of_range("hex digit expected");
    }
    return v;
}

}

// writes into a fixed-size local array at a variable offset
#include <cstring>
namespace verif_probe {

size_t fixed_unbounded(const char *src, size_t n, size_t at)
{
    char buf[64];
    memcpy(buf + at, src, n);              // nothing bounds at + n
    return buf[0];
}

size_t fixed_bounded(const char *src, size_t n, size_t at)
{
    char buf[64];
    if (at + n > sizeof(buf))
        return 0;
    memcpy(buf + at, src, n);
    return buf[0];
}

}

// bulk access through a (ptr, size) buffer: whole groups of 3 are guaranteed, 4 bytes are fetched
namespace verif_probe {

std::uint32_t bulk_overread(const std::uint8_t *in, std::size_t len)
{
    std::uint32_t acc = 0;
    for (std::size_t r = 0; r + 3 <= len; r += 3) {
        std::uint32_t group = 0;
        std::memcpy(&group, in + r, sizeof(group));
        acc ^= group;
    }
    return acc;
}

std::uint32_t bulk_exact(const std::uint8_t *in, std::size_t len)
{
    std::uint32_t acc = 0;
    for (std::size_t r = 0; r + 3 <= len; r += 3) {
        std::uint32_t group = 0;
        std::memcpy(&group, in + r, 3);
        acc ^= group;
    }
    return acc;
}

}
