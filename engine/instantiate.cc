// Explicit instantiations of cpp-tbox's header-only templates so that the extractor sees
// concrete, type-resolved bodies (parsed only, never compiled into anything that runs).
#include <tbox/base/cabinet.hpp>
#include <tbox/base/object_pool.hpp>
#include <tbox/coroutine/scheduler.h>
#include <tbox/coroutine/channel.hpp>
#include <tbox/coroutine/mutex.hpp>
#include <tbox/coroutine/semaphore.hpp>
#include <tbox/coroutine/broadcast.hpp>
#include <tbox/coroutine/condition.hpp>
#include <tbox/eventx/timeout_monitor.hpp>

namespace verif {
struct Obj { int v = 0; };
}

template class tbox::cabinet::Cabinet<verif::Obj>;
template class tbox::ObjectPool<verif::Obj>;
template class tbox::coroutine::Channel<int>;
template class tbox::coroutine::Condition<int>;
template class tbox::eventx::TimeoutMonitor<int>;

// non-template inline classes: reference their members so that the bodies are emitted
namespace verif {
inline void touch(tbox::coroutine::Scheduler &sch) {
    tbox::coroutine::Mutex m(sch);
    m.lock(); m.unlock();
    tbox::coroutine::Semaphore s(sch, 1);
    s.acquire(); s.release();
    tbox::coroutine::Broadcast b(sch);
    b.wait(); b.post();
    tbox::ObjectPool<Obj> pool;
    Obj *o = pool.alloc();
    pool.free(o);
    tbox::cabinet::Cabinet<Obj> cab;    // default construction: instantiates the default member initialisers
    (void)cab.size();
}
}
