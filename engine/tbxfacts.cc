// tbxfacts — LibTooling fact extractor for the cpp-tbox static checks.
//
// For every function definition (incl. lambdas and template instantiations) whose
// body lives under one of the root directories it dumps, as JSON:
//   * identity (qualified name, USR, class, access, virtual/overrides, file:line)
//   * the type-resolved statement/expression tree ("stmts", one record per Stmt)
//   * the clang CFG (implicit automatic-object destructors on, every sub-expression
//     its own element, no EH edges), elements referring to stmt ids
// plus class facts (fields, bases, methods) and evaluated global constant arrays.
//
// usage: tbxfacts -p <dir-with-compile_commands.json> [--out=<file>] [--roots=a:b] file.cpp
#include "clang/AST/ASTConsumer.h"
#include "clang/AST/ASTContext.h"
#include "clang/AST/DeclCXX.h"
#include "clang/AST/DeclTemplate.h"
#include "clang/AST/ExprCXX.h"
#include "clang/AST/RecursiveASTVisitor.h"
#include "clang/AST/StmtCXX.h"
#include "clang/Analysis/CFG.h"
#include "clang/Frontend/CompilerInstance.h"
#include "clang/Frontend/FrontendAction.h"
#include "clang/Index/USRGeneration.h"
#include "clang/Tooling/CommonOptionsParser.h"
#include "clang/Tooling/Tooling.h"
#include "llvm/Support/CommandLine.h"
#include "llvm/Support/JSON.h"
#include "llvm/Support/raw_ostream.h"

#include <map>
#include <set>
#include <string>
#include <vector>

using namespace clang;
using namespace clang::tooling;
namespace json = llvm::json;

static llvm::cl::OptionCategory Cat("tbxfacts options");
static llvm::cl::opt<std::string> OutFile("out", llvm::cl::desc("output file"), llvm::cl::cat(Cat));
static llvm::cl::opt<std::string> Roots("roots", llvm::cl::desc("colon separated source roots"),
                                        llvm::cl::init("/repo/modules"), llvm::cl::cat(Cat));

namespace {

std::vector<std::string> g_roots;

std::string normPath(std::string p) {
  // /repo/modules/tbox is a symlink to /repo/modules
  for (;;) {
    auto pos = p.find("/modules/tbox/");
    if (pos == std::string::npos) break;
    p.replace(pos, strlen("/modules/tbox/"), "/modules/");
  }
  // collapse "/./" and "dir/../"
  for (;;) {
    auto pos = p.find("/./");
    if (pos == std::string::npos) break;
    p.replace(pos, 3, "/");
  }
  for (;;) {
    auto pos = p.find("/../");
    if (pos == std::string::npos || pos == 0) break;
    auto prev = p.rfind('/', pos - 1);
    if (prev == std::string::npos) break;
    p.replace(prev, pos + 3 - prev, "");
  }
  return p;
}

bool inRoots(const std::string &p) {
  for (auto &r : g_roots)
    if (p.compare(0, r.size(), r) == 0) return true;
  return false;
}

std::string safeStr(llvm::StringRef s) {
  // JSON needs valid UTF-8; escape everything outside printable ASCII.
  std::string o;
  for (unsigned char c : s) {
    if (c >= 0x20 && c < 0x7f && c != '\\') o.push_back(char(c));
    else {
      char buf[8];
      snprintf(buf, sizeof buf, "\\x%02x", c);
      o += buf;
    }
  }
  return o;
}

class Extractor {
 public:
  explicit Extractor(ASTContext &ctx) : Ctx(ctx), SM(ctx.getSourceManager()), PP(ctx.getLangOpts()) {
    PP.SuppressTagKeyword = true;
    PP.Bool = true;
  }

  ASTContext &Ctx;
  SourceManager &SM;
  PrintingPolicy PP;

  json::Array Functions, Classes, Globals;
  std::set<std::string> seenFn, seenCls, seenVar;
  std::map<const Decl *, int> declIds;

  // ---- helpers ---------------------------------------------------------
  std::string fileOf(SourceLocation L) {
    if (L.isInvalid()) return "";
    L = SM.getExpansionLoc(L);
    return normPath(SM.getFilename(L).str());
  }
  unsigned lineOf(SourceLocation L) { return L.isInvalid() ? 0 : SM.getExpansionLineNumber(L); }
  unsigned colOf(SourceLocation L) { return L.isInvalid() ? 0 : SM.getExpansionColumnNumber(L); }

  std::string usr(const Decl *D) {
    llvm::SmallString<256> buf;
    if (index::generateUSRForDecl(D, buf)) return "";
    return buf.str().str();
  }
  std::string typeStr(QualType T) {
    if (T.isNull()) return "";
    return T.getAsString(PP);
  }
  std::string canonStr(QualType T) {
    if (T.isNull()) return "";
    return T.getCanonicalType().getAsString(PP);
  }
  int declId(const Decl *D) {
    D = D->getCanonicalDecl();
    auto it = declIds.find(D);
    if (it != declIds.end()) return it->second;
    int id = (int)declIds.size() + 1;
    declIds[D] = id;
    return id;
  }
  std::string qname(const NamedDecl *D) {
    std::string s;
    llvm::raw_string_ostream os(s);
    D->printQualifiedName(os, PP);
    // template specialisation arguments for classes / functions
    return os.str();
  }
  std::string classQName(const CXXRecordDecl *R) {
    if (!R) return "";
    std::string s;
    llvm::raw_string_ostream os(s);
    R->printQualifiedName(os, PP);
    if (auto *S = dyn_cast<ClassTemplateSpecializationDecl>(R)) {
      printTemplateArgumentList(os, S->getTemplateArgs().asArray(), PP);
    }
    return os.str();
  }
  std::string funcQName(const FunctionDecl *F) {
    std::string s;
    if (auto *M = dyn_cast<CXXMethodDecl>(F)) {
      const CXXRecordDecl *R = M->getParent();
      if (R->isLambda()) {
        // name lambdas after their enclosing function
        const DeclContext *DC = R->getDeclContext();
        while (DC && !isa<FunctionDecl>(DC) && !DC->isFileContext() && !isa<CXXRecordDecl>(DC)) DC = DC->getParent();
        std::string outer;
        if (DC) {
          if (auto *OF = dyn_cast<FunctionDecl>(DC)) outer = funcQName(OF);
          else if (auto *OR = dyn_cast<CXXRecordDecl>(DC)) outer = classQName(OR);
        }
        return outer + "::<lambda@" + std::to_string(lineOf(R->getBeginLoc())) + ":" +
               std::to_string(colOf(R->getBeginLoc())) + ">";
      }
      s = classQName(R) + "::";
      std::string n;
      llvm::raw_string_ostream os(n);
      os << F->getDeclName();
      return s + os.str();
    }
    return qname(F);
  }

  // ---- per function state ------------------------------------------------
  struct FnState {
    std::map<const Stmt *, int> ids;
    json::Array stmts;
    std::vector<const CXXMethodDecl *> lambdas;  // call operators found in this body
  };

  int emitStmt(FnState &fs, const Stmt *S) {
    if (!S) return -1;
    auto it = fs.ids.find(S);
    if (it != fs.ids.end()) return it->second;
    int id = (int)fs.ids.size();
    fs.ids[S] = id;
    // reserve slot
    fs.stmts.push_back(nullptr);
    json::Object o;
    o["i"] = id;
    o["k"] = S->getStmtClassName();
    o["l"] = (int64_t)lineOf(S->getBeginLoc());
    o["c"] = (int64_t)colOf(S->getBeginLoc());
    o["el"] = (int64_t)lineOf(S->getEndLoc());

    bool descend = true;
    json::Array ch;

    if (auto *E = dyn_cast<Expr>(S)) {
      o["t"] = typeStr(E->getType());
      std::string cs = canonStr(E->getType());
      if (cs != typeStr(E->getType())) o["ct"] = cs;
      if (E->isLValue()) o["lv"] = true;
      // integer constant value where the compiler can fold it
      if (!E->isValueDependent() && !E->getType().isNull() &&
          (E->getType()->isIntegralOrEnumerationType()) && E->isPRValue() && !isa<InitListExpr>(E)) {
        Expr::EvalResult R;
        if (E->EvaluateAsInt(R, Ctx, Expr::SE_NoSideEffects)) {
          llvm::APSInt v = R.Val.getInt();
          if (v.isSigned() ? v.isSignedIntN(63) : v.isIntN(63)) o["cv"] = (int64_t)v.getExtValue();
          else o["cvs"] = llvm::toString(v, 10);
        }
      }
    }

    if (auto *DR = dyn_cast<DeclRefExpr>(S)) {
      const ValueDecl *D = DR->getDecl();
      o["n"] = D->getNameAsString();
      o["dk"] = D->getDeclKindName();
      if (auto *FD = dyn_cast<FunctionDecl>(D)) {
        o["q"] = funcQName(FD);
        o["usr"] = usr(FD);
      } else if (auto *VD = dyn_cast<VarDecl>(D)) {
        o["d"] = declId(VD);
        if (VD->hasGlobalStorage()) {
          o["gl"] = true;
          o["q"] = qname(VD);
        }
      } else {
        o["q"] = qname(D);
      }
    } else if (auto *ME = dyn_cast<MemberExpr>(S)) {
      const ValueDecl *D = ME->getMemberDecl();
      o["n"] = D->getNameAsString();
      o["arrow"] = ME->isArrow();
      if (auto *FD = dyn_cast<FieldDecl>(D)) {
        o["mk"] = "field";
        o["q"] = classQName(dyn_cast<CXXRecordDecl>(FD->getParent())) + "::" + FD->getNameAsString();
        o["fd"] = declId(FD);
      } else if (auto *MD = dyn_cast<CXXMethodDecl>(D)) {
        o["mk"] = "method";
        o["q"] = funcQName(MD);
        o["usr"] = usr(MD);
      } else if (auto *VD = dyn_cast<VarDecl>(D)) {
        o["mk"] = "static";
        o["q"] = qname(VD);
        o["d"] = declId(VD);
      } else {
        o["mk"] = "other";
      }
    } else if (auto *CE = dyn_cast<CallExpr>(S)) {
      const FunctionDecl *FD = CE->getDirectCallee();
      if (FD) {
        o["callee"] = funcQName(FD);
        o["usr"] = usr(FD);
        o["fn"] = FD->getNameAsString();
        if (auto *MD = dyn_cast<CXXMethodDecl>(FD)) {
          o["cls"] = classQName(MD->getParent());
          if (MD->isVirtual()) o["virt"] = true;
          if (MD->isStatic()) o["static"] = true;
          if (MD->isConst()) o["mconst"] = true;
        }
        if (FD->isNoReturn()) o["noret"] = true;
        std::string f = fileOf(FD->getLocation());
        if (!inRoots(f)) o["ext"] = true;
      }
      if (auto *MC = dyn_cast<CXXMemberCallExpr>(S)) {
        if (const Expr *Obj = MC->getImplicitObjectArgument()) o["obj"] = emitStmt(fs, Obj);
        // Base::f(): a qualified member call is bound statically even when f is virtual
        if (auto *CME = dyn_cast<MemberExpr>(MC->getCallee()->IgnoreParens()))
          if (CME->hasQualifier()) o["qualified"] = true;
      } else if (auto *OC = dyn_cast<CXXOperatorCallExpr>(S)) {
        o["op"] = getOperatorSpelling(OC->getOperator());
        if (FD && isa<CXXMethodDecl>(FD) && OC->getNumArgs() > 0) o["obj"] = emitStmt(fs, OC->getArg(0));
      }
      json::Array args;
      unsigned start = 0;
      if (auto *OC = dyn_cast<CXXOperatorCallExpr>(S))
        if (FD && isa<CXXMethodDecl>(FD)) start = 1;
      for (unsigned i = start; i < CE->getNumArgs(); ++i) args.push_back(emitStmt(fs, CE->getArg(i)));
      o["args"] = std::move(args);
      o["calleeexpr"] = emitStmt(fs, CE->getCallee());
    } else if (auto *CC = dyn_cast<CXXConstructExpr>(S)) {
      const CXXConstructorDecl *CD = CC->getConstructor();
      o["ctor"] = classQName(CD->getParent());
      o["usr"] = usr(CD);
      if (CD->isCopyConstructor()) o["copy"] = true;
      if (CD->isMoveConstructor()) o["move"] = true;
      json::Array args;
      for (unsigned i = 0; i < CC->getNumArgs(); ++i) args.push_back(emitStmt(fs, CC->getArg(i)));
      o["args"] = std::move(args);
      std::string f = fileOf(CD->getLocation());
      if (!inRoots(f)) o["ext"] = true;
    } else if (auto *NE = dyn_cast<CXXNewExpr>(S)) {
      o["at"] = typeStr(NE->getAllocatedType());
      o["cat"] = canonStr(NE->getAllocatedType());
      o["pl"] = (int64_t)NE->getNumPlacementArgs();
      if (NE->isArray()) o["arr"] = true;
    } else if (auto *DE = dyn_cast<CXXDeleteExpr>(S)) {
      o["dt"] = typeStr(DE->getDestroyedType());
      o["cdt"] = canonStr(DE->getDestroyedType());
      if (DE->isArrayForm()) o["arr"] = true;
    } else if (auto *BO = dyn_cast<BinaryOperator>(S)) {
      o["op"] = BO->getOpcodeStr().str();
      if (auto *CAO = dyn_cast<CompoundAssignOperator>(S)) {
        o["comptype"] = typeStr(CAO->getComputationResultType());
      }
    } else if (auto *UO = dyn_cast<UnaryOperator>(S)) {
      o["op"] = UnaryOperator::getOpcodeStr(UO->getOpcode()).str();
      if (UO->isPostfix()) o["post"] = true;
    } else if (auto *IL = dyn_cast<IntegerLiteral>(S)) {
      (void)IL;
    } else if (auto *SL = dyn_cast<StringLiteral>(S)) {
      if (SL->getCharByteWidth() == 1) o["v"] = safeStr(SL->getBytes());
      o["len"] = (int64_t)SL->getLength();
    } else if (auto *CL = dyn_cast<CharacterLiteral>(S)) {
      o["v"] = (int64_t)CL->getValue();
    } else if (auto *BL = dyn_cast<CXXBoolLiteralExpr>(S)) {
      o["v"] = BL->getValue();
    } else if (auto *CS = dyn_cast<CastExpr>(S)) {
      o["ck"] = CS->getCastKindName();
    } else if (auto *DS = dyn_cast<DeclStmt>(S)) {
      json::Array decls;
      for (const Decl *D : DS->decls()) {
        json::Object d;
        d["dk"] = D->getDeclKindName();
        if (auto *VD = dyn_cast<VarDecl>(D)) {
          d["n"] = VD->getNameAsString();
          d["d"] = declId(VD);
          d["t"] = typeStr(VD->getType());
          d["ct"] = canonStr(VD->getType());
          if (VD->isStaticLocal()) d["static"] = true;
          if (const auto *VAT = dyn_cast<VariableArrayType>(VD->getType().getCanonicalType().getTypePtr())) {
            // variable-length array: the run-time element count is part of the declaration
            if (const Expr *SE = VAT->getSizeExpr()) {
              int sid = emitStmt(fs, SE);
              d["vla"] = sid;
              d["esz"] = (int64_t)Ctx.getTypeSizeInChars(VAT->getElementType()).getQuantity();
              ch.push_back(sid);
            }
          }
          if (VD->hasInit()) {
            int cid = emitStmt(fs, VD->getInit());
            d["init"] = cid;
            ch.push_back(cid);
          }
        }
        decls.push_back(std::move(d));
      }
      o["decls"] = std::move(decls);
      descend = false;
    } else if (auto *TS = dyn_cast<CXXTryStmt>(S)) {
      json::Array hs;
      o["try"] = emitStmt(fs, TS->getTryBlock());
      ch.push_back(emitStmt(fs, TS->getTryBlock()));
      for (unsigned i = 0; i < TS->getNumHandlers(); ++i) {
        const CXXCatchStmt *H = TS->getHandler(i);
        json::Object h;
        h["t"] = H->getExceptionDecl() ? canonStr(H->getCaughtType()) : std::string("...");
        int hid = emitStmt(fs, H);
        h["s"] = hid;
        ch.push_back(hid);
        hs.push_back(std::move(h));
      }
      o["handlers"] = std::move(hs);
      descend = false;
    } else if (auto *H = dyn_cast<CXXCatchStmt>(S)) {
      o["ct"] = H->getExceptionDecl() ? canonStr(H->getCaughtType()) : std::string("...");
      if (H->getExceptionDecl()) {
        o["d"] = declId(H->getExceptionDecl());
        o["n"] = H->getExceptionDecl()->getNameAsString();
      }
    } else if (auto *IS = dyn_cast<IfStmt>(S)) {
      o["cond"] = emitStmt(fs, IS->getCond());
      o["then"] = emitStmt(fs, IS->getThen());
      if (IS->getElse()) o["else"] = emitStmt(fs, IS->getElse());
    } else if (auto *FS = dyn_cast<ForStmt>(S)) {
      if (FS->getInit()) o["init"] = emitStmt(fs, FS->getInit());
      if (FS->getCond()) o["cond"] = emitStmt(fs, FS->getCond());
      if (FS->getInc()) o["inc"] = emitStmt(fs, FS->getInc());
      o["body"] = emitStmt(fs, FS->getBody());
    } else if (auto *WS = dyn_cast<WhileStmt>(S)) {
      o["cond"] = emitStmt(fs, WS->getCond());
      o["body"] = emitStmt(fs, WS->getBody());
    } else if (auto *DoS = dyn_cast<DoStmt>(S)) {
      o["cond"] = emitStmt(fs, DoS->getCond());
      o["body"] = emitStmt(fs, DoS->getBody());
    } else if (auto *RS = dyn_cast<CXXForRangeStmt>(S)) {
      o["range"] = emitStmt(fs, RS->getRangeInit());
      if (const VarDecl *LV = RS->getLoopVariable()) {
        o["lvn"] = LV->getNameAsString();
        o["lvd"] = declId(LV);
        o["lvt"] = typeStr(LV->getType());
      }
      o["body"] = emitStmt(fs, RS->getBody());
    } else if (auto *SS = dyn_cast<SwitchStmt>(S)) {
      o["cond"] = emitStmt(fs, SS->getCond());
      o["body"] = emitStmt(fs, SS->getBody());
    } else if (auto *CaS = dyn_cast<CaseStmt>(S)) {
      Expr::EvalResult R;
      if (CaS->getLHS() && !CaS->getLHS()->isValueDependent() && CaS->getLHS()->EvaluateAsInt(R, Ctx))
        o["v"] = (int64_t)R.Val.getInt().getExtValue();
    } else if (auto *LE = dyn_cast<LambdaExpr>(S)) {
      const CXXMethodDecl *Op = LE->getCallOperator();
      o["fn"] = usr(Op);
      json::Array caps;
      auto initIt = LE->capture_init_begin();
      for (auto it = LE->capture_begin(); it != LE->capture_end(); ++it, ++initIt) {
        json::Object c;
        if (it->capturesThis()) {
          c["this"] = true;
        } else if (it->capturesVariable()) {
          const VarDecl *VD = it->getCapturedVar();
          c["n"] = VD->getNameAsString();
          c["d"] = declId(VD);
          c["t"] = typeStr(VD->getType());
          c["ct"] = canonStr(VD->getType());
        }
        c["ref"] = it->getCaptureKind() == LCK_ByRef;
        c["implicit"] = it->isImplicit();
        if (*initIt) {
          int cid = emitStmt(fs, *initIt);
          c["init"] = cid;
          ch.push_back(cid);
        }
        caps.push_back(std::move(c));
      }
      o["caps"] = std::move(caps);
      fs.lambdas.push_back(Op);
      descend = false;
    } else if (auto *TT = dyn_cast<UnaryExprOrTypeTraitExpr>(S)) {
      o["tt"] = (int64_t)TT->getKind();
      if (TT->isArgumentType()) o["at"] = typeStr(TT->getArgumentType());
    } else if (isa<CXXDefaultArgExpr>(S)) {
      descend = false;
    } else if (auto *RS2 = dyn_cast<ReturnStmt>(S)) {
      if (RS2->getRetValue()) o["val"] = emitStmt(fs, RS2->getRetValue());
    } else if (auto *MT = dyn_cast<MaterializeTemporaryExpr>(S)) {
      (void)MT;
    } else if (auto *DME = dyn_cast<CXXDependentScopeMemberExpr>(S)) {
      o["n"] = DME->getMember().getAsString();
    } else if (auto *UL = dyn_cast<UnresolvedLookupExpr>(S)) {
      o["n"] = UL->getName().getAsString();
    } else if (auto *GS = dyn_cast<GotoStmt>(S)) {
      o["label"] = GS->getLabel()->getNameAsString();
    } else if (auto *LS = dyn_cast<LabelStmt>(S)) {
      o["label"] = LS->getName();
    }

    if (descend) {
      for (const Stmt *C : S->children())
        if (C) ch.push_back(emitStmt(fs, C));
    }
    o["ch"] = std::move(ch);
    fs.stmts[id] = std::move(o);
    return id;
  }

  json::Object emitCFG(FnState &fs, const FunctionDecl *FD) {
    json::Object out;
    CFG::BuildOptions bo;
    bo.AddImplicitDtors = true;
    bo.AddInitializers = true;
    bo.AddEHEdges = false;
    bo.AddTemporaryDtors = false;
    bo.PruneTriviallyFalseEdges = false;
    bo.setAllAlwaysAdd();
    std::unique_ptr<CFG> cfg = CFG::buildCFG(FD, FD->getBody(), &Ctx, bo);
    if (!cfg) {
      out["ok"] = false;
      return out;
    }
    out["ok"] = true;
    out["entry"] = (int64_t)cfg->getEntry().getBlockID();
    out["exit"] = (int64_t)cfg->getExit().getBlockID();
    json::Array blocks;
    for (const CFGBlock *B : *cfg) {
      json::Object b;
      b["id"] = (int64_t)B->getBlockID();
      json::Array els;
      for (const CFGElement &E : *B) {
        json::Array e;
        if (auto CS = E.getAs<CFGStmt>()) {
          e.push_back("S");
          e.push_back(emitStmt(fs, CS->getStmt()));
        } else if (auto CI = E.getAs<CFGInitializer>()) {
          const CXXCtorInitializer *I = CI->getInitializer();
          e.push_back("I");
          if (I->isAnyMemberInitializer() && I->getAnyMember()) e.push_back(I->getAnyMember()->getNameAsString());
          else e.push_back("<base>");
          e.push_back(emitStmt(fs, I->getInit()));
        } else if (auto AD = E.getAs<CFGAutomaticObjDtor>()) {
          const VarDecl *VD = AD->getVarDecl();
          e.push_back("D");
          e.push_back(declId(VD));
          e.push_back(VD->getNameAsString());
          e.push_back(canonStr(VD->getType()));
          e.push_back((int64_t)lineOf(AD->getTriggerStmt() ? AD->getTriggerStmt()->getEndLoc() : SourceLocation()));
        } else if (E.getAs<CFGBaseDtor>()) {
          e.push_back("BD");
        } else if (auto MDt = E.getAs<CFGMemberDtor>()) {
          e.push_back("MD");
          e.push_back(MDt->getFieldDecl()->getNameAsString());
        } else {
          e.push_back("?");
        }
        els.push_back(std::move(e));
      }
      b["el"] = std::move(els);
      if (const Stmt *T = B->getTerminatorStmt()) {
        b["term"] = emitStmt(fs, T);
        b["tk"] = T->getStmtClassName();
      }
      if (const Stmt *C = B->getTerminatorCondition()) b["cond"] = emitStmt(fs, C);
      if (const Stmt *L = B->getLoopTarget()) b["looptarget"] = emitStmt(fs, L);
      if (const Stmt *Lb = B->getLabel()) b["label"] = emitStmt(fs, Lb);
      if (B->hasNoReturnElement()) b["noret"] = true;
      json::Array succ;
      for (auto I = B->succ_begin(); I != B->succ_end(); ++I) {
        const CFGBlock *SB = I->getReachableBlock();
        json::Array s;
        if (SB) {
          s.push_back((int64_t)SB->getBlockID());
          s.push_back(true);
        } else if ((SB = I->getPossiblyUnreachableBlock())) {
          s.push_back((int64_t)SB->getBlockID());
          s.push_back(false);
        } else {
          s.push_back(nullptr);
          s.push_back(false);
        }
        succ.push_back(std::move(s));
      }
      b["succ"] = std::move(succ);
      blocks.push_back(std::move(b));
    }
    out["blocks"] = std::move(blocks);
    return out;
  }

  void emitFunction(const FunctionDecl *FD, const std::string &parentUsr) {
    if (!FD->doesThisDeclarationHaveABody() || !FD->getBody()) return;
    if (FD->isDependentContext()) return;
    std::string file = fileOf(FD->getBody()->getBeginLoc());
    if (!inRoots(file)) return;
    std::string u = usr(FD);
    std::string key = u + "@" + parentUsr;
    if (!seenFn.insert(key).second) return;

    FnState fs;
    json::Object f;
    f["usr"] = u;
    f["name"] = funcQName(FD);
    f["short"] = FD->getNameAsString();
    f["file"] = file;
    f["line"] = (int64_t)lineOf(FD->getLocation());
    f["bline"] = (int64_t)lineOf(FD->getBody()->getBeginLoc());
    f["eline"] = (int64_t)lineOf(FD->getBody()->getEndLoc());
    f["ret"] = typeStr(FD->getReturnType());
    if (!parentUsr.empty()) f["parent"] = parentUsr;
    if (FD->isTemplateInstantiation()) f["tmpl"] = true;
    if (FD->isExternC()) f["externc"] = true;
    if (FD->isStatic()) f["static"] = true;
    json::Array params;
    for (const ParmVarDecl *P : FD->parameters()) {
      json::Object p;
      p["n"] = P->getNameAsString();
      p["d"] = declId(P);
      p["t"] = typeStr(P->getType());
      p["ct"] = canonStr(P->getType());
      params.push_back(std::move(p));
    }
    f["params"] = std::move(params);
    if (auto *MD = dyn_cast<CXXMethodDecl>(FD)) {
      const CXXRecordDecl *R = MD->getParent();
      f["cls"] = classQName(R);
      if (R->isLambda()) f["lambda"] = true;
      f["access"] = getAccessSpelling(MD->getAccess()).str();
      if (MD->isVirtual()) f["virtual"] = true;
      if (MD->isConst()) f["const"] = true;
      if (isa<CXXConstructorDecl>(MD)) f["ctor"] = true;
      if (isa<CXXDestructorDecl>(MD)) f["dtor"] = true;
      json::Array ov;
      for (const CXXMethodDecl *O : MD->overridden_methods()) {
        json::Object oo;
        oo["q"] = funcQName(O);
        oo["usr"] = usr(O);
        ov.push_back(std::move(oo));
      }
      f["overrides"] = std::move(ov);
    }
    int body = emitStmt(fs, FD->getBody());
    f["body"] = body;
    if (auto *CD = dyn_cast<CXXConstructorDecl>(FD)) {
      json::Array inits;
      for (const CXXCtorInitializer *I : CD->inits()) {
        json::Object io;
        if (I->isAnyMemberInitializer() && I->getAnyMember()) io["field"] = I->getAnyMember()->getNameAsString();
        else io["base"] = true;
        io["written"] = I->isWritten();
        io["init"] = emitStmt(fs, I->getInit());
        inits.push_back(std::move(io));
      }
      f["inits"] = std::move(inits);
    }
    f["cfg"] = emitCFG(fs, FD);
    f["stmts"] = std::move(fs.stmts);
    Functions.push_back(std::move(f));
    for (const CXXMethodDecl *L : fs.lambdas) emitFunction(L, u);
  }

  void emitClass(const CXXRecordDecl *R) {
    if (!R->isCompleteDefinition() || R->isDependentContext() || R->isLambda()) return;
    std::string file = fileOf(R->getLocation());
    if (!inRoots(file)) return;
    std::string name = classQName(R);
    if (!seenCls.insert(name).second) return;
    json::Object c;
    c["name"] = name;
    c["file"] = file;
    c["line"] = (int64_t)lineOf(R->getLocation());
    if (isa<ClassTemplateSpecializationDecl>(R)) c["tmpl"] = true;
    json::Array bases;
    for (const auto &B : R->bases()) {
      const CXXRecordDecl *BR = B.getType()->getAsCXXRecordDecl();
      bases.push_back(BR ? classQName(BR) : typeStr(B.getType()));
    }
    c["bases"] = std::move(bases);
    json::Array fields;
    for (const FieldDecl *F : R->fields()) {
      json::Object fo;
      fo["n"] = F->getNameAsString();
      fo["t"] = typeStr(F->getType());
      fo["ct"] = canonStr(F->getType());
      fo["access"] = getAccessSpelling(F->getAccess()).str();
      fo["fd"] = declId(F);
      if (F->hasInClassInitializer()) {
        fo["hasinit"] = true;
        const Expr *IE = F->getInClassInitializer();
        if (IE && !IE->isValueDependent()) {
          Expr::EvalResult R;
          if (IE->getType()->isIntegralOrEnumerationType() && IE->EvaluateAsInt(R, Ctx, Expr::SE_NoSideEffects)) {
            const llvm::APSInt &V = R.Val.getInt();
            if (V.isUnsigned() && V.ugt(llvm::APInt(V.getBitWidth(), (uint64_t)INT64_MAX)))
              fo["initv_hex"] = llvm::toString(V, 16);      // does not fit a JSON integer
            else
              fo["initv"] = (int64_t)V.getExtValue();
          }
          else if (isa<CXXNullPtrLiteralExpr>(IE->IgnoreParenImpCasts()))
            fo["initv"] = nullptr;
        }
      }
      fields.push_back(std::move(fo));
    }
    c["fields"] = std::move(fields);
    json::Array methods;
    for (const CXXMethodDecl *M : R->methods()) {
      if (M->isImplicit()) continue;
      json::Object mo;
      mo["n"] = M->getNameAsString();
      mo["q"] = funcQName(M);
      mo["usr"] = usr(M);
      mo["access"] = getAccessSpelling(M->getAccess()).str();
      if (M->isVirtual()) mo["virtual"] = true;
      if (M->isPure()) mo["pure"] = true;
      if (M->isStatic()) mo["static"] = true;
      if (isa<CXXConstructorDecl>(M)) mo["ctor"] = true;
      if (isa<CXXDestructorDecl>(M)) mo["dtor"] = true;
      json::Array ov;
      for (const CXXMethodDecl *O : M->overridden_methods()) ov.push_back(usr(O));
      mo["overrides"] = std::move(ov);
      methods.push_back(std::move(mo));
    }
    c["methods"] = std::move(methods);
    Classes.push_back(std::move(c));
  }

  bool flattenAP(const APValue &V, json::Array &out) {
    if (V.isInt()) {
      const llvm::APSInt &i = V.getInt();
      if (i.isSigned()) out.push_back((int64_t)i.getSExtValue());
      else if (i.isIntN(63)) out.push_back((int64_t)i.getZExtValue());
      else out.push_back(llvm::toString(i, 10));
      return true;
    }
    if (V.isArray()) {
      unsigned n = V.getArrayInitializedElts();
      for (unsigned i = 0; i < n; ++i)
        if (!flattenAP(V.getArrayInitializedElt(i), out)) return false;
      if (V.hasArrayFiller()) {
        for (unsigned i = n; i < V.getArraySize(); ++i)
          if (!flattenAP(V.getArrayFiller(), out)) return false;
      }
      return true;
    }
    return false;
  }

  void emitGlobal(const VarDecl *VD) {
    if (!VD->hasGlobalStorage() || VD->isInvalidDecl()) return;
    if (VD->getDeclContext()->isDependentContext()) return;
    if (isa<ParmVarDecl>(VD)) return;
    std::string file = fileOf(VD->getLocation());
    if (!inRoots(file)) return;
    const VarDecl *Def = VD->getDefinition();
    if (Def && Def != VD) return;
    std::string name = qname(VD);
    std::string key = name + "@" + file + ":" + std::to_string(lineOf(VD->getLocation()));
    if (!seenVar.insert(key).second) return;
    json::Object g;
    g["name"] = name;
    g["n"] = VD->getNameAsString();
    g["d"] = declId(VD);
    g["file"] = file;
    g["line"] = (int64_t)lineOf(VD->getLocation());
    g["t"] = typeStr(VD->getType());
    g["ct"] = canonStr(VD->getType());
    if (VD->getType().isConstQualified() ||
        (VD->getType()->isArrayType() && Ctx.getBaseElementType(VD->getType()).isConstQualified()))
      g["const"] = true;
    if (VD->isStaticLocal()) g["staticlocal"] = true;
    if (const auto *AT = Ctx.getAsConstantArrayType(VD->getType())) g["n_elems"] = (int64_t)AT->getSize().getZExtValue();
    if (VD->hasInit() && !VD->getInit()->isValueDependent()) {
      QualType BT = Ctx.getBaseElementType(VD->getType());
      if (BT->isIntegralOrEnumerationType()) {
        if (const APValue *V = VD->evaluateValue()) {
          json::Array vals;
          if (flattenAP(*V, vals)) g["vals"] = std::move(vals);
        }
      } else if (VD->getType()->isPointerType() || (VD->getType()->isArrayType() && BT->isPointerType())) {
        // const char * tables: collect string literals of the initialiser
        json::Array strs;
        bool ok = true;
        std::function<void(const Expr *)> walk = [&](const Expr *E) {
          E = E->IgnoreParenImpCasts();
          if (auto *IL = dyn_cast<InitListExpr>(E)) {
            for (const Expr *C : IL->inits()) walk(C);
          } else if (auto *SL = dyn_cast<StringLiteral>(E)) {
            strs.push_back(safeStr(SL->getBytes()));
          } else ok = false;
        };
        walk(VD->getInit());
        if (ok) g["strs"] = std::move(strs);
      }
    }
    Globals.push_back(std::move(g));
  }
};

class Visitor : public RecursiveASTVisitor<Visitor> {
 public:
  explicit Visitor(Extractor &x) : X(x) {}
  bool shouldVisitTemplateInstantiations() const { return true; }
  bool shouldVisitImplicitCode() const { return false; }
  bool VisitFunctionDecl(FunctionDecl *FD) {
    if (auto *MD = dyn_cast<CXXMethodDecl>(FD))
      if (MD->getParent()->isLambda()) return true;  // emitted with its parent
    X.emitFunction(FD, "");
    return true;
  }
  bool VisitCXXRecordDecl(CXXRecordDecl *R) {
    X.emitClass(R);
    return true;
  }
  bool VisitVarDecl(VarDecl *VD) {
    X.emitGlobal(VD);
    return true;
  }
  Extractor &X;
};

class Consumer : public ASTConsumer {
 public:
  explicit Consumer(std::string in) : InFile(std::move(in)) {}
  void HandleTranslationUnit(ASTContext &Ctx) override {
    if (Ctx.getDiagnostics().hasErrorOccurred()) {
      llvm::errs() << "tbxfacts: parse errors in " << InFile << "\n";
      Failed = true;
    }
    Extractor X(Ctx);
    Visitor V(X);
    V.TraverseDecl(Ctx.getTranslationUnitDecl());
    json::Object top;
    top["tu"] = normPath(InFile);
    top["parse_errors"] = Failed;
    top["functions"] = std::move(X.Functions);
    top["classes"] = std::move(X.Classes);
    top["globals"] = std::move(X.Globals);
    std::error_code ec;
    if (OutFile.empty()) {
      llvm::outs() << json::Value(std::move(top)) << "\n";
    } else {
      llvm::raw_fd_ostream os(OutFile, ec);
      if (ec) {
        llvm::errs() << "cannot write " << OutFile << "\n";
        return;
      }
      os << json::Value(std::move(top)) << "\n";
    }
  }
  std::string InFile;
  bool Failed = false;
};

class Action : public ASTFrontendAction {
 public:
  std::unique_ptr<ASTConsumer> CreateASTConsumer(CompilerInstance &, StringRef InFile) override {
    return std::make_unique<Consumer>(InFile.str());
  }
};

}  // namespace

int main(int argc, const char **argv) {
  auto ExpectedParser = CommonOptionsParser::create(argc, argv, Cat);
  if (!ExpectedParser) {
    llvm::errs() << ExpectedParser.takeError();
    return 2;
  }
  CommonOptionsParser &OP = ExpectedParser.get();
  {
    std::string r = Roots;
    size_t p = 0;
    while (p <= r.size()) {
      size_t q = r.find(':', p);
      if (q == std::string::npos) q = r.size();
      if (q > p) g_roots.push_back(r.substr(p, q - p));
      p = q + 1;
    }
  }
  ClangTool Tool(OP.getCompilations(), OP.getSourcePathList());
  return Tool.run(newFrontendActionFactory<Action>().get());
}
