#!/bin/sh
# Build the LibTooling fact extractor from files on disk only.
set -e
cd "$(dirname "$0")"
mkdir -p build evidence
if [ ! -x build/tbxfacts ] || [ engine/tbxfacts.cc -nt build/tbxfacts ]; then
  clang++ $(llvm-config-14 --cxxflags) -fno-rtti -O1 engine/tbxfacts.cc -o build/tbxfacts \
    /usr/lib/llvm-14/lib/libclang-cpp.so.14 /usr/lib/llvm-14/lib/libLLVM-14.so
fi
echo "setup ok"
